/-
  The kernel SAD of the WHOLE model equals what the IKE_SA table tracks — THROUGH IKE_SA rekeys: the instance of the second
  shell-lifting contract (Proofs/ShellLift2.lean) for `concreteHandlers`.

  A table entry carries its successor (`new_ike_sa`) as a copy of the successor's shell fields.  Before the hand-over (the entry is
  not REKEYED / DEL_AFTER_REKEY_IKE_SA_REQ_SENT / DELETED) the successor is *pending*: an object of its own in the store, with a
  fresh SPI, the entry's addresses and no CHILD_SA.  The hand-over moves the CHILD_SAs into it and the controller lists it in the
  same step; from then on the entry never touches it again (Proofs/HandlersRekey.lean, `P2`).
-/
import PyIkev2.Proofs.ShellLift2
import PyIkev2.Proofs.WholeSad

namespace PyIkev2.Impl
open PyIkev2

/-! ### the table, with pending successors -/

def pendSpi (s : Sa) : List Bytes :=
  if inPost s.core.st then [] else (match s.succ with | some n => [n.mySpi] | none => [])

/-- the SPIs of all objects the table stands for: its entries and their pending successors -/
def allSpis (c : List Sa) : List Bytes := c.flatMap fun s => s.core.mySpi :: pendSpi s

def ObjC (w : XWorld) (n : SaCore) : Prop := ∃ e, w.extOf n.mySpi = some e ∧ n.children = e.kids.map Child.ref

/-- a pending successor: an object of its own, empty, with the addresses of the IKE_SA it will replace -/
def PendOK (w : XWorld) (s : Sa) (n : SaCore) : Prop :=
  ObjC w n ∧ n.children = [] ∧ n.myAddr = s.core.myAddr ∧ n.peerAddr = s.core.peerAddr

structure TW2 (c : List Sa) (w : XWorld) (K : List Key) : Prop where
  spis : (allSpis c).Nodup
  objs : ∀ s ∈ c, ObjC w s.core
  pend : ∀ s ∈ c, ¬ inPost s.core.st → ∀ n, s.succ = some n → PendOK w s n
  stored : ∀ s ∈ c, ∀ n, s.succ = some n → (∃ e, w.extOf n.mySpi = some e) ∧ n.mySpi ≠ s.core.mySpi
  sad : ∀ k, k ∈ K ↔ k ∈ tableKeys c
  nodup : (tableKeys c).Nodup

theorem TW2.perm {c1 c2 : List Sa} {w : XWorld} {K : List Key} (p : c1.Perm c2) (h : TW2 c1 w K) : TW2 c2 w K where
  spis := (p.flatMap_right _).nodup h.spis
  objs := fun s hs => h.objs s (p.mem_iff.mpr hs)
  pend := fun s hs => h.pend s (p.mem_iff.mpr hs)
  stored := fun s hs => h.stored s (p.mem_iff.mpr hs)
  sad := fun k => (h.sad k).trans (p.flatMap_right _).mem_iff
  nodup := (p.flatMap_right _).nodup h.nodup

theorem allSpis_cons (s : Sa) (rest : List Sa) : allSpis (s :: rest) = (s.core.mySpi :: pendSpi s) ++ allSpis rest := by
  simp [allSpis]

theorem allSpis_append (a b : List Sa) : allSpis (a ++ b) = allSpis a ++ allSpis b := by simp [allSpis]

/-- every SPI the table stands for has an object in the store -/
theorem TW2.has {c : List Sa} {w : XWorld} {K : List Key} (h : TW2 c w K) (k : Bytes) (hk : k ∈ allSpis c) :
    ∃ e, w.extOf k = some e := by
  unfold allSpis at hk
  obtain ⟨s, hs, hks⟩ := List.mem_flatMap.mp hk
  rcases List.mem_cons.mp hks with rfl | hp
  · obtain ⟨e, he, _⟩ := h.objs s hs; exact ⟨e, he⟩
  · unfold pendSpi at hp
    split at hp
    · cases hp
    · rename_i hnp
      cases hsu : s.succ with
      | none => rw [hsu] at hp; cases hp
      | some n =>
        rw [hsu] at hp
        simp only [List.mem_singleton] at hp
        subst hp
        obtain ⟨⟨e, he, _⟩, _⟩ := h.pend s hs hnp n hsu
        exact ⟨e, he⟩

/-! ### the store -/

theorem mem_allSpis_core {c : List Sa} {x : Sa} (hx : x ∈ c) : x.core.mySpi ∈ allSpis c :=
  List.mem_flatMap.mpr ⟨x, hx, List.mem_cons_self ..⟩

theorem mem_allSpis_pend {c : List Sa} {x : Sa} {n : SaCore} (hx : x ∈ c) (hnp : ¬ inPost x.core.st) (hn : x.succ = some n) :
    n.mySpi ∈ allSpis c := by
  apply List.mem_flatMap.mpr
  refine ⟨x, hx, List.mem_cons_of_mem _ ?_⟩
  unfold pendSpi; rw [if_neg hnp, hn]; exact List.mem_singleton.mpr rfl



theorem XWorld.put_same_value (w : XWorld) (spi : Bytes) (e : Ext) (h : w.extOf spi = some e) (k : Bytes) :
    (w.put spi e).extOf k = w.extOf k := by
  by_cases hk : k = spi
  · subst hk; rw [XWorld.extOf_put_same, h]
  · exact XWorld.extOf_put_other w spi k e hk

theorem XWorld.extOf_with (w : XWorld) (t : Tape) (d : List Key) (k : Bytes) :
    ({ w with tape := t, sad := d } : XWorld).extOf k = w.extOf k := rfl

theorem XWorld.obj_of (w : XWorld) (n : SaCore) (e : Ext) (h : w.extOf n.mySpi = some e) : (w.obj n).1 = { core := n, ext := e } := by
  unfold XWorld.obj; rw [h]

theorem XWorld.obj_core (w : XWorld) (n : SaCore) : (w.obj n).1.core = n := by
  unfold XWorld.obj; split <;> rfl

/-- storing a new object that does not clash: its SPI was not in use, every other slot is as before -/
theorem XWorld.putNew_fresh (w : XWorld) (spi : Bytes) (e : Ext) (h : (w.putNew spi e).clash = false) :
    w.extOf spi = none ∧ ∀ k, k ≠ spi → (w.putNew spi e).extOf k = w.extOf k := by
  rw [XWorld.putNew_clash] at h
  have hany : (w.exts.any fun x => x.1 = spi) = false := by
    cases hh : (w.exts.any fun x => x.1 = spi) with
    | false => rfl
    | true => rw [hh] at h; simp at h
  constructor
  · cases hx : w.extOf spi with
    | none => rfl
    | some x => have := XWorld.extOf_key w spi x hx; rw [hany] at this; cases this
  · intro k hk
    rw [XWorld.putNew_extOf]
    exact XWorld.extOf_put_other w spi k e hk

theorem XWorld.putNew_same (w : XWorld) (spi : Bytes) (e : Ext) : (w.putNew spi e).extOf spi = some e := by
  rw [XWorld.putNew_extOf]; exact XWorld.extOf_put_same _ _ _

/-! ### one delegated call on an entry that may have a successor -/

/-- the world a call leaves: tape and SAD picture from the handler state, the object stored back, the successor stored — as a new
    object (with the clash check) unless it has the SPI of the successor the entry already had -/
def worldAfter2 (w : XWorld) (s : Sa) (t : HSt) : XWorld :=
  let w2 := ({ w with tape := t.tape, sad := t.sad } : XWorld).put t.me.core.mySpi t.me.ext
  match t.succ with
  | some n => if s.succ.map (·.mySpi) = some n.core.mySpi then w2.put n.core.mySpi n.ext else w2.putNew n.core.mySpi n.ext
  | none => w2

theorem runOn_world (w : XWorld) (s : Sa) (h : HM HRes) : (runOn w s h).1 = worldAfter2 w s (h (startAny w s)).2 := by
  unfold runOn worldAfter2 startAny
  simp only [runH_me, runH_succ, runH_tape, runH_sad]
  cases s.succ <;> rfl

theorem startAny_me (w : XWorld) (s : Sa) (e : Ext) (he : w.extOf s.core.mySpi = some e) :
    (startAny w s).me = { core := s.core, ext := e } := by
  unfold startAny; exact XWorld.obj_of w s.core e he

theorem startAny_succ_core (w : XWorld) (s : Sa) : (startAny w s).succ.map (·.core) = s.succ := by
  unfold startAny
  cases s.succ with
  | none => rfl
  | some n => simp [XWorld.obj_core]

theorem startAny_sad (w : XWorld) (s : Sa) : (startAny w s).sad = w.sad := by unfold startAny; rfl
theorem startAny_nl (w : XWorld) (s : Sa) : (startAny w s).nl = [] := by unfold startAny; rfl
theorem startAny_tmp (w : XWorld) (s : Sa) : (startAny w s).tmp = none := by unfold startAny; rfl

/-- the entry a call leaves -/
def entryOf (t : HSt) : Sa := { core := t.me.core, succ := t.succ.map (·.core) }

/-- the part of `TW2` for the head of the table that does not depend on what the call did to the successor -/
theorem TW2.head_pre {s : Sa} {rest : List Sa} {w : XWorld} {K : List Key} (hT : TW2 (s :: rest) w K) (hacc : w.sad = K)
    (e : Ext) (he : w.extOf s.core.mySpi = some e) (hch : s.core.children = e.kids.map Child.ref) :
    SadI (tableKeys rest) s.core.myAddr s.core.peerAddr (startAny w s) := by
  have hme := startAny_me w s e he
  have hkx : keysX (startAny w s).me = keysOfCore s.core := by rw [hme]; exact keysX_eq_core _ hch
  refine ⟨by rw [hme], by rw [hme], ?_, ?_, by rw [hme]; exact hch⟩
  · intro k
    rw [hkx, startAny_sad, hacc, hT.sad k, tableKeys_cons, List.mem_append]
    exact Or.comm
  · rw [hkx]
    have := hT.nodup
    rw [tableKeys_cons] at this
    exact (List.perm_append_comm).nodup this

/-- past the hand-over, from the facts about the entry: the successor reference and the successor's stored object are untouched -/
theorem frozen_core {w : XWorld} {rest : List Sa} {K K' : List Key} {s : Sa} (hT : TW2 (s :: rest) w K) (hp : inPost s.core.st)
    (t : HSt) (hconst : CoreConst t.me.core s.core) (p5 : t.me.core.children = t.me.ext.kids.map Child.ref)
    (p6 : inPost t.me.core.st) (p7 : t.succ = (startAny w s).succ)
    (hsad : ∀ k, k ∈ K' ↔ k ∈ tableKeys rest ∨ k ∈ keysOfCore t.me.core) (hndk : (tableKeys rest ++ keysOfCore t.me.core).Nodup) :
    TW2 (entryOf t :: rest) (worldAfter2 w s t) K' ∧ (entryOf t).succ = s.succ ∧ (worldAfter2 w s t).clash = w.clash := by
  have hspi : t.me.core.mySpi = s.core.mySpi := hconst.2.2.1
  have hsucc : t.succ.map (·.core) = s.succ := by rw [p7]; exact startAny_succ_core w s
  have hext : ∀ k, (worldAfter2 w s t).extOf k = if k = s.core.mySpi then some t.me.ext else w.extOf k := by
    intro k
    unfold worldAfter2
    have hw2 : ∀ k, (({ w with tape := t.tape, sad := t.sad } : XWorld).put t.me.core.mySpi t.me.ext).extOf k =
        if k = s.core.mySpi then some t.me.ext else w.extOf k := by
      intro k
      by_cases hk : k = s.core.mySpi
      · rw [if_pos hk, hk, ← hspi]; exact XWorld.extOf_put_same _ _ _
      · rw [if_neg hk, XWorld.extOf_put_other _ _ _ _ (by rw [hspi]; exact hk)]; rfl
    cases hsu : s.succ with
    | none =>
      have : t.succ = none := by
        have := hsucc; rw [hsu] at this
        cases ht : t.succ with
        | none => rfl
        | some x => rw [ht] at this; cases this
      simp only [this]
      exact hw2 k
    | some n =>
      obtain ⟨⟨en, hen⟩, hne⟩ := hT.stored s (List.mem_cons_self ..) n hsu
      have ht : t.succ = some { core := n, ext := en } := by
        rw [p7]; unfold startAny; rw [hsu]; simp only; rw [XWorld.obj_of w n en hen]
      simp only [ht, hsu, Option.map_some, ↓reduceIte]
      rw [XWorld.put_same_value _ _ _ (by rw [hw2, if_neg hne]; exact hen)]
      exact hw2 k
  have hclash : (worldAfter2 w s t).clash = w.clash := by
    unfold worldAfter2
    cases hsu : s.succ with
    | none =>
      have : t.succ = none := by
        have := hsucc; rw [hsu] at this
        cases ht : t.succ with
        | none => rfl
        | some x => rw [ht] at this; cases this
      simp [this]
    | some n =>
      obtain ⟨⟨en, hen⟩, _⟩ := hT.stored s (List.mem_cons_self ..) n hsu
      have ht : t.succ = some { core := n, ext := en } := by
        rw [p7]; unfold startAny; rw [hsu]; simp only; rw [XWorld.obj_of w n en hen]
      simp [ht, hsu]
  have hnd := hT.spis
  rw [allSpis_cons, List.nodup_append] at hnd
  have hother : ∀ k, k ∈ allSpis rest → k ≠ s.core.mySpi := by
    intro k hk heq
    exact hnd.2.2 s.core.mySpi (List.mem_cons_self ..) k hk heq.symm
  refine ⟨?_, hsucc, hclash⟩
  have hpendnil : pendSpi (entryOf t) = [] := by unfold pendSpi; rw [if_pos (show inPost (entryOf t).core.st from p6)]
  have hpendnil0 : pendSpi s = [] := by unfold pendSpi; rw [if_pos hp]
  exact {
    spis := by
      rw [allSpis_cons, hpendnil]
      have := hT.spis
      rw [allSpis_cons, hpendnil0] at this
      simpa [entryOf, hspi] using this
    objs := by
      intro x hx
      rcases List.mem_cons.mp hx with rfl | hx'
      · exact ⟨t.me.ext, by rw [hext]; simp [entryOf, hspi], p5⟩
      · obtain ⟨ex, hex, hcx⟩ := hT.objs x (List.mem_cons_of_mem _ hx')
        have hne : x.core.mySpi ≠ s.core.mySpi := hother _ (mem_allSpis_core hx')
        exact ⟨ex, by rw [hext, if_neg hne]; exact hex, hcx⟩
    pend := by
      intro x hx hnp n hn
      rcases List.mem_cons.mp hx with rfl | hx'
      · exact absurd p6 hnp
      · obtain ⟨⟨en, hen, hcn⟩, h2, h3, h4⟩ := hT.pend x (List.mem_cons_of_mem _ hx') hnp n hn
        have hne : n.mySpi ≠ s.core.mySpi := hother _ (mem_allSpis_pend hx' hnp hn)
        exact ⟨⟨en, by rw [hext, if_neg hne]; exact hen, hcn⟩, h2, h3, h4⟩
    stored := by
      intro x hx n hn
      rcases List.mem_cons.mp hx with rfl | hx'
      · simp only [entryOf] at hn
        rw [hsucc] at hn
        obtain ⟨⟨en, hen⟩, hne⟩ := hT.stored s (List.mem_cons_self ..) n hn
        exact ⟨⟨en, by rw [hext, if_neg hne]; exact hen⟩, by simp only [entryOf]; rw [hspi]; exact hne⟩
      · obtain ⟨⟨en, hen⟩, hne⟩ := hT.stored x (List.mem_cons_of_mem _ hx') n hn
        refine ⟨?_, hne⟩
        rw [hext]
        split
        · exact ⟨_, rfl⟩
        · exact ⟨en, hen⟩
    sad := by
      intro k
      rw [hsad k, tableKeys_cons, List.mem_append]
      exact Or.comm
    nodup := by
      rw [tableKeys_cons]
      exact (List.perm_append_comm).nodup hndk }

theorem runOn_entry (w : XWorld) (s : Sa) (h : HM HRes) : (runOn w s h).2.sa = entryOf (h (startAny w s)).2 := (runOn_sa w s h).1

/-- **past the hand-over**: a handler leaves the entry consistent, its state in the three final states, its successor reference and
    the successor's stored object exactly as they were -/
theorem call_frozen (w : XWorld) (rest : List Sa) (K : List Key) (s : Sa) (h : HM HRes) (hT : TW2 (s :: rest) w K)
    (hacc : w.sad = K) (hp : inPost s.core.st)
    (hk : ∀ B c0, Keeps (fun t => SadI B s.core.myAddr s.core.peerAddr t ∧ P2 c0 t) h)
    (hcst : Keeps (ConstI s.core) h) (ho : ∀ sad0, Keeps (OpsI sad0) h) :
    TW2 ((runOn w s h).2.sa :: rest) (runOn w s h).1 (applyNls K (runOn w s h).2.nl) ∧
    (runOn w s h).2.sa.succ = s.succ ∧ (runOn w s h).2.sa.core.mySpi = s.core.mySpi ∧ (runOn w s h).1.clash = w.clash := by
  obtain ⟨e, he, hch⟩ := hT.objs s (List.mem_cons_self ..)
  have hme := startAny_me w s e he
  have hpre := hT.head_pre hacc e he hch
  have hpost := (hk (tableKeys rest) (startAny w s).succ).keep (startAny w s) ⟨hpre, by rw [hme]; exact hp, rfl⟩
  have hconst : CoreConst (h (startAny w s)).2.me.core s.core :=
    hcst.keep (startAny w s) (by show CoreConst (startAny w s).me.core s.core; rw [hme]; exact CoreConst.refl _)
  have hops : (h (startAny w s)).2.sad = applyNls K (h (startAny w s)).2.nl := by
    have := (ho w.sad).keep (startAny w s) (by simp [OpsI, startAny_sad, startAny_nl])
    rw [← hacc]; exact this
  rw [runOn_world, runOn_entry, (runOn_sa w s h).2]
  generalize (h (startAny w s)).2 = t at hpost hconst hops ⊢
  obtain ⟨⟨p1, p2, p3, p4, p5⟩, p6, p7⟩ := hpost
  have hkx' : keysX t.me = keysOfCore t.me.core := keysX_eq_core _ p5
  obtain ⟨f1, f2, f3⟩ := frozen_core (K' := applyNls K t.nl) hT hp t hconst p5 p6 p7 (by intro k; rw [← hops, p3 k, hkx'])
    (by rw [← hkx']; exact p4)
  exact ⟨f1, f2, hconst.2.2.1, f3⟩

/-- **past the hand-over**: a request generator — whatever the handlers believe about the kernel -/
theorem frozen_gen (w : XWorld) (rest : List Sa) (K : List Key) (s : Sa) (g : HM HRes) (hT : TW2 (s :: rest) w K)
    (hp : inPost s.core.st) (hp2 : ∀ c0, Keeps (P2 c0) g) (hcst : Keeps (ConstI s.core) g)
    (hgen : ∀ k0 c0 n0 d0, Keeps (GenI k0 c0 n0 d0) g) :
    TW2 ((runOn w s g).2.sa :: rest) (runOn w s g).1 (applyNls K (runOn w s g).2.nl) ∧ (runOn w s g).1.clash = w.clash := by
  obtain ⟨e, he, hch⟩ := hT.objs s (List.mem_cons_self ..)
  have hme := startAny_me w s e he
  have hconst : CoreConst (g (startAny w s)).2.me.core s.core :=
    hcst.keep (startAny w s) (by show CoreConst (startAny w s).me.core s.core; rw [hme]; exact CoreConst.refl _)
  obtain ⟨r1, r2⟩ := (hp2 (startAny w s).succ).keep (startAny w s) ⟨by rw [hme]; exact hp, rfl⟩
  obtain ⟨q1, q2, q3, q4⟩ := (hgen e.kids s.core.children [] w.sad).keep (startAny w s)
    ⟨by rw [hme], by rw [hme], startAny_nl w s, startAny_sad w s⟩
  rw [runOn_world, runOn_entry, (runOn_sa w s g).2]
  generalize (g (startAny w s)).2 = t at hconst r1 r2 q1 q2 q3 q4 ⊢
  have hk : keysOfCore t.me.core = keysOfCore s.core := keysOfCore_congr _ _ q2 hconst.2.2.2.1 hconst.2.2.2.2.1
  rw [q3]
  obtain ⟨f1, _, f3⟩ := frozen_core (K' := applyNls K []) hT hp t hconst (by rw [q2, q1]; exact hch) r1 r2
    (by intro k; rw [applyNls_nil, hk, hT.sad k, tableKeys_cons, List.mem_append]; exact Or.comm)
    (by rw [hk]; have := hT.nodup; rw [tableKeys_cons] at this; exact (List.perm_append_comm).nodup this)
  exact ⟨f1, f3⟩

/-! ### before the hand-over -/

/-- what the store looks like after a call on the head of the table, when no clash was recorded -/
structure StoreOK (w w' : XWorld) (s : Sa) (rest : List Sa) (t : HSt) : Prop where
  me : w'.extOf s.core.mySpi = some t.me.ext
  succ : ∀ n', t.succ = some n' → w'.extOf n'.core.mySpi = some n'.ext ∧ n'.core.mySpi ≠ s.core.mySpi ∧ n'.core.mySpi ∉ allSpis rest
  others : ∀ k, k ∈ allSpis rest → w'.extOf k = w.extOf k
  mono : ∀ k, (∃ e, w.extOf k = some e) → ∃ e, w'.extOf k = some e

theorem storeOK_live {w : XWorld} {rest : List Sa} {K : List Key} {s : Sa} (hT : TW2 (s :: rest) w K) (hnp : ¬ inPost s.core.st)
    (t : HSt) (hspi : t.me.core.mySpi = s.core.mySpi) (hcl : (worldAfter2 w s t).clash = false) :
    StoreOK w (worldAfter2 w s t) s rest t := by
  have hnd := hT.spis
  rw [allSpis_cons, List.nodup_append] at hnd
  have hother : ∀ k, k ∈ allSpis rest → k ≠ s.core.mySpi :=
    fun k hk heq => hnd.2.2 s.core.mySpi (List.mem_cons_self ..) k hk heq.symm
  have hw2 : ∀ k, (({ w with tape := t.tape, sad := t.sad } : XWorld).put t.me.core.mySpi t.me.ext).extOf k =
      if k = s.core.mySpi then some t.me.ext else w.extOf k := by
    intro k
    by_cases hk : k = s.core.mySpi
    · rw [if_pos hk, hk, ← hspi]; exact XWorld.extOf_put_same _ _ _
    · rw [if_neg hk, XWorld.extOf_put_other _ _ _ _ (by rw [hspi]; exact hk)]; rfl
  cases hts : t.succ with
  | none =>
    have hw : worldAfter2 w s t = ({ w with tape := t.tape, sad := t.sad } : XWorld).put t.me.core.mySpi t.me.ext := by
      unfold worldAfter2; simp [hts]
    rw [hw]
    exact { me := by rw [hw2]; simp
            succ := by intro n' hn'; rw [hts] at hn'; cases hn'
            others := by intro k hk; rw [hw2, if_neg (hother k hk)]
            mono := by
              intro k ⟨e, he⟩
              rw [hw2]; split
              · exact ⟨_, rfl⟩
              · exact ⟨e, he⟩ }
  | some n' =>
    by_cases hsame : s.succ.map (·.mySpi) = some n'.core.mySpi
    · -- the successor the entry already had (or one with its SPI): its slot is overwritten
      have hw : worldAfter2 w s t =
          (({ w with tape := t.tape, sad := t.sad } : XWorld).put t.me.core.mySpi t.me.ext).put n'.core.mySpi n'.ext := by
        unfold worldAfter2; simp [hts, hsame]
      rw [hw]
      obtain ⟨n0, hn0, hn0s⟩ : ∃ n0, s.succ = some n0 ∧ n0.mySpi = n'.core.mySpi := by
        cases hs : s.succ with
        | none => rw [hs] at hsame; cases hsame
        | some n0 => rw [hs] at hsame; exact ⟨n0, rfl, by simpa using hsame⟩
      have hpend : n'.core.mySpi ∈ pendSpi s := by
        unfold pendSpi; rw [if_neg hnp, hn0, ← hn0s]; exact List.mem_singleton.mpr rfl
      have hne : n'.core.mySpi ≠ s.core.mySpi := by
        have := hnd.1
        simp only [List.nodup_cons] at this
        intro heq; rw [heq] at hpend; exact this.1 hpend
      have hnr : n'.core.mySpi ∉ allSpis rest :=
        fun hin => hnd.2.2 _ (List.mem_cons_of_mem _ hpend) _ hin rfl
      exact { me := by rw [XWorld.extOf_put_other _ _ _ _ (Ne.symm hne), hw2]; simp
              succ := by
                intro m hm; rw [hts] at hm; cases hm
                exact ⟨XWorld.extOf_put_same _ _ _, hne, hnr⟩
              others := by
                intro k hk
                rw [XWorld.extOf_put_other _ _ _ _ (fun h => hnr (by rw [← h]; exact hk)), hw2, if_neg (hother k hk)]
              mono := by
                intro k ⟨e, he⟩
                by_cases hk : k = n'.core.mySpi
                · rw [hk]; exact ⟨_, XWorld.extOf_put_same _ _ _⟩
                · rw [XWorld.extOf_put_other _ _ _ _ hk, hw2]; split
                  · exact ⟨_, rfl⟩
                  · exact ⟨e, he⟩ }
    · -- a new object: its SPI was in nobody's use
      have hw : worldAfter2 w s t =
          (({ w with tape := t.tape, sad := t.sad } : XWorld).put t.me.core.mySpi t.me.ext).putNew n'.core.mySpi n'.ext := by
        unfold worldAfter2; simp [hts, hsame]
      rw [hw] at hcl ⊢
      obtain ⟨hfresh, hrest⟩ := XWorld.putNew_fresh _ _ _ hcl
      have hne : n'.core.mySpi ≠ s.core.mySpi := by
        intro heq; rw [heq, hw2, if_pos rfl] at hfresh; cases hfresh
      have hnr : n'.core.mySpi ∉ allSpis rest := by
        intro hin
        obtain ⟨e, he⟩ := hT.has _ (by rw [allSpis_cons]; exact List.mem_append_right _ hin)
        rw [hw2, if_neg hne, he] at hfresh; cases hfresh
      exact { me := by rw [hrest _ (Ne.symm hne), hw2]; simp
              succ := by
                intro m hm; rw [hts] at hm; cases hm
                exact ⟨XWorld.putNew_same _ _ _, hne, hnr⟩
              others := by
                intro k hk
                rw [hrest k (fun h => hnr (by rw [← h]; exact hk)), hw2, if_neg (hother k hk)]
              mono := by
                intro k ⟨e, he⟩
                by_cases hk : k = n'.core.mySpi
                · rw [hk]; exact ⟨_, XWorld.putNew_same _ _ _⟩
                · rw [hrest k hk, hw2]; split
                  · exact ⟨_, rfl⟩
                  · exact ⟨e, he⟩ }

theorem keysOfCore_eq_nil {n : SaCore} (h : keysOfCore n = []) : n.children = [] := by
  unfold keysOfCore at h
  cases hc : n.children with
  | nil => rfl
  | cons c r => rw [hc] at h; simp [List.flatMap_cons] at h

/-- the call left an empty successor (or none): the table with the entry replaced is consistent — from the facts about the entry -/
theorem live_core {w : XWorld} {rest : List Sa} {K K' : List Key} {s : Sa} (hT : TW2 (s :: rest) w K) (hnp : ¬ inPost s.core.st)
    (t : HSt) (hconst : CoreConst t.me.core s.core) (p5 : t.me.core.children = t.me.ext.kids.map Child.ref)
    (hwf : SuccWf s.core.myAddr s.core.peerAddr t.succ) (hempty : keysXo t.succ = [])
    (hsad : ∀ k, k ∈ K' ↔ k ∈ tableKeys rest ∨ k ∈ keysOfCore t.me.core) (hndk : (tableKeys rest ++ keysOfCore t.me.core).Nodup)
    (hcl : (worldAfter2 w s t).clash = false) :
    TW2 (entryOf t :: rest) (worldAfter2 w s t) K' := by
  have hst := storeOK_live hT hnp t hconst.2.2.1 hcl
  have p1 : t.me.core.myAddr = s.core.myAddr := hconst.2.2.2.1
  have p2 : t.me.core.peerAddr = s.core.peerAddr := hconst.2.2.2.2.1
  have hnd := hT.spis
  rw [allSpis_cons, List.nodup_append] at hnd
  have hother : ∀ k, k ∈ allSpis rest → k ≠ s.core.mySpi :=
    fun k hk heq => hnd.2.2 s.core.mySpi (List.mem_cons_self ..) k hk heq.symm
  have hspi : t.me.core.mySpi = s.core.mySpi := hconst.2.2.1
  exact {
    spis := by
      rw [allSpis_cons, List.nodup_append]
      refine ⟨?_, hnd.2.1, ?_⟩
      · simp only [List.nodup_cons, entryOf]
        refine ⟨?_, ?_⟩
        · unfold pendSpi
          split
          · simp
          · cases hts : t.succ with
            | none => simp
            | some n' =>
              simp only [Option.map_some, List.mem_singleton]
              rw [hspi]; exact fun h => (hst.succ n' hts).2.1 h.symm
        · unfold pendSpi
          split
          · exact List.nodup_nil
          · cases t.succ <;> simp
      · intro x hx y hy
        rcases List.mem_cons.mp hx with rfl | hx'
        · simp only [entryOf]; rw [hspi]; exact fun h => hother y hy h.symm
        · unfold pendSpi at hx'
          split at hx'
          · cases hx'
          · cases hts : t.succ with
            | none => simp [entryOf, hts] at hx'
            | some n' =>
              simp only [entryOf, hts, Option.map_some, List.mem_singleton] at hx'
              subst hx'
              exact fun h => (hst.succ n' hts).2.2 (h ▸ hy)
    objs := by
      intro x hx
      rcases List.mem_cons.mp hx with rfl | hx'
      · exact ⟨t.me.ext, by simp only [entryOf]; rw [hspi]; exact hst.me, p5⟩
      · obtain ⟨ex, hex, hcx⟩ := hT.objs x (List.mem_cons_of_mem _ hx')
        exact ⟨ex, by rw [hst.others _ (mem_allSpis_core hx')]; exact hex, hcx⟩
    pend := by
      intro x hx hnpx n hn
      rcases List.mem_cons.mp hx with rfl | hx'
      · cases hts : t.succ with
        | none => simp [entryOf, hts] at hn
        | some n' =>
          simp only [entryOf, hts, Option.map_some, Option.some.injEq] at hn
          subst hn
          obtain ⟨w1, w2, w3⟩ := hwf n' hts
          have hk : n'.ext.kids = [] := keysX_eq_nil n' (by simpa [keysXo, hts] using hempty)
          exact ⟨⟨n'.ext, (hst.succ n' hts).1, w3⟩, by rw [w3, hk]; rfl, by simp only [entryOf]; rw [w1, p1], by simp only [entryOf]; rw [w2, p2]⟩
      · obtain ⟨⟨en, hen, hcn⟩, h2, h3, h4⟩ := hT.pend x (List.mem_cons_of_mem _ hx') hnpx n hn
        exact ⟨⟨en, by rw [hst.others _ (mem_allSpis_pend hx' hnpx hn)]; exact hen, hcn⟩, h2, h3, h4⟩
    stored := by
      intro x hx n hn
      rcases List.mem_cons.mp hx with rfl | hx'
      · cases hts : t.succ with
        | none => simp [entryOf, hts] at hn
        | some n' =>
          simp only [entryOf, hts, Option.map_some, Option.some.injEq] at hn
          subst hn
          exact ⟨⟨_, (hst.succ n' hts).1⟩, by simp only [entryOf]; rw [hspi]; exact (hst.succ n' hts).2.1⟩
      · obtain ⟨hex, hne⟩ := hT.stored x (List.mem_cons_of_mem _ hx') n hn
        exact ⟨hst.mono _ hex, hne⟩
    sad := by
      intro k
      rw [hsad k, tableKeys_cons, List.mem_append]
      exact Or.comm
    nodup := by
      rw [tableKeys_cons]
      exact (List.perm_append_comm).nodup hndk }

/-- **the call left an empty successor (or none)**: the table with the entry replaced is consistent -/
theorem live_empty {w : XWorld} {rest : List Sa} {K K' : List Key} {s : Sa} (hT : TW2 (s :: rest) w K) (hnp : ¬ inPost s.core.st)
    (t : HSt) (hF : FullI (tableKeys rest) s.core.myAddr s.core.peerAddr t) (hconst : CoreConst t.me.core s.core)
    (hK : t.sad = K') (hempty : keysXo t.succ = []) (hcl : (worldAfter2 w s t).clash = false) :
    TW2 (entryOf t :: rest) (worldAfter2 w s t) K' := by
  obtain ⟨⟨p1, p2, p3, p4, p5⟩, hwf, _⟩ := hF
  rw [hempty, List.append_nil] at p3 p4
  have hkx' : keysX t.me = keysOfCore t.me.core := keysX_eq_core _ p5
  exact live_core hT hnp t hconst p5 hwf hempty (by intro k; rw [← hK, p3 k, hkx']) (by rw [← hkx']; exact p4) hcl

/-- **the call handed the CHILD_SAs over** (the state is REKEYED or DEL_AFTER_REKEY_IKE_SA_REQ_SENT and there is a successor): the
    table with the entry replaced AND the successor listed is consistent, and the successor is not listed yet -/
theorem live_handed {w : XWorld} {rest : List Sa} {K K' : List Key} {s : Sa} (hT : TW2 (s :: rest) w K) (hnp : ¬ inPost s.core.st)
    (t : HSt) (hF : FullI (tableKeys rest) s.core.myAddr s.core.peerAddr t) (hconst : CoreConst t.me.core s.core)
    (hK : t.sad = K') (n' : XSa) (hts : t.succ = some n') (hh : handed t.me.core.st) (hcl : (worldAfter2 w s t).clash = false) :
    TW2 ((entryOf t :: rest) ++ [{ core := n'.core, succ := none }]) (worldAfter2 w s t) K' ∧
    registered (entryOf t :: rest) n'.core = false := by
  have hst := storeOK_live hT hnp t hconst.2.2.1 hcl
  obtain ⟨hs1, hs2, hs3⟩ := hst.succ n' hts
  obtain ⟨⟨p1, p2, p3, p4, p5⟩, hwf, _⟩ := hF
  obtain ⟨w1, w2, w3⟩ := hwf n' hts
  have hkx' : keysX t.me = keysOfCore t.me.core := keysX_eq_core _ p5
  have hkn : keysXo t.succ = keysOfCore n'.core := by rw [hts]; exact keysX_eq_core _ w3
  rw [hkn] at p3 p4
  have hnd := hT.spis
  rw [allSpis_cons, List.nodup_append] at hnd
  have hother : ∀ k, k ∈ allSpis rest → k ≠ s.core.mySpi :=
    fun k hk heq => hnd.2.2 s.core.mySpi (List.mem_cons_self ..) k hk heq.symm
  have hspi : t.me.core.mySpi = s.core.mySpi := hconst.2.2.1
  have hpost : inPost (entryOf t).core.st := handed_inPost hh
  have hpe : pendSpi (entryOf t) = [] := by unfold pendSpi; rw [if_pos hpost]
  have hall : allSpis ((entryOf t :: rest) ++ [({ core := n'.core, succ := none } : Sa)]) =
      s.core.mySpi :: (allSpis rest ++ [n'.core.mySpi]) := by
    rw [allSpis_append, allSpis_cons, hpe]
    simp [allSpis, pendSpi, entryOf, hspi]
  constructor
  · exact {
      spis := by
        rw [hall, List.nodup_cons]
        refine ⟨?_, ?_⟩
        · intro hin
          rcases List.mem_append.mp hin with h1 | h1
          · exact hother _ h1 rfl
          · simp only [List.mem_singleton] at h1; exact hs2 h1.symm
        · rw [List.nodup_append]
          exact ⟨hnd.2.1, by simp, fun x hx y hy => by simp only [List.mem_singleton] at hy; subst hy; exact fun h => hs3 (h ▸ hx)⟩
      objs := by
        intro x hx
        rcases List.mem_append.mp hx with hx1 | hx1
        · rcases List.mem_cons.mp hx1 with rfl | hx'
          · exact ⟨t.me.ext, by simp only [entryOf]; rw [hspi]; exact hst.me, p5⟩
          · obtain ⟨ex, hex, hcx⟩ := hT.objs x (List.mem_cons_of_mem _ hx')
            exact ⟨ex, by rw [hst.others _ (mem_allSpis_core hx')]; exact hex, hcx⟩
        · simp only [List.mem_singleton] at hx1
          subst hx1
          exact ⟨n'.ext, hs1, w3⟩
      pend := by
        intro x hx hnpx n hn
        rcases List.mem_append.mp hx with hx1 | hx1
        · rcases List.mem_cons.mp hx1 with rfl | hx'
          · exact absurd hpost hnpx
          · obtain ⟨⟨en, hen, hcn⟩, h2, h3, h4⟩ := hT.pend x (List.mem_cons_of_mem _ hx') hnpx n hn
            exact ⟨⟨en, by rw [hst.others _ (mem_allSpis_pend hx' hnpx hn)]; exact hen, hcn⟩, h2, h3, h4⟩
        · simp only [List.mem_singleton] at hx1
          subst hx1
          cases hn
      stored := by
        intro x hx n hn
        rcases List.mem_append.mp hx with hx1 | hx1
        · rcases List.mem_cons.mp hx1 with rfl | hx'
          · simp only [entryOf, hts, Option.map_some, Option.some.injEq] at hn
            subst hn
            exact ⟨⟨_, hs1⟩, by simp only [entryOf]; rw [hspi]; exact hs2⟩
          · obtain ⟨hex, hne⟩ := hT.stored x (List.mem_cons_of_mem _ hx') n hn
            exact ⟨hst.mono _ hex, hne⟩
        · simp only [List.mem_singleton] at hx1
          subst hx1
          cases hn
      sad := by
        intro k
        rw [← hK, p3 k, hkx', tableKeys_append, tableKeys_cons]
        simp only [tableKeys, List.flatMap_cons, List.flatMap_nil, List.append_nil, List.mem_append, entryOf]
        constructor
        · rintro ((h | h) | h)
          · exact Or.inl (Or.inr h)
          · exact Or.inr h
          · exact Or.inl (Or.inl h)
        · rintro ((h | h) | h)
          · exact Or.inr h
          · exact Or.inl (Or.inl h)
          · exact Or.inl (Or.inr h)
      nodup := by
        rw [tableKeys_append, tableKeys_cons]
        simp only [tableKeys, List.flatMap_cons, List.flatMap_nil, List.append_nil, entryOf]
        rw [hkx'] at p4
        -- p4 : ((tableKeys rest ++ keysOfCore n'.core) ++ keysOfCore t.me.core).Nodup
        have hp : ((keysOfCore t.me.core ++ List.flatMap (fun s => keysOfCore s.core) rest) ++ keysOfCore n'.core).Perm
            ((tableKeys rest ++ keysOfCore n'.core) ++ keysOfCore t.me.core) := by
          unfold tableKeys
          rw [List.append_assoc]
          exact List.perm_append_comm
        exact hp.symm.nodup p4 }
  · cases hr : registered (entryOf t :: rest) n'.core with
    | false => rfl
    | true =>
      rw [registered_iff] at hr
      simp only [List.map_cons, List.mem_cons, List.mem_map] at hr
      rcases hr with h | ⟨x, hx, hxs⟩
      · simp only [entryOf] at h; rw [hspi] at h; exact absurd h hs2
      · exact absurd (hxs ▸ mem_allSpis_core hx) hs3

/-! ### the calls, seen from the table -/

theorem runOn_res_ok (w : XWorld) (s : Sa) (h : HM HRes) (x : HRes) (t : HSt) (hr : h (startAny w s) = (.ok x, t)) :
    (runOn w s h).2.res = x := by
  unfold runOn startAny at *
  simp only
  cases hs : s.succ <;> (rw [hs] at hr; simp only at hr; unfold runH; simp only [hr])

theorem runOn_res_err (w : XWorld) (s : Sa) (h : HM HRes) (e : Exc) (t : HSt) (hr : h (startAny w s) = (.error e, t)) :
    isErr (runOn w s h).2.res = true := by
  unfold runOn startAny at *
  simp only
  cases hs : s.succ <;> (rw [hs] at hr; simp only at hr; unfold runH; simp only [hr]; cases e <;> rfl)

/-- before the hand-over the handler starts from a state that satisfies `G` -/
theorem start_G {s : Sa} {rest : List Sa} {w : XWorld} {K : List Key} (hT : TW2 (s :: rest) w K) (hacc : w.sad = K)
    (hnp : ¬ inPost s.core.st) : G (tableKeys rest) s.core.myAddr s.core.peerAddr (startAny w s) := by
  obtain ⟨e, he, hch⟩ := hT.objs s (List.mem_cons_self ..)
  have hme := startAny_me w s e he
  refine ⟨hT.head_pre hacc e he hch, by rw [hme], by rw [hme], ?_, by intro n hn; rw [startAny_tmp] at hn; cases hn⟩
  intro n' hn'
  unfold startAny at hn'
  cases hs : s.succ with
  | none => rw [hs] at hn'; cases hn'
  | some n =>
    rw [hs] at hn'
    simp only [Option.some.injEq] at hn'
    obtain ⟨⟨en, hen, hcn⟩, h2, h3, h4⟩ := hT.pend s (List.mem_cons_self ..) hnp n hs
    rw [XWorld.obj_of w n en hen] at hn'
    subst hn'
    have hk : en.kids = [] := by
      rw [h2] at hcn
      exact List.map_eq_nil_iff.mp hcn.symm
    exact ⟨h3, h4, hk, h2⟩

def TWc2 (w : XWorld) (c : List Sa) (K : List Key) : Prop := w.clash = true ∨ TW2 c w K

/-- **a request / response handler before the hand-over** -/
theorem live_call (w : XWorld) (rest : List Sa) (K : List Key) (s : Sa) (h : HM HRes) (hT : TW2 (s :: rest) w K)
    (hacc : w.sad = K) (hnp : ¬ inPost s.core.st)
    (h1 : Hoare (G (tableKeys rest) s.core.myAddr s.core.peerAddr) h (fun _ => FullH (tableKeys rest) s.core.myAddr s.core.peerAddr)
      (G (tableKeys rest) s.core.myAddr s.core.peerAddr))
    (hret : RetOK h) (hcst : Keeps (ConstI s.core) h) (ho : ∀ sad0, Keeps (OpsI sad0) h) :
    (runOn w s h).1.clash = true ∨
    ((TW2 ((runOn w s h).2.sa :: rest) (runOn w s h).1 (applyNls K (runOn w s h).2.nl) ∧
        (isErr (runOn w s h).2.res = false → handed (runOn w s h).2.sa.core.st → (runOn w s h).2.sa.succ = none)) ∨
     (isErr (runOn w s h).2.res = false ∧ handed (runOn w s h).2.sa.core.st ∧ ∃ n, (runOn w s h).2.sa.succ = some n ∧
        registered ((runOn w s h).2.sa :: rest) n = false ∧
        TW2 (((runOn w s h).2.sa :: rest) ++ [{ core := n, succ := none }]) (runOn w s h).1 (applyNls K (runOn w s h).2.nl))) := by
  obtain ⟨e, he, hch⟩ := hT.objs s (List.mem_cons_self ..)
  have hme := startAny_me w s e he
  have hg := start_G hT hacc hnp
  have hconst : CoreConst (h (startAny w s)).2.me.core s.core :=
    hcst.keep (startAny w s) (by show CoreConst (startAny w s).me.core s.core; rw [hme]; exact CoreConst.refl _)
  have hops : (h (startAny w s)).2.sad = applyNls K (h (startAny w s)).2.nl := by
    have := (ho w.sad).keep (startAny w s) (by simp [OpsI, startAny_sad, startAny_nl])
    rw [← hacc]; exact this
  by_cases hcl : (runOn w s h).1.clash = true
  · exact Or.inl hcl
  right
  have hcl' : (worldAfter2 w s (h (startAny w s)).2).clash = false := by
    rw [← runOn_world]; simpa using hcl
  rw [runOn_world, (runOn_sa w s h).1, (runOn_sa w s h).2]
  cases hr : h (startAny w s) with
  | mk r t =>
    rw [hr] at hconst hops hcl'
    simp only at hconst hops hcl' ⊢
    cases r with
    | error ex =>
      have hG := h1.err _ ex t hg hr
      have herr := runOn_res_err w s h ex t hr
      left
      refine ⟨live_empty hT hnp t hG.full hconst hops hG.2.keysXo_nil hcl', ?_⟩
      intro hne; rw [herr] at hne; cases hne
    | ok x =>
      have hF := h1.ok _ x t hg hr
      have hres := runOn_res_ok w s h x t hr
      have hnoerr : isErr x = false := hret.ok _ x t trivial hr
      by_cases hh : handed t.me.core.st
      · cases hts : t.succ with
        | none =>
          left
          have hle := live_empty hT hnp t hF.1 hconst hops (by rw [hts]; rfl) hcl'
          refine ⟨by simpa [entryOf, hts] using hle, ?_⟩
          intro _ _; rfl
        | some n' =>
          right
          obtain ⟨q1, q2⟩ := live_handed hT hnp t hF.1 hconst hops n' hts hh hcl'
          refine ⟨by rw [hres]; exact hnoerr, hh, n'.core, by simp [hts], ?_, ?_⟩
          · simpa [entryOf, hts] using q2
          · simpa [entryOf, hts] using q1
      · left
        have hempty : keysXo t.succ = [] := Classical.byContradiction fun hne => hh (hF.2 hne)
        refine ⟨live_empty hT hnp t hF.1 hconst hops hempty hcl', ?_⟩
        intro _ hh'; exact absurd hh' hh

/-- before the hand-over the successor the handler sees is empty and has the IKE_SA's addresses (no matter what the handlers
    believe about the kernel) -/
theorem start_SO {s : Sa} {rest : List Sa} {w : XWorld} {K : List Key} (hT : TW2 (s :: rest) w K)
    (hnp : ¬ inPost s.core.st) : SO s.core.myAddr s.core.peerAddr (startAny w s) := by
  obtain ⟨e, he, hch⟩ := hT.objs s (List.mem_cons_self ..)
  have hme := startAny_me w s e he
  refine ⟨by rw [hme], by rw [hme], ?_, by intro n hn; rw [startAny_tmp] at hn; cases hn⟩
  intro n' hn'
  unfold startAny at hn'
  cases hs : s.succ with
  | none => rw [hs] at hn'; cases hn'
  | some n =>
    rw [hs] at hn'
    simp only [Option.some.injEq] at hn'
    obtain ⟨⟨en, hen, hcn⟩, h2, h3, h4⟩ := hT.pend s (List.mem_cons_self ..) hnp n hs
    rw [XWorld.obj_of w n en hen] at hn'
    subst hn'
    have hk : en.kids = [] := by
      rw [h2] at hcn
      exact List.map_eq_nil_iff.mp hcn.symm
    exact ⟨h3, h4, hk, h2⟩

/-- **a request generator before the hand-over**: asks nothing of the kernel, leaves records and view alone, leaves an empty
    successor — whatever the handlers believe about the kernel -/
theorem live_gen (w : XWorld) (rest : List Sa) (K : List Key) (s : Sa) (g : HM HRes) (hT : TW2 (s :: rest) w K)
    (hnp : ¬ inPost s.core.st) (hso : Keeps (SO s.core.myAddr s.core.peerAddr) g) (hcst : Keeps (ConstI s.core) g)
    (hgen : ∀ k0 c0 n0 d0, Keeps (GenI k0 c0 n0 d0) g) :
    (runOn w s g).1.clash = true ∨ TW2 ((runOn w s g).2.sa :: rest) (runOn w s g).1 (applyNls K (runOn w s g).2.nl) := by
  obtain ⟨e, he, hch⟩ := hT.objs s (List.mem_cons_self ..)
  have hme := startAny_me w s e he
  have hconst : CoreConst (g (startAny w s)).2.me.core s.core :=
    hcst.keep (startAny w s) (by show CoreConst (startAny w s).me.core s.core; rw [hme]; exact CoreConst.refl _)
  have hso' := hso.keep (startAny w s) (start_SO hT hnp)
  obtain ⟨q1, q2, q3, q4⟩ := (hgen e.kids s.core.children [] w.sad).keep (startAny w s)
    ⟨by rw [hme], by rw [hme], startAny_nl w s, startAny_sad w s⟩
  by_cases hcl : (runOn w s g).1.clash = true
  · exact Or.inl hcl
  right
  have hcl' : (worldAfter2 w s (g (startAny w s)).2).clash = false := by
    rw [← runOn_world]; simpa using hcl
  rw [runOn_world, (runOn_sa w s g).1, (runOn_sa w s g).2]
  generalize (g (startAny w s)).2 = t at hconst hso' q1 q2 q3 q4 hcl' ⊢
  have hk : keysOfCore t.me.core = keysOfCore s.core := keysOfCore_congr _ _ q2 hconst.2.2.2.1 hconst.2.2.2.2.1
  have hwf : SuccWf s.core.myAddr s.core.peerAddr t.succ := by
    intro n hn
    obtain ⟨w1, w2, w3, w4⟩ := hso'.2.2.1 n hn
    exact ⟨w1, w2, by rw [w4, w3]; rfl⟩
  rw [q3]
  exact live_core hT hnp t hconst (by rw [q2, q1]; exact hch) hwf hso'.keysXo_nil
    (by intro k; rw [applyNls_nil, hk, hT.sad k, tableKeys_cons, List.mem_append]; exact Or.comm)
    (by rw [hk]; have := hT.nodup; rw [tableKeys_cons] at this; exact (List.perm_append_comm).nodup this) hcl'

/-! ### the contract -/

theorem pendSpi_sub (a b : Sa) (h : ShellEq2 a b) : ∀ x, x ∈ pendSpi b → x ∈ pendSpi a := by
  intro x hx
  unfold pendSpi at hx ⊢
  rcases h.2.2.2.2.2 with hst | hst
  · rw [hst, h.1] at hx; exact hx
  · rw [hst] at hx
    rw [if_pos (show inPost stDELETED from Or.inr (Or.inr rfl))] at hx
    cases hx

theorem pendSpi_nodup (s : Sa) : (pendSpi s).Nodup := by
  unfold pendSpi
  split
  · exact List.nodup_nil
  · cases s.succ <;> simp

theorem TW2.cons_congr2 {a b : Sa} {rest : List Sa} {w : XWorld} {K : List Key} (h : TW2 (a :: rest) w K) (he : ShellEq2 a b) :
    TW2 (b :: rest) w K := by
  obtain ⟨e1, e2, e3, e4, e5, e6⟩ := he
  have hnd := h.spis
  rw [allSpis_cons, List.nodup_append] at hnd
  have hsub := pendSpi_sub a b ⟨e1, e2, e3, e4, e5, e6⟩
  exact {
    spis := by
      rw [allSpis_cons, List.nodup_append]
      refine ⟨?_, hnd.2.1, ?_⟩
      · rw [List.nodup_cons]
        have h1 := hnd.1
        rw [List.nodup_cons] at h1
        exact ⟨fun hin => h1.1 (by rw [← e3]; exact hsub _ hin), pendSpi_nodup b⟩
      · intro x hx y hy
        apply hnd.2.2 x _ y hy
        rcases List.mem_cons.mp hx with rfl | hx'
        · rw [e3]; exact List.mem_cons_self ..
        · exact List.mem_cons_of_mem _ (hsub _ hx')
    objs := by
      intro s hs
      rcases List.mem_cons.mp hs with rfl | hs'
      · obtain ⟨e, he, hc⟩ := h.objs a (List.mem_cons_self ..)
        exact ⟨e, by rw [e3]; exact he, by rw [e2]; exact hc⟩
      · exact h.objs s (List.mem_cons_of_mem _ hs')
    pend := by
      intro s hs hnp n hn
      rcases List.mem_cons.mp hs with rfl | hs'
      · have hst : s.core.st = a.core.st := by
          rcases e6 with h6 | h6
          · exact h6
          · exact absurd (by rw [h6]; exact Or.inr (Or.inr rfl)) hnp
        obtain ⟨q1, q2, q3, q4⟩ := h.pend a (List.mem_cons_self ..) (by rw [← hst]; exact hnp) n (by rw [← e1]; exact hn)
        exact ⟨q1, q2, by rw [e4]; exact q3, by rw [e5]; exact q4⟩
      · exact h.pend s (List.mem_cons_of_mem _ hs') hnp n hn
    stored := by
      intro s hs n hn
      rcases List.mem_cons.mp hs with rfl | hs'
      · obtain ⟨q1, q2⟩ := h.stored a (List.mem_cons_self ..) n (by rw [← e1]; exact hn)
        exact ⟨q1, by rw [e3]; exact q2⟩
      · exact h.stored s (List.mem_cons_of_mem _ hs') n hn
    sad := by
      intro k
      rw [h.sad k, tableKeys_cons, tableKeys_cons, keysOfCore_congr a.core b.core e2 e4 e5]
    nodup := by
      have := h.nodup
      rwa [tableKeys_cons, ← keysOfCore_congr a.core b.core e2 e4 e5, ← tableKeys_cons] at this }

theorem TW2.to_cons {w : XWorld} {c : List Sa} {K : List Key} {i : Nat} {s : Sa} (hi : i < c.length)
    (h : TW2 (c.set i s) w K) : TW2 (s :: c.eraseIdx i) w K := h.perm (set_perm_cons c i s hi)

theorem TW2.of_cons {w : XWorld} {c : List Sa} {K : List Key} {i : Nat} {s : Sa} (hi : i < c.length)
    (h : TW2 (s :: c.eraseIdx i) w K) : TW2 (c.set i s) w K := h.perm (set_perm_cons c i s hi).symm

theorem registered_perm {c1 c2 : List Sa} (p : c1.Perm c2) (n : SaCore) : registered c1 n = registered c2 n := by
  rw [Bool.eq_iff_iff, registered_iff, registered_iff]
  exact (p.map _).mem_iff

theorem TW2.remove_head {s : Sa} {rest : List Sa} {w : XWorld} {K : List Key} (h : TW2 (s :: rest) w K) :
    TW2 rest w (applyNls K (deleteChildSas s.core).2) := by
  have hnd := h.spis
  rw [allSpis_cons, List.nodup_append] at hnd
  have hk := h.nodup
  rw [tableKeys_cons, List.nodup_append] at hk
  exact {
    spis := hnd.2.1
    objs := fun x hx => h.objs x (List.mem_cons_of_mem _ hx)
    pend := fun x hx => h.pend x (List.mem_cons_of_mem _ hx)
    stored := fun x hx => h.stored x (List.mem_cons_of_mem _ hx)
    sad := by
      intro k
      rw [deleteChildSas_ops, applyNls_del, List.mem_filter, h.sad k, tableKeys_cons, List.mem_append]
      simp only [List.contains_iff_mem, decide_not, Bool.not_eq_eq_eq_not, Bool.not_true, decide_eq_false_iff_not]
      constructor
      · rintro ⟨h1 | h1, h2⟩
        · exact absurd h1 h2
        · exact h1
      · intro h1
        exact ⟨Or.inr h1, fun h2 => hk.2.2 k h2 k h1 rfl⟩
    nodup := hk.2.1 }

theorem TW2.forget_last {c : List Sa} {x : Sa} {w : XWorld} {K : List Key} (h : TW2 (c ++ [x]) w K) (hch : x.core.children = []) :
    TW2 c w K := by
  have hnd := h.spis
  rw [allSpis_append, List.nodup_append] at hnd
  exact {
    spis := hnd.1
    objs := fun s hs => h.objs s (List.mem_append_left _ hs)
    pend := fun s hs => h.pend s (List.mem_append_left _ hs)
    stored := fun s hs => h.stored s (List.mem_append_left _ hs)
    sad := by
      intro k
      rw [h.sad k, tableKeys_append]
      simp [tableKeys, keysOfCore_nil _ hch]
    nodup := by
      have := h.nodup
      rw [tableKeys_append] at this
      simpa [tableKeys, keysOfCore_nil _ hch] using this }

theorem TW2.with_tape {c : List Sa} {w : XWorld} {K : List Key} (h : TW2 c w K) (t : Tape) : TW2 c { w with tape := t } K :=
  { h with objs := fun s hs => h.objs s hs, pend := fun s hs => h.pend s hs, stored := fun s hs => h.stored s hs }

theorem TW2.with_sad {c : List Sa} {w : XWorld} {K : List Key} (h : TW2 c w K) (d : List Key) : TW2 c { w with sad := d } K :=
  { h with objs := fun s hs => h.objs s hs, pend := fun s hs => h.pend s hs, stored := fun s hs => h.stored s hs }

/-- a brand-new IKE_SA object (the controller's constructor) joins the table -/
theorem TW2.append_new {c : List Sa} {w : XWorld} {K : List Key} (h : TW2 c w K) (x : XSa) (hch : x.core.children = [])
    (hk : x.ext.kids = []) (hcl : (w.putNew x.core.mySpi x.ext).clash = false) :
    TW2 (c ++ [{ core := x.core, succ := none }]) (w.putNew x.core.mySpi x.ext) K := by
  obtain ⟨hfresh, hrest⟩ := XWorld.putNew_fresh _ _ _ hcl
  have hnotin : x.core.mySpi ∉ allSpis c := by
    intro hin
    obtain ⟨e, he⟩ := h.has _ hin
    rw [he] at hfresh; cases hfresh
  have hkeep : ∀ k, k ∈ allSpis c → (w.putNew x.core.mySpi x.ext).extOf k = w.extOf k :=
    fun k hk => hrest k (fun heq => hnotin (heq ▸ hk))
  exact {
    spis := by
      rw [allSpis_append, List.nodup_append]
      refine ⟨h.spis, by simp [allSpis, pendSpi], ?_⟩
      intro a ha b hb
      simp only [allSpis, pendSpi, List.flatMap_cons, List.flatMap_nil, List.append_nil] at hb
      have : b = x.core.mySpi := by
        split at hb <;> simpa using hb
      subst this
      exact fun heq => hnotin (heq ▸ ha)
    objs := by
      intro s hs
      rcases List.mem_append.mp hs with h1 | h1
      · obtain ⟨e, he, hc⟩ := h.objs s h1
        exact ⟨e, by rw [hkeep _ (mem_allSpis_core h1)]; exact he, hc⟩
      · simp only [List.mem_singleton] at h1
        subst h1
        exact ⟨x.ext, XWorld.putNew_same _ _ _, by simp [hch, hk]⟩
    pend := by
      intro s hs hnp n hn
      rcases List.mem_append.mp hs with h1 | h1
      · obtain ⟨⟨e, he, hc⟩, q2, q3, q4⟩ := h.pend s h1 hnp n hn
        exact ⟨⟨e, by rw [hkeep _ (mem_allSpis_pend h1 hnp hn)]; exact he, hc⟩, q2, q3, q4⟩
      · simp only [List.mem_singleton] at h1
        subst h1
        cases hn
    stored := by
      intro s hs n hn
      rcases List.mem_append.mp hs with h1 | h1
      · obtain ⟨⟨e, he⟩, q2⟩ := h.stored s h1 n hn
        refine ⟨?_, q2⟩
        by_cases hk : n.mySpi = x.core.mySpi
        · rw [hk]; exact ⟨_, XWorld.putNew_same _ _ _⟩
        · exact ⟨e, by rw [hrest _ hk]; exact he⟩
      · simp only [List.mem_singleton] at h1
        subst h1
        cases hn
    sad := by
      intro k
      rw [h.sad k, tableKeys_append]
      simp [tableKeys, keysOfCore_nil _ hch]
    nodup := by
      rw [tableKeys_append]
      simpa [tableKeys, keysOfCore_nil _ hch] using h.nodup }

theorem runOn_nh (w : XWorld) (s : Sa) (h : HM HRes) (hn : Keeps NH h) (hs : ¬ handed s.core.st) :
    ¬ handed (runOn w s h).2.sa.core.st := by
  rw [(runOn_sa w s h).1]
  exact hn.keep (startAny w s) (by show ¬ handed (startAny w s).me.core.st; rw [startAny_core]; exact hs)

def Clashed (w : XWorld) : Prop := w.clash = true

/-- the clause for a request / response handler, in the shape the contract wants -/
theorem handler_clause (w : XWorld) (c : List Sa) (K : List Key) (i : Nat) (s : Sa) (h : HM HRes) (hi : i < c.length)
    (hT : TWc2 w (c.set i s) K) (hA : Acc w K) (hS : SuccListedP (c.set i s) s)
    (h1 : ∀ B, Hoare (G B s.core.myAddr s.core.peerAddr) h (fun _ => FullH B s.core.myAddr s.core.peerAddr) (G B s.core.myAddr s.core.peerAddr))
    (h2 : ∀ B c0, Keeps (fun t => SadI B s.core.myAddr s.core.peerAddr t ∧ P2 c0 t) h)
    (hret : RetOK h) (hcst : Keeps (ConstI s.core) h) (ho : ∀ sad0, Keeps (OpsI sad0) h) :
    (TWc2 (runOn w s h).1 (c.set i (runOn w s h).2.sa) (applyNls K (runOn w s h).2.nl) ∧
      (isErr (runOn w s h).2.res = false → SuccListed (c.set i (runOn w s h).2.sa) (runOn w s h).2.sa ∨ Clashed (runOn w s h).1)) ∨
    (isErr (runOn w s h).2.res = false ∧ Trans TWc2 (runOn w s h).1 (c.set i (runOn w s h).2.sa) (runOn w s h).2.sa
      (applyNls K (runOn w s h).2.nl)) := by
  rcases hT with hcl | hT
  · exact Or.inl ⟨Or.inl (runOn_clash_mono w s h hcl), fun _ => Or.inr (runOn_clash_mono w s h hcl)⟩
  rcases hA with hcl | hA
  · exact Or.inl ⟨Or.inl (runOn_clash_mono w s h hcl), fun _ => Or.inr (runOn_clash_mono w s h hcl)⟩
  have hTc := TW2.to_cons hi hT
  by_cases hp : inPost s.core.st
  · -- past the hand-over
    obtain ⟨f1, f2, f3, f4⟩ := call_frozen w (c.eraseIdx i) K s h hTc hA hp h2 hcst ho
    left
    refine ⟨Or.inr (TW2.of_cons hi f1), fun _ => Or.inl ?_⟩
    intro _ n hn
    rw [registered_set c i s _ n f3]
    exact hS hp n (by rw [← f2]; exact hn)
  · rcases live_call w (c.eraseIdx i) K s h hTc hA hp (h1 _) hret hcst ho with hcl | ⟨g1, g2⟩ | ⟨g1, g2, n, g3, g4, g5⟩
    · exact Or.inl ⟨Or.inl hcl, fun _ => Or.inr hcl⟩
    · left
      refine ⟨Or.inr (TW2.of_cons hi g1), fun hne => Or.inl ?_⟩
      intro hh n hn
      rw [g2 hne hh] at hn; cases hn
    · right
      refine ⟨g1, g2, n, g3, ?_, Or.inr ?_⟩
      · rw [← registered_perm (set_perm_cons c i _ hi).symm]; exact g4
      · exact g5.perm ((set_perm_cons c i _ hi).symm.append_right _)

theorem gen_clause2 (w : XWorld) (c : List Sa) (K : List Key) (i : Nat) (s : Sa) (g : HM Msg) (hi : i < c.length)
    (hT : TWc2 w (c.set i s) K) (hso : Keeps (SO s.core.myAddr s.core.peerAddr) g) (hp2 : ∀ c0, Keeps (P2 c0) g)
    (hcst : Keeps (ConstI s.core) g) (hgen : ∀ k0 c0 n0 d0, Keeps (GenI k0 c0 n0 d0) g) :
    TWc2 (runOn w s (asRequest g)).1 (c.set i (runOn w s (asRequest g)).2.sa) (applyNls K (runOn w s (asRequest g)).2.nl) := by
  rcases hT with hcl | hT
  · exact Or.inl (runOn_clash_mono w s _ hcl)
  have hTc := TW2.to_cons hi hT
  by_cases hp : inPost s.core.st
  · exact Or.inr (TW2.of_cons hi (frozen_gen w _ K s _ hTc hp (fun c0 => asRequest_keeps (hp2 c0)) (asRequest_keeps hcst)
      (asRequest_gen hgen)).1)
  · rcases live_gen w _ K s _ hTc hp (asRequest_keeps hso) (asRequest_keeps hcst) (asRequest_gen hgen) with hcl | hT'
    · exact Or.inl hcl
    · exact Or.inr (TW2.of_cons hi hT')

theorem concrete_contract2 : Contract2 concreteHandlers TWc2 Acc Clashed where
  esc := fun _ _ _ h => Or.inl h
  shellT := by
    intro w c K i a b hT hs
    rcases hT with hcl | hT
    · exact Or.inl hcl
    · right
      rcases Nat.lt_or_ge i c.length with hi | hi
      · exact TW2.of_cons hi ((TW2.to_cons hi hT).cons_congr2 hs)
      · rw [List.set_eq_of_length_le hi] at hT ⊢; exact hT
  req := by
    intro w c K i s now m w' o hi hT hA hS hq
    simp only [concreteHandlers] at hq
    split at hq
    · rename_i h hh
      have hw : w' = (runOn w s h).1 := by cases hq; rfl
      have ho : o = (runOn w s h).2 := by cases hq; rfl
      subst hw ho
      exact handler_clause w c K i s h hi hT hA hS (fun B => request_regime1 B _ _ now m h hh)
        (fun B c0 => request_frozen _ _ B c0 now m h hh) (requestHandler_ret now m h hh) (requestHandler_c s.core now m h hh)
        (fun sad0 => requestHandler_o sad0 now m h hh)
    · cases hq
  reqNone := by
    intro w s now m w' hq
    simp only [concreteHandlers] at hq
    split at hq
    · cases hq
    · cases hq; rfl
  req34 := concrete_contract.req34
  resp := by
    intro w c K i s now m w' o hi hT hA hS hq
    simp only [concreteHandlers] at hq
    split at hq
    · rename_i h hh
      have hw : w' = (runOn w s h).1 := by cases hq; rfl
      have ho : o = (runOn w s h).2 := by cases hq; rfl
      subst hw ho
      exact handler_clause w c K i s h hi hT hA hS (fun B => response_regime1 B _ _ now m h hh)
        (fun B c0 => response_frozen _ _ B c0 now m h hh) (responseHandler_ret now m h hh) (responseHandler_c s.core now m h hh)
        (fun sad0 => responseHandler_o sad0 now m h hh)
    · cases hq
  respNone := by
    intro w s now m w' hq
    simp only [concreteHandlers] at hq
    split at hq
    · cases hq
    · cases hq; rfl
  genAcquire := by
    intro w c K i s now a b idx w' o hi hT hq
    simp only [concreteHandlers] at hq
    have hw : w' = (runOn w s (asRequest (genAcquireH a b idx))).1 := by rw [hq]
    have ho : o = (runOn w s (asRequest (genAcquireH a b idx))).2 := by rw [hq]
    subst hw ho
    exact ⟨gen_clause2 w c K i s _ hi hT (genAcquireH_so _ _ a b idx) (fun c0 => genAcquireH_p2 c0 a b idx) (genAcquireH_c s.core a b idx)
      (fun k0 c0 n0 d0 => genAcquireH_g k0 c0 n0 d0 a b idx), runOn_nh w s _ (asRequest_keeps (genAcquireH_nh a b idx))⟩
  genExpire := by
    intro w c K i s now ch hard w' o hi hT hq
    simp only [concreteHandlers] at hq
    have hw : w' = (runOn w s (asRequest (genExpireH ch hard))).1 := by rw [hq]
    have ho : o = (runOn w s (asRequest (genExpireH ch hard))).2 := by rw [hq]
    subst hw ho
    exact ⟨gen_clause2 w c K i s _ hi hT (genExpireH_so _ _ ch hard) (fun c0 => genExpireH_p2 c0 ch hard) (genExpireH_c s.core ch hard)
      (fun k0 c0 n0 d0 => genExpireH_g k0 c0 n0 d0 ch hard), runOn_nh w s _ (asRequest_keeps (genExpireH_nh ch hard))⟩
  genDpd := by
    intro w c K i s now w' o hi hT hq
    simp only [concreteHandlers] at hq
    have hw : w' = (runOn w s (asRequest generateDpdRequest)).1 := by rw [hq]
    have ho : o = (runOn w s (asRequest generateDpdRequest)).2 := by rw [hq]
    subst hw ho
    exact gen_clause2 w c K i s _ hi hT (generateDpdRequest_so _ _) (fun c0 => generateDpdRequest_p2 c0) (generateDpdRequest_c s.core)
      (fun k0 c0 n0 d0 => generateDpdRequest_g k0 c0 n0 d0)
  genDeleteIke := by
    intro w c K i s now w' o hi hT hq
    simp only [concreteHandlers] at hq
    have hw : w' = (runOn w s (asRequest generateDeleteIkeSaRequest)).1 := by rw [hq]
    have ho : o = (runOn w s (asRequest generateDeleteIkeSaRequest)).2 := by rw [hq]
    subst hw ho
    exact gen_clause2 w c K i s _ hi hT (generateDeleteIkeSaRequest_so _ _) (fun c0 => generateDeleteIkeSaRequest_p2 c0)
      (generateDeleteIkeSaRequest_c s.core) (fun k0 c0 n0 d0 => generateDeleteIkeSaRequest_g k0 c0 n0 d0)
  genRekeyIke := by
    intro w c K i s now w' o hi hT hq
    simp only [concreteHandlers] at hq
    have hw : w' = (runOn w s (asRequest (generateRekeyIkeSaRequest now))).1 := by rw [hq]
    have ho : o = (runOn w s (asRequest (generateRekeyIkeSaRequest now))).2 := by rw [hq]
    subst hw ho
    exact gen_clause2 w c K i s _ hi hT (generateRekeyIkeSaRequest_so _ _ now) (fun c0 => generateRekeyIkeSaRequest_p2 c0 now)
      (generateRekeyIkeSaRequest_c s.core now) (fun k0 c0 n0 d0 => generateRekeyIkeSaRequest_g k0 c0 n0 d0 now)
  newSa := by
    intro w c K now isInit peerSpi a p w' n hT hq
    simp only [concreteHandlers] at hq
    split at hq
    · cases hq
    · rename_i conf _
      split at hq
      · rename_i x st hx
        obtain ⟨h1, h2, h3⟩ := newXSa_ok _ _ _ _ _ _ _ _ _ hx
        have hw : w' = ({ w with tape := st.tape } : XWorld).putNew x.core.mySpi x.ext := by cases hq; rfl
        have hn : n = x.core := by cases hq; rfl
        subst hw hn
        refine ⟨?_, h1, h3, ?_⟩
        · rcases hT with hcl | hT
          · left; rw [XWorld.putNew_clash]; simp [hcl]
          · by_cases hcl : (({ w with tape := st.tape } : XWorld).putNew x.core.mySpi x.ext).clash = true
            · exact Or.inl hcl
            · exact Or.inr ((hT.with_tape st.tape).append_new x h1 h2 (by simpa using hcl))
        · intro hA
          rcases hA with hcl | hA
          · left; rw [XWorld.putNew_clash]; simp [hcl]
          · right; simpa using hA
      · cases hq
  newSaNone := by
    intro w c K now isInit peerSpi a p w' hT hq
    simp only [concreteHandlers] at hq
    split at hq
    · cases hq; exact hT
    · split at hq
      · cases hq
      · rename_i st _
        have hw : w' = { w with tape := st.tape } := by cases hq; rfl
        subst hw
        rcases hT with hcl | hT
        · exact Or.inl hcl
        · exact Or.inr (hT.with_tape _)
  remove := by
    intro w c K i s hi hT
    rcases hT with hcl | hT
    · exact Or.inl hcl
    · exact Or.inr (TW2.to_cons hi hT).remove_head
  forget := by
    intro w c K x hT hch
    rcases hT with hcl | hT
    · exact Or.inl hcl
    · exact Or.inr (hT.forget_last hch)

/-! ### whole histories, through IKE_SA rekeys -/

/-- between two rounds: the kernel SAD is exactly what the table tracks, every entry once; every entry and every pending successor is
    an object of its own — unless two objects of the model were ever given the same SPI -/
def Sync2 (wc : XWorld × Ctl) : Prop := wc.1.clash = true ∨ TW2 wc.2.sas wc.1 wc.1.sad

/-- header-only parse and full parse are of the same datagram -/
def EvCoherent (ev : LoopEv) : Prop := ∀ h p a b, ev.datagram = some (h, p, a, b) → Coherent h p

theorem wholeStep_sync2 (wc : XWorld × Ctl) (x : Nat × LoopEv) (h : Sync2 wc) (hall : AllListed wc.2.sas) (hev : EvCoherent x.2) :
    Sync2 (wholeStep wc x) := by
  have := loopIter_T2 concrete_contract2 wc.1 wc.2 wc.1.sad x.1 x.2 h (Or.inr rfl) hall hev
  unfold wholeStep Sync2
  rcases this with hcl | hT
  · exact Or.inl hcl
  · exact Or.inr (hT.with_sad _)

theorem wholeRun_sync2 (evs : List (Nat × LoopEv)) : ∀ (wc : XWorld × Ctl), Sync2 wc →
    (∀ k, k < evs.length → AllListed (wholeRun wc (evs.take k)).2.sas) → (∀ x ∈ evs, EvCoherent x.2) → Sync2 (wholeRun wc evs) := by
  induction evs with
  | nil => intro wc h _ _; exact h
  | cons x rest ih =>
    intro wc h hall hev
    have h1 := wholeStep_sync2 wc x h (hall 0 (by simp)) (hev x (List.mem_cons_self ..))
    show Sync2 (wholeRun (wholeStep wc x) rest)
    apply ih _ h1
    · intro k hk
      have := hall (k + 1) (by simpa using hk)
      simpa [wholeRun] using this
    · exact fun y hy => hev y (List.mem_cons_of_mem _ hy)

/-! ### composing rounds the way the implementation composes them

  In Python `new_ike_sa` is a reference.  Once the successor is in the table it is the table entry (and evolves as that entry); once it
  has ended it is of no further consequence.  The replay of every loop iteration therefore hands the model a successor only while it is
  *pending* (harness: `r_xent` / `r_sa` — "a successor that is already a table entry, or has ended: none").  A run of several rounds of
  the model has to do the same between rounds, or the copy in the table entry goes stale: `normSas` drops the successor reference of
  every entry that is past its hand-over. -/

theorem normSas_core (c : List Sa) : (normSas c).map (·.core) = c.map (·.core) := by
  unfold normSas
  rw [List.map_map]
  apply List.map_congr_left
  intro s _
  simp only [Function.comp]
  split <;> rfl

theorem pendSpi_norm (s : Sa) : pendSpi (if inPost s.core.st then { s with succ := none } else s) = pendSpi s := by
  by_cases h : inPost s.core.st
  · rw [if_pos h]; unfold pendSpi; rw [if_pos h, if_pos h]
  · rw [if_neg h]

theorem allSpis_norm (c : List Sa) : allSpis (normSas c) = allSpis c := by
  unfold allSpis normSas
  rw [List.flatMap_map]
  induction c with
  | nil => rfl
  | cons s rest ih =>
    rw [List.flatMap_cons, List.flatMap_cons, ih, pendSpi_norm]
    congr 2
    split <;> rfl

theorem tableKeys_norm (c : List Sa) : tableKeys (normSas c) = tableKeys c := by
  unfold tableKeys normSas
  rw [List.flatMap_map]
  induction c with
  | nil => rfl
  | cons s rest ih =>
    rw [List.flatMap_cons, List.flatMap_cons, ih]
    congr 1
    split <;> rfl

theorem TW2.norm {c : List Sa} {w : XWorld} {K : List Key} (h : TW2 c w K) : TW2 (normSas c) w K where
  spis := by rw [allSpis_norm]; exact h.spis
  objs := by
    intro s' hs'
    obtain ⟨s, hs, rfl⟩ := List.mem_map.mp hs'
    have := h.objs s hs
    split <;> exact this
  pend := by
    intro s' hs' hnp n hn
    obtain ⟨s, hs, rfl⟩ := List.mem_map.mp hs'
    by_cases hp : inPost s.core.st
    · rw [if_pos hp] at hnp; exact absurd hp hnp
    · rw [if_neg hp] at hnp hn ⊢; exact h.pend s hs hnp n hn
  stored := by
    intro s' hs' n hn
    obtain ⟨s, hs, rfl⟩ := List.mem_map.mp hs'
    by_cases hp : inPost s.core.st
    · rw [if_pos hp] at hn; cases hn
    · rw [if_neg hp] at hn ⊢; exact h.stored s hs n hn
  sad := by intro k; rw [tableKeys_norm]; exact h.sad k
  nodup := by rw [tableKeys_norm]; exact h.nodup

theorem allListed_norm (c : List Sa) : AllListed (normSas c) := by
  intro s' hs' hp n hn
  obtain ⟨s, hs, rfl⟩ := List.mem_map.mp hs'
  by_cases hq : inPost s.core.st
  · rw [if_pos hq] at hn; cases hn
  · rw [if_neg hq] at hp; exact absurd hp hq

/-- in sync, and no entry past its hand-over carries a successor reference (the state between two rounds) -/
def Sync3 (wc : XWorld × Ctl) : Prop := Sync2 wc ∧ AllListed wc.2.sas

theorem wholeStep2_sync (wc : XWorld × Ctl) (x : Nat × LoopEv) (h : Sync3 wc) (hev : EvCoherent x.2) : Sync3 (wholeStep2 wc x) := by
  have h1 := wholeStep_sync2 wc x h.1 h.2 hev
  refine ⟨?_, allListed_norm _⟩
  unfold wholeStep2 Sync2
  rcases h1 with hcl | hT
  · exact Or.inl hcl
  · exact Or.inr hT.norm

theorem wholeRun2_sync (evs : List (Nat × LoopEv)) : ∀ (wc : XWorld × Ctl), Sync3 wc → (∀ x ∈ evs, EvCoherent x.2) →
    Sync3 (wholeRun2 wc evs) := by
  induction evs with
  | nil => intro wc h _; exact h
  | cons x rest ih =>
    intro wc h hev
    exact ih _ (wholeStep2_sync wc x h (hev x (List.mem_cons_self ..))) (fun y hy => hev y (List.mem_cons_of_mem _ hy))

end PyIkev2.Impl
