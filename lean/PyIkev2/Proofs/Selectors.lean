/- Helper lemmas for C12. -/
import PyIkev2.Model.Selectors

namespace PyIkev2.Impl
open PyIkev2

theorem tsSubset_iff (a b : TS) :
    tsSubset a b = true ↔
      a.tsType = b.tsType ∧ (b.ipProto = 0 ∨ a.ipProto = b.ipProto) ∧
      b.startPort ≤ a.startPort ∧ a.endPort ≤ b.endPort ∧ b.lo ≤ a.lo ∧ a.hi ≤ b.hi := by
  unfold tsSubset
  constructor
  · intro h
    split at h; · cases h
    split at h; · cases h
    split at h; · cases h
    split at h; · cases h
    rename_i h1 h2 h3 h4
    refine ⟨by simpa using h1, ?_, by omega, by omega, by omega, by omega⟩
    by_cases hb : b.ipProto = 0
    · exact Or.inl hb
    · right; apply Classical.byContradiction; intro hne; exact h2 ⟨hb, hne⟩
  · rintro ⟨h1, h2, h3, h4, h5, h6⟩
    have e1 : ¬ a.tsType ≠ b.tsType := by simpa using h1
    have e2 : ¬ (b.ipProto ≠ 0 ∧ a.ipProto ≠ b.ipProto) := by
      rintro ⟨x, y⟩; rcases h2 with h | h <;> contradiction
    have e3 : ¬ (a.startPort < b.startPort ∨ a.endPort > b.endPort) := by omega
    have e4 : ¬ (a.lo < b.lo ∨ a.hi > b.hi) := by omega
    simp [e1, e2, e3, e4]

theorem tsSubset_refl (a : TS) : tsSubset a a = true := by
  rw [tsSubset_iff]; exact ⟨rfl, Or.inr rfl, Nat.le_refl _, Nat.le_refl _, Nat.le_refl _, Nat.le_refl _⟩

theorem firstSome_some {α β} (f : α → Option β) (l : List α) (b : β) (h : firstSome f l = some b) :
    ∃ a ∈ l, f a = some b := by
  induction l with
  | nil => cases h
  | cons x rest ih =>
    unfold firstSome at h
    cases hx : f x with
    | some y => rw [hx] at h; cases h; exact ⟨x, by simp, hx⟩
    | none => rw [hx] at h; obtain ⟨a, ha, hfa⟩ := ih h; exact ⟨a, by simp [ha], hfa⟩

theorem firstSome_none {α β} (f : α → Option β) (l : List α) (h : firstSome f l = none) :
    ∀ a ∈ l, f a = none := by
  induction l with
  | nil => intro a ha; cases ha
  | cons x rest ih =>
    unfold firstSome at h
    cases hx : f x with
    | some y => rw [hx] at h; cases h
    | none =>
      rw [hx] at h
      intro a ha
      rcases List.mem_cons.mp ha with rfl | ha
      · exact hx
      · exact ih h a ha

theorem matchPolicies_some (tsi tsr : TS) (ps : List Policy) (i0 i : Nat) (ctsr ctsi : TS)
    (h : matchPolicies tsi tsr ps i0 = some (i, ctsr, ctsi)) :
    ∃ c ∈ ps, ps[i - i0]? = some c ∧ i0 ≤ i ∧
      ((tsSubset tsi c.peerTs = true ∧ tsSubset tsr c.myTs = true ∧ ctsr = tsr ∧ ctsi = tsi) ∨
       (tsSubset c.peerTs tsi = true ∧ tsSubset c.myTs tsr = true ∧ ctsr = c.myTs ∧ ctsi = c.peerTs)) := by
  induction ps generalizing i0 with
  | nil => cases h
  | cons c rest ih =>
    unfold matchPolicies at h
    split at h
    · rename_i hc
      cases h
      exact ⟨c, by simp, by simp, Nat.le_refl _, Or.inl ⟨hc.1, hc.2, rfl, rfl⟩⟩
    · split at h
      · rename_i hc
        cases h
        exact ⟨c, by simp, by simp, Nat.le_refl _, Or.inr ⟨hc.1, hc.2, rfl, rfl⟩⟩
      · obtain ⟨c', hc', hidx, hle, hcase⟩ := ih (i0 + 1) h
        refine ⟨c', by simp [hc'], ?_, by omega, hcase⟩
        have : i - i0 = (i - (i0 + 1)) + 1 := by omega
        rw [this]; simpa using hidx

theorem matchPolicies_none (tsi tsr : TS) (ps : List Policy) (i0 : Nat) (h : matchPolicies tsi tsr ps i0 = none) :
    ∀ c ∈ ps, ¬ (tsSubset tsi c.peerTs = true ∧ tsSubset tsr c.myTs = true) ∧
              ¬ (tsSubset c.peerTs tsi = true ∧ tsSubset c.myTs tsr = true) := by
  induction ps generalizing i0 with
  | nil => intro c hc; cases hc
  | cons c rest ih =>
    unfold matchPolicies at h
    split at h; · cases h
    split at h; · cases h
    rename_i h1 h2
    intro x hx
    rcases List.mem_cons.mp hx with rfl | hx
    · exact ⟨h1, h2⟩
    · exact ih (i0 + 1) h x hx

/-- whatever the policy look-up returns is contained in some offered TSi/TSr pair and in the chosen policy entry -/
theorem getIpsecConf_narrows (tsis tsrs : List TS) (protect : List Policy) (i : Nat) (ctsr ctsi : TS)
    (h : getIpsecConf tsis tsrs protect = some (i, ctsr, ctsi)) :
    ∃ tsi ∈ tsis, ∃ tsr ∈ tsrs, ∃ c ∈ protect, protect[i]? = some c ∧
      tsSubset ctsi tsi = true ∧ tsSubset ctsr tsr = true ∧
      tsSubset ctsi c.peerTs = true ∧ tsSubset ctsr c.myTs = true := by
  unfold getIpsecConf at h
  obtain ⟨tsi, htsi, h1⟩ := firstSome_some _ _ _ h
  obtain ⟨tsr, htsr, h2⟩ := firstSome_some _ _ _ h1
  obtain ⟨c, hc, hidx, _, hcase⟩ := matchPolicies_some tsi tsr protect 0 i ctsr ctsi h2
  refine ⟨tsi, by simpa using htsi, tsr, by simpa using htsr, c, hc, by simpa using hidx, ?_⟩
  rcases hcase with ⟨a, b, rfl, rfl⟩ | ⟨a, b, rfl, rfl⟩
  · exact ⟨tsSubset_refl _, tsSubset_refl _, a, b⟩
  · exact ⟨a, b, tsSubset_refl _, tsSubset_refl _⟩

/-! ### network conversion -/

theorem div_block (h k q : Nat) (hk : k ≤ h) : (2 ^ h * q) / 2 ^ k = 2 ^ (h - k) * q := by
  have : 2 ^ h = 2 ^ k * 2 ^ (h - k) := by rw [← Nat.pow_add]; congr 1; omega
  rw [this, Nat.mul_assoc, Nat.mul_div_cancel_left _ (Nat.pow_pos (by decide))]

theorem hostBits_block (w h q : Nat) (k fuel : Nat) (hk : k ≤ h) (hf : h - k < fuel) :
    hostBits fuel (2 ^ h * q) (2 ^ h * q + 2 ^ h - 1) k = h := by
  induction fuel generalizing k with
  | zero => omega
  | succ f ih =>
    unfold hostBits
    have hpos : 0 < 2 ^ h := Nat.pow_pos (by decide)
    by_cases hkh : k = h
    · subst hkh
      have e1 : (2 ^ k * q + 2 ^ k - 1) / 2 ^ k = q := by
        have : 2 ^ k * q + 2 ^ k - 1 = (2 ^ k - 1) + 2 ^ k * q := by omega
        rw [this, Nat.add_mul_div_left _ _ hpos, Nat.div_eq_of_lt (by omega)]; omega
      have e2 : 2 ^ k * q / 2 ^ k = q := Nat.mul_div_cancel_left _ hpos
      simp [e1, e2]
    · have hlt : k < h := by omega
      have hposk : 0 < 2 ^ k := Nat.pow_pos (by decide)
      have hsplit : 2 ^ h = 2 ^ k * 2 ^ (h - k) := by rw [← Nat.pow_add]; congr 1; omega
      have hge : 2 ^ k ≤ 2 ^ h - 1 := by
        have : 2 ≤ 2 ^ (h - k) := by
          have : 2 ^ 1 ≤ 2 ^ (h - k) := Nat.pow_le_pow_right (by decide) (by omega)
          simpa using this
        have : 2 ^ k * 2 ≤ 2 ^ k * 2 ^ (h - k) := Nat.mul_le_mul_left _ this
        omega
      have e2 : 2 ^ h * q / 2 ^ k = 2 ^ (h - k) * q := div_block h k q (by omega)
      have e1 : (2 ^ h * q + 2 ^ h - 1) / 2 ^ k = 2 ^ (h - k) * q + (2 ^ h - 1) / 2 ^ k := by
        have : 2 ^ h * q + 2 ^ h - 1 = (2 ^ h - 1) + 2 ^ k * (2 ^ (h - k) * q) := by
          rw [← Nat.mul_assoc, ← hsplit]; omega
        rw [this, Nat.add_mul_div_left _ _ hposk]; omega
      have hd : 1 ≤ (2 ^ h - 1) / 2 ^ k := (Nat.le_div_iff_mul_le hposk).mpr (by omega)
      have hne : ¬ ((2 ^ h * q + 2 ^ h - 1) / 2 ^ k = 2 ^ h * q / 2 ^ k) := by rw [e1, e2]; omega
      simp only [hne, if_false]
      exact ih (k + 1) (by omega) (by omega)

end PyIkev2.Impl
