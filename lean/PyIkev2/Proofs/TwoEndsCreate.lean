/-
  Two ends, continued: the CHILD_SA creation and rekey exchanges.  What the responder's handler leaves behind and replies,
  what the initiator's handler makes of such a reply — as pre/post-conditions that mention the result *and* the exception
  (`Tri`), so that "the reply carries an SA payload exactly when the responder tracked a CHILD_SA" can be stated.
-/
import PyIkev2.Proofs.TwoEnds

namespace PyIkev2.Impl
open PyIkev2

variable {α β : Type}

/-- pre/post-conditions with the exception visible in the error post-condition -/
structure Tri (P : HSt → Prop) (m : HM α) (Q : α → HSt → Prop) (E : Exc → HSt → Prop) : Prop where
  ok : ∀ s x t, P s → m s = (.ok x, t) → Q x t
  err : ∀ s e t, P s → m s = (.error e, t) → E e t

theorem Tri.conseq {P P' : HSt → Prop} {m : HM α} {Q Q' : α → HSt → Prop} {E E' : Exc → HSt → Prop} (h : Tri P m Q E)
    (hP : ∀ s, P' s → P s) (hQ : ∀ x s, Q x s → Q' x s) (hE : ∀ e s, E e s → E' e s) : Tri P' m Q' E' where
  ok := fun s x t hs hm => hQ x t (h.ok s x t (hP s hs) hm)
  err := fun s e t hs hm => hE e t (h.err s e t (hP s hs) hm)

theorem Tri.bind {P : HSt → Prop} {m : HM α} {f : α → HM β} {Q : α → HSt → Prop} {R : β → HSt → Prop} {E : Exc → HSt → Prop}
    (hm : Tri P m Q E) (hf : ∀ x, Tri (Q x) (f x) R E) : Tri P (m >>= f) R E where
  ok := by
    intro s y t hs hb
    rw [HM.bind_def] at hb
    cases hr : m s with
    | mk r s' =>
      rw [hr] at hb
      cases r with
      | ok x => exact (hf x).ok s' y t (hm.ok s x s' hs hr) hb
      | error e => cases hb
  err := by
    intro s e t hs hb
    rw [HM.bind_def] at hb
    cases hr : m s with
    | mk r s' =>
      rw [hr] at hb
      cases r with
      | ok x => exact (hf x).err s' e t (hm.ok s x s' hs hr) hb
      | error e' => have h1 := hm.err s e' s' hs hr; cases hb; exact h1

theorem Tri.pure {P : HSt → Prop} {Q : α → HSt → Prop} {E : Exc → HSt → Prop} (x : α) (h : ∀ s, P s → Q x s) :
    Tri P (Pure.pure x : HM α) Q E where
  ok := fun s y t hs hm => by rw [HM.pure_def] at hm; cases hm; exact h s hs
  err := fun s e t _ hm => by rw [HM.pure_def] at hm; cases hm

theorem Tri.raise {P : HSt → Prop} {Q : α → HSt → Prop} {E : Exc → HSt → Prop} (e : Exc) (h : ∀ s, P s → E e s) :
    Tri P (HM.raise e : HM α) Q E where
  ok := fun s y t _ hm => by cases hm
  err := fun s e' t hs hm => by cases hm; exact h s hs

theorem Tri.modify {P : HSt → Prop} {Q : Unit → HSt → Prop} {E : Exc → HSt → Prop} (f : HSt → HSt) (h : ∀ s, P s → Q () (f s)) :
    Tri P (HM.modify f) Q E where
  ok := fun s y t hs hm => by cases hm; exact h s hs
  err := fun s e t _ hm => by cases hm

/-- a lifted pure look-up: the continuation learns what it returned -/
theorem Tri.liftE {P : HSt → Prop} {E : Exc → HSt → Prop} (x : Except Exc α) (hE : ∀ e s, x = .error e → P s → E e s) :
    Tri P (Impl.liftE x) (fun a s => P s ∧ x = .ok a) E where
  ok := fun s a t hs hm => by unfold Impl.liftE at hm; cases hm; exact ⟨hs, rfl⟩
  err := fun s e t hs hm => by unfold Impl.liftE at hm; cases hm; exact hE e s rfl hs

/-- reading the object -/
theorem Tri.getMe {P : HSt → Prop} {E : Exc → HSt → Prop} : Tri P Impl.getMe (fun x s => P s ∧ x = s.me) E where
  ok := fun s a t hs hm => by unfold Impl.getMe at hm; cases hm; exact ⟨hs, rfl⟩
  err := fun s e t _ hm => by unfold Impl.getMe at hm; cases hm

/-- a computation that keeps an invariant, with a fact about what it returns that holds whatever the state -/
theorem Tri.of_keeps {I : HSt → Prop} {m : HM α} (φ : α → Prop) (h : Keeps I m) (hφ : ∀ s x t, m s = (.ok x, t) → φ x) :
    Tri I m (fun x s => I s ∧ φ x) (fun _ => I) where
  ok := fun s x t hs hm => ⟨by have := h.keep s hs; rw [hm] at this; exact this, hφ s x t hm⟩
  err := fun s e t hs hm => by have := h.keep s hs; rw [hm] at this; exact this

theorem Tri.tryCatch {P : HSt → Prop} {m : HM α} {h : Exc → Option (HM α)} {Q : α → HSt → Prop} {E1 E : Exc → HSt → Prop}
    (hm : Tri P m Q E1) (hh : ∀ e k, h e = some k → Tri (E1 e) k Q E) (hn : ∀ e s, h e = none → E1 e s → E e s) :
    Tri P (HM.tryCatch m h) Q E where
  ok := by
    intro s x t hs hb
    unfold HM.tryCatch at hb
    cases hr : m s with
    | mk r s' =>
      rw [hr] at hb
      cases r with
      | ok y => cases hb; exact hm.ok s _ _ hs hr
      | error e =>
        simp only at hb
        cases hk : h e with
        | none => rw [hk] at hb; cases hb
        | some k => rw [hk] at hb; exact (hh e k hk).ok s' x t (hm.err s e s' hs hr) hb
  err := by
    intro s e' t hs hb
    unfold HM.tryCatch at hb
    cases hr : m s with
    | mk r s' =>
      rw [hr] at hb
      cases r with
      | ok y => cases hb
      | error e =>
        simp only at hb
        cases hk : h e with
        | none => have h1 := hn e s' hk (hm.err s e s' hs hr); rw [hk] at hb; cases hb; exact h1
        | some k => rw [hk] at hb; exact (hh e k hk).err s' e' t (hm.err s e s' hs hr) hb

/-! ### the object does not change -/

/-- `self` is the record `x` -/
def MeIs (x : XSa) (s : HSt) : Prop := s.me = x

macro "keeps_me" : tactic => `(tactic| repeat' (first
  | exact Keeps.pure _
  | exact Keeps.raise _
  | exact Keeps.read _
  | exact Keeps.liftE _
  | (apply Keeps.bind_liftE; intro _ _)
  | apply Keeps.bind
  | intro _
  | split
  | (simp only [markBad]; apply Keeps.modify; intro s h; exact h)
  | dsimp only))

section me
variable (x : XSa)

theorem popVal_me : Keeps (MeIs x) popVal := by
  constructor; intro s h; unfold popVal; split <;> exact h
theorem markBad_me : Keeps (MeIs x) markBad := by unfold markBad; exact Keeps.modify (fun s h => h)
theorem popBytes_me : Keeps (MeIs x) popBytes := by
  unfold popBytes; apply Keeps.bind (popVal_me x); intro v
  split
  · exact Keeps.pure _
  · exact Keeps.bind (markBad_me x) (fun _ => Keeps.pure _)
theorem popBytesOrFail_me : Keeps (MeIs x) popBytesOrFail := by
  unfold popBytesOrFail; apply Keeps.bind (popVal_me x); intro v
  split
  · exact Keeps.pure _
  · exact Keeps.raise _
  · exact Keeps.bind (markBad_me x) (fun _ => Keeps.pure _)
theorem popOk_me : Keeps (MeIs x) popOk := by
  unfold popOk; apply Keeps.bind (popVal_me x); intro v
  split
  · exact Keeps.pure _
  · exact Keeps.raise _
  · exact markBad_me x
theorem getMe_me : Keeps (MeIs x) getMe := ⟨fun _ h => h⟩

theorem childNonce_me (m : Msg) : Keeps (MeIs x) (childNonce m) := by
  unfold childNonce; split
  · exact Keeps.pure _
  · exact Keeps.bind (Keeps.liftE _) (fun _ => Keeps.bind (popBytes_me x) (fun _ => Keeps.pure _))

theorem childKe_me (m : Msg) (p : Proposal) : Keeps (MeIs x) (childKe m p) := by
  unfold childKe
  repeat' (first
    | exact Keeps.pure _ | exact Keeps.raise _ | exact Keeps.liftE _ | exact popBytesOrFail_me x | exact popOk_me x
    | apply Keeps.bind | intro _ | split | dsimp only)

theorem childRekeyPrelude_me (m : Msg) (sa : List Proposal) (a b : List TS) : Keeps (MeIs x) (childRekeyPrelude m sa a b) := by
  unfold childRekeyPrelude
  apply Keeps.bind (getMe_me x); intro me
  split
  · exact Keeps.pure _
  · split
    · exact Keeps.raise _
    · repeat' (first | exact Keeps.pure _ | exact Keeps.raise _ | apply Keeps.bind | intro _ | split)

end me

/-! ### what a computation can return, whatever the state -/

def Ret (φ : α → Prop) (m : HM α) : Prop := ∀ s x t, m s = (.ok x, t) → φ x

theorem Ret.pure {φ : α → Prop} (x : α) (h : φ x) : Ret φ (Pure.pure x : HM α) := by
  intro s y t hm; rw [HM.pure_def] at hm; cases hm; exact h
theorem Ret.raise {φ : α → Prop} (e : Exc) : Ret φ (HM.raise e : HM α) := by
  intro s y t hm; cases hm
theorem Ret.raise_bind {φ : β → Prop} (e : Exc) (f : α → HM β) : Ret φ (HM.raise e >>= f) := by
  intro s y t hm; rw [HM.bind_def] at hm; cases hm
theorem Ret.bind {φ : β → Prop} {m : HM α} {f : α → HM β} (hf : ∀ a, Ret φ (f a)) : Ret φ (m >>= f) := by
  intro s y t hb
  rw [HM.bind_def] at hb
  cases hr : m s with
  | mk r s' =>
    rw [hr] at hb
    cases r with
    | ok a => exact hf a s' y t hb
    | error e => cases hb

/-- neither an SA payload nor an error notification -/
def Quiet (p : Payload) : Prop := p.ptype ≠ ptSA ∧ ∀ a t b c, p.body = .notify a t b c → 16384 ≤ t

/-- … nor a selector payload, nor the transport-mode notification -/
def Plain (p : Payload) : Prop :=
  Quiet p ∧ p.ptype ≠ ptTSi ∧ p.ptype ≠ ptTSr ∧ ∀ a t b c, p.body = .notify a t b c → t ≠ nUSE_TRANSPORT_MODE

theorem quiet_nonce (n : Bytes) : Quiet (mkP ptNONCE (.nonce n)) :=
  ⟨by simp [mkP, ptNONCE, ptSA], by intro a t b c h; simp [mkP] at h⟩
theorem quiet_ke (g : Nat) (d : Bytes) : Quiet (mkP ptKE (.ke g d)) :=
  ⟨by simp [mkP, ptKE, ptSA], by intro a t b c h; simp [mkP] at h⟩
theorem quiet_status (proto t : Nat) (spi data : Bytes) (ht : 16384 ≤ t) : Quiet (mkNotify proto t spi data) :=
  ⟨by simp [mkNotify, ptNOTIFY, ptSA], by intro a t' b c h; simp only [mkNotify, Body.notify.injEq] at h; omega⟩

theorem plain_nonce (n : Bytes) : Plain (mkP ptNONCE (.nonce n)) :=
  ⟨quiet_nonce n, by simp [mkP, ptNONCE, ptTSi], by simp [mkP, ptNONCE, ptTSr], by intro a t b c h; simp [mkP] at h⟩
theorem plain_ke (g : Nat) (d : Bytes) : Plain (mkP ptKE (.ke g d)) :=
  ⟨quiet_ke g d, by simp [mkP, ptKE, ptTSi], by simp [mkP, ptKE, ptTSr], by intro a t b c h; simp [mkP] at h⟩
theorem plain_rekey (proto : Nat) (spi data : Bytes) : Plain (mkNotify proto nREKEY_SA spi data) :=
  ⟨quiet_status _ _ _ _ (by decide), by simp [mkNotify, ptNOTIFY, ptTSi], by simp [mkNotify, ptNOTIFY, ptTSr],
   by intro a t b c h; simp only [mkNotify, Body.notify.injEq] at h; rw [← h.2.1]; decide⟩
theorem all_plain_nil : ∀ q ∈ ([] : List Payload), Plain q := by intro q hq; cases hq
theorem all_plain_one {p : Payload} (h : Plain p) : ∀ q ∈ [p], Plain q := by
  intro q hq; simp only [List.mem_singleton] at hq; subst hq; exact h

theorem all_quiet_nil : ∀ q ∈ ([] : List Payload), Quiet q := by intro q hq; cases hq
theorem all_quiet_one {p : Payload} (h : Quiet p) : ∀ q ∈ [p], Quiet q := by
  intro q hq; simp only [List.mem_singleton] at hq; subst hq; exact h

theorem childNonce_ret (m : Msg) : Ret (fun l => ∀ q ∈ l, Plain q) (childNonce m) := by
  unfold childNonce; split
  · exact Ret.pure _ all_plain_nil
  · exact Ret.bind (fun _ => Ret.bind (fun n => Ret.pure _ (all_plain_one (plain_nonce n))))

theorem childKe_ret (m : Msg) (p : Proposal) : Ret (fun l => ∀ q ∈ l, Plain q) (childKe m p) := by
  unfold childKe
  split
  · apply Ret.bind; intro kg
    dsimp only
    split
    · exact Ret.raise _
    · split
      · exact Ret.bind (fun _ => Ret.bind (fun _ => Ret.bind (fun _ => Ret.pure _ (all_plain_one (plain_ke _ _)))))
      · exact Ret.bind (fun _ => Ret.bind (fun _ => Ret.pure _ (all_plain_one (plain_ke _ _))))
  · exact Ret.pure _ all_plain_nil

theorem childRekeyPrelude_ret (m : Msg) (sa : List Proposal) (a b : List TS) :
    Ret (fun l => ∀ q ∈ l, Plain q) (childRekeyPrelude m sa a b) := by
  unfold childRekeyPrelude
  apply Ret.bind; intro me
  split
  · exact Ret.pure _ all_plain_nil
  · split
    · exact Ret.raise _
    · dsimp only
      repeat' (first
        | split
        | exact Ret.raise _
        | exact Ret.raise_bind _ _
        | exact Ret.pure _ (all_plain_one (plain_rekey _ _ _)))

/-! ### derived rules that keep state-independent facts in the context -/

theorem Tri.bind_liftE {P : HSt → Prop} {x : Except Exc α} {f : α → HM β} {R : β → HSt → Prop} {E : Exc → HSt → Prop}
    (hf : ∀ a, x = .ok a → Tri P (f a) R E) (hE : ∀ e s, x = .error e → P s → E e s) : Tri P (Impl.liftE x >>= f) R E := by
  cases x with
  | ok a =>
    have := hf a rfl
    constructor
    · intro s y t hs hb; rw [HM.bind_def] at hb; exact this.ok s y t hs hb
    · intro s e t hs hb; rw [HM.bind_def] at hb; exact this.err s e t hs hb
  | error e =>
    constructor
    · intro s y t hs hb; rw [HM.bind_def] at hb; cases hb
    · intro s e' t hs hb; rw [HM.bind_def] at hb; cases hb; exact hE e s rfl hs

theorem Tri.bind_getMe {x : XSa} {f : XSa → HM β} {R : β → HSt → Prop} {E : Exc → HSt → Prop}
    (hf : Tri (MeIs x) (f x) R E) : Tri (MeIs x) (Impl.getMe >>= f) R E := by
  constructor
  · intro s y t hs hb; rw [HM.bind_def] at hb; simp only [Impl.getMe] at hb; rw [show s.me = x from hs] at hb; exact hf.ok s y t hs hb
  · intro s e t hs hb; rw [HM.bind_def] at hb; simp only [Impl.getMe] at hb; rw [show s.me = x from hs] at hb; exact hf.err s e t hs hb

theorem Tri.raise_bind {P : HSt → Prop} {f : α → HM β} {R : β → HSt → Prop} {E : Exc → HSt → Prop} (e : Exc)
    (h : ∀ s, P s → E e s) : Tri P (HM.raise e >>= f) R E := by
  constructor
  · intro s y t hs hb; rw [HM.bind_def] at hb; cases hb
  · intro s e' t hs hb; rw [HM.bind_def] at hb; cases hb; exact h s hs

/-- a step that leaves the object alone and whose result has the shape `φ` -/
theorem Tri.bind_quiet {x : XSa} {m : HM α} {f : α → HM β} {R : β → HSt → Prop} {E : Exc → HSt → Prop} (φ : α → Prop)
    (hk : Keeps (MeIs x) m) (hr : Ret φ m) (hf : ∀ a, φ a → Tri (MeIs x) (f a) R E) (hE : ∀ e s, MeIs x s → E e s) :
    Tri (MeIs x) (m >>= f) R E := by
  constructor
  · intro s y t hs hb
    rw [HM.bind_def] at hb
    cases hr' : m s with
    | mk r s' =>
      rw [hr'] at hb
      have h1 := hk.keep s hs; rw [hr'] at h1
      cases r with
      | ok a => exact (hf a (hr s a s' hr')).ok s' y t h1 hb
      | error e => cases hb
  · intro s e t hs hb
    rw [HM.bind_def] at hb
    cases hr' : m s with
    | mk r s' =>
      rw [hr'] at hb
      have h1 := hk.keep s hs; rw [hr'] at h1
      cases r with
      | ok a => exact (hf a (hr s a s' hr')).err s' e t h1 hb
      | error e' => cases hb; exact hE _ _ h1

/-! ### the responder's side of a CHILD_SA creation -/

/-- the reply to a CHILD_SA request that was granted: an SA payload with one proposal, carrying the responder's SPI; before it
    nothing that is an SA payload or an error; after it no notification -/
def GoodReply (payloads : List Payload) (spi : Bytes) (proto : Nat) : Prop :=
  ∃ pre p post, payloads = pre ++ mkP ptSA (.sa [p]) :: post ∧ p.spi = spi ∧ p.proto = proto ∧
    (∀ q ∈ pre, Quiet q) ∧ (∀ q ∈ post, q.ptype ≠ ptNOTIFY ∧ q.ptype ≠ ptSA)

theorem trackChild_tri (x : XSa) (k : Child) :
    Tri (MeIs x) (trackChild k) (fun _ s => s.me = x.setKids (x.ext.kids ++ [k])) (fun _ s => s.me = x) := by
  constructor
  · intro s y t hs hm
    unfold trackChild at hm
    simp only at hm
    split at hm
    · cases hm
    · split at hm
      · cases hm
      · split at hm
        · cases hm
        · cases hm; simp only; rw [show s.me = x from hs]
  · intro s e t hs hm
    unfold trackChild at hm
    simp only at hm
    split at hm
    · cases hm; exact hs
    · split at hm
      · cases hm; exact hs
      · split at hm
        · cases hm; exact hs
        · cases hm

theorem selectBest_link (mine : Proposal) (ps : List Proposal) (r : Proposal) (h : selectBest mine ps = some r) :
    ∃ p ∈ ps, r.spi = p.spi ∧ r.proto = p.proto := by
  induction ps with
  | nil => cases h
  | cons p rest ih =>
    unfold selectBest at h
    cases hi : intersection mine p with
    | some i =>
      rw [hi] at h
      simp only [Option.some.injEq] at h
      subst h
      refine ⟨p, by simp, ?_⟩
      unfold intersection at hi
      split at hi
      · split at hi
        · cases hi; exact ⟨rfl, by assumption⟩
        · cases hi
      · cases hi
    | none =>
      rw [hi] at h
      obtain ⟨q, hq, hw⟩ := ih h
      exact ⟨q, by simp [hq], hw⟩

/-- the reply to a granted request, in full: … transport-mode notification exactly when the CHILD_SA is in transport mode …, the
    proposal with the responder's SPI and the suite of its record, one selector each way: the record's, the other way round -/
def ReplyShape (payloads : List Payload) (cb : Child) : Prop :=
  ∃ pre modeN ke p t1 t2,
    payloads = pre ++ modeN ++ ke ++ [mkP ptSA (.sa [p]), mkP ptTSi (.ts [t1]), mkP ptTSr (.ts [t2])] ∧
    (∀ q ∈ pre, Plain q) ∧ (∀ q ∈ ke, Plain q) ∧
    modeN = (if cb.mode = 0 then [mkNotify 0 nUSE_TRANSPORT_MODE [] []] else []) ∧ (cb.mode = 0 ∨ cb.mode = 1) ∧
    p.spi = cb.inSpi ∧ p.proto = cb.proposal.proto ∧ p.transforms = cb.proposal.transforms ∧ cb.tsi = [t2] ∧ cb.tsr = [t1]

theorem quiet_transport : Quiet (mkNotify 0 nUSE_TRANSPORT_MODE [] []) := quiet_status _ _ _ _ (by decide)

theorem ReplyShape.good {payloads : List Payload} {cb : Child} (h : ReplyShape payloads cb) :
    GoodReply payloads cb.inSpi cb.proposal.proto := by
  obtain ⟨pre, modeN, ke, p, t1, t2, rfl, hpre, hke, hm, _, h1, h2, _⟩ := h
  refine ⟨pre ++ modeN ++ ke, p, [mkP ptTSi (.ts [t1]), mkP ptTSr (.ts [t2])], by simp, h1, h2, ?_, ?_⟩
  · intro q hq
    simp only [List.mem_append] at hq
    rcases hq with (hq | hq) | hq
    · exact (hpre q hq).1
    · rw [hm] at hq; split at hq
      · simp only [List.mem_singleton] at hq; subst hq; exact quiet_transport
      · cases hq
    · exact (hke q hq).1
  · intro q hq
    simp only [List.mem_cons, List.mem_nil_iff, or_false] at hq
    rcases hq with rfl | rfl <;> simp [mkP, ptTSi, ptTSr, ptNOTIFY, ptSA]

/-- what the responder's negotiation leaves behind when it returns: exactly one more CHILD_SA, whose outbound SPI and protocol are
    those of a proposal of the request and which the reply describes; when it raises: nothing -/
def Granted (request : Msg) (x : XSa) (payloads : List Payload) (s : HSt) : Prop :=
  ∃ cb, s.me = x.setKids (x.ext.kids ++ [cb]) ∧
    (∃ sa p, paySA request true = .ok sa ∧ p ∈ sa ∧ cb.outSpi = p.spi ∧ cb.proposal.proto = p.proto) ∧
    GoodReply payloads cb.inSpi cb.proposal.proto ∧ ReplyShape payloads cb

theorem childCreateResponder_tri (x : XSa) (chosen : Proposal) (ctsr ctsi : TS) (mode : Nat) (pol : Protect) :
    Tri (MeIs x) (childCreateResponder chosen ctsr ctsi mode pol)
      (fun child s => s.me = x.setKids (x.ext.kids ++ [child]) ∧ child.outSpi = chosen.spi ∧ child.proposal.proto = chosen.proto ∧
        child.proposal.transforms = chosen.transforms ∧ child.tsi = [ctsr] ∧ child.tsr = [ctsi] ∧ child.mode = mode)
      (fun _ s => s.me = x) := by
  unfold childCreateResponder
  refine Tri.bind_quiet (fun _ => True) (popBytes_me x) (fun _ _ _ _ => trivial) ?_ (fun _ _ h => h); intro spi _
  apply Tri.bind (trackChild_tri x _); intro _
  exact Tri.pure _ (fun s h => ⟨h, rfl, rfl, rfl, rfl, rfl, rfl⟩)

theorem reqTail_tri (request : Msg) (x : XSa) (sa : List Proposal) (hsa : paySA request true = .ok sa)
    (pre nonce modeN : List Payload) (hpre : ∀ q ∈ pre, Plain q) (hnonce : ∀ q ∈ nonce, Plain q)
    (mine : Proposal) (ctsr ctsi : TS) (mode : Nat) (pol : Protect)
    (hmode : modeN = (if mode = 0 then [mkNotify 0 nUSE_TRANSPORT_MODE [] []] else [])) (hm01 : mode = 0 ∨ mode = 1) :
    Tri (MeIs x)
      (match selectBest mine sa with
       | none => HM.raise excNoProposal
       | some chosen => do
         let ke ← childKe request chosen
         let child ← childCreateResponder chosen ctsr ctsi mode pol
         pure (pre ++ nonce ++ modeN ++ ke ++
               [mkP ptSA (.sa [{ chosen with spi := child.inSpi }]), mkP ptTSi (.ts [ctsi]), mkP ptTSr (.ts [ctsr])]))
      (Granted request x) (fun _ s => s.me = x) := by
  split
  · exact Tri.raise _ (fun _ h => h)
  · rename_i chosen hsel
    refine Tri.bind_quiet _ (childKe_me x _ _) (childKe_ret _ _) ?_ (fun _ _ h => h); intro ke hke
    apply Tri.bind (childCreateResponder_tri x _ _ _ _ _); intro child
    apply Tri.pure
    intro s ⟨h1, h2, h3, h4, h5, h6, h7⟩
    obtain ⟨p, hp, hspi, hproto⟩ := selectBest_link mine sa chosen hsel
    have hshape : ReplyShape (pre ++ nonce ++ modeN ++ ke ++
        [mkP ptSA (.sa [{ chosen with spi := child.inSpi }]), mkP ptTSi (.ts [ctsi]), mkP ptTSr (.ts [ctsr])]) child := by
      refine ⟨pre ++ nonce, modeN, ke, { chosen with spi := child.inSpi }, ctsi, ctsr, rfl, ?_, hke, by rw [h7]; exact hmode,
        by rw [h7]; exact hm01, rfl, h3.symm, h4.symm, h5, h6⟩
      intro q hq
      rcases List.mem_append.mp hq with hq | hq
      · exact hpre q hq
      · exact hnonce q hq
    exact ⟨child, h1, ⟨sa, p, hsa, hp, by rw [h2, hspi], by rw [h3, hproto]⟩, hshape.good, hshape⟩

theorem childNegotiationReqBody_tri (request : Msg) (x : XSa) :
    Tri (MeIs x) (childNegotiationReqBody request) (Granted request x) (fun _ s => s.me = x) := by
  unfold childNegotiationReqBody
  apply Tri.bind_liftE _ (fun _ _ _ h => h); intro sa hsa
  apply Tri.bind_liftE _ (fun _ _ _ h => h); intro tsi htsi
  apply Tri.bind_liftE _ (fun _ _ _ h => h); intro tsr htsr
  apply Tri.bind_getMe
  dsimp only
  split
  · exact Tri.raise_bind _ (fun _ h => h)
  · refine Tri.bind_quiet _ (childRekeyPrelude_me x _ _ _ _) (childRekeyPrelude_ret _ _ _ _) ?_ (fun _ _ h => h); intro pre hpre
    refine Tri.bind_quiet _ (childNonce_me x _) (childNonce_ret _) ?_ (fun _ _ h => h); intro nonce hnonce
    split
    · exact Tri.raise _ (fun _ h => h)
    · split
      · exact Tri.raise _ (fun _ h => h)
      · repeat' (first
          | exact Tri.raise_bind _ (fun _ h => h)
          | exact reqTail_tri request x sa hsa pre nonce _ hpre hnonce _ _ _ 1 _ rfl (Or.inr rfl)
          | exact reqTail_tri request x sa hsa pre nonce _ hpre hnonce _ _ _ 0 _ rfl (Or.inl rfl)
          | split)

/-- the reply to a CHILD_SA request that was refused: one notification and nothing else -/
def ErrReply (payloads : List Payload) : Prop := ∃ n a t b c, payloads = [n] ∧ n.body = .notify a t b c

theorem errReply_mkNotify (a t : Nat) (b c : Bytes) : ErrReply [mkNotify a t b c] := ⟨_, a, t, b, c, rfl, rfl⟩

theorem childNegotiationReq_tri (request : Msg) (x : XSa) :
    Tri (MeIs x) (childNegotiationReq request)
      (fun payloads s => Granted request x payloads s ∨ (s.me = x ∧ ErrReply payloads)) (fun _ s => s.me = x) := by
  unfold childNegotiationReq
  refine Tri.tryCatch (E1 := fun _ s => s.me = x)
    ((childNegotiationReqBody_tri request x).conseq (fun _ h => h) (fun _ _ h => Or.inl h) (fun _ _ h => h)) ?_ (fun _ _ _ h => h)
  intro e k hk
  cases e with
  | ike n =>
    dsimp only at hk
    split at hk
    · rename_i a t b c hb
      split at hk <;> cases hk
      · exact Tri.pure _ (fun s h => Or.inr ⟨h, n, a, t, b, c, rfl, hb⟩)
      · exact Tri.pure _ (fun s h => Or.inr ⟨h, errReply_mkNotify ..⟩)
    · cases hk; exact Tri.pure _ (fun s h => Or.inr ⟨h, errReply_mkNotify ..⟩)
  | netlink => cases hk; exact Tri.pure _ (fun s h => Or.inr ⟨h, errReply_mkNotify ..⟩)
  | other n => cases hk

theorem checkInStates_me (x : XSa) (l : List Nat) : Keeps (MeIs x) (checkInStates l) := by
  unfold checkInStates
  exact Keeps.bind (getMe_me x) (fun _ => by split; exact Keeps.pure _; exact Keeps.raise _)

/-- the responder's handler for a CHILD_SA (not IKE_SA) request: a reply built on the object as it is afterwards; either granted
    (one more CHILD_SA, its SPI in the reply) or refused (the object as before, one notification) -/
theorem processCreateChildSaRequest_tri (now : Nat) (request : Msg) (x : XSa) (p0 : Proposal) (rest : List Proposal)
    (hsa : paySA request true = .ok (p0 :: rest)) (hp0 : p0.proto ≠ 1) :
    Tri (MeIs x) (processCreateChildSaRequest now request)
      (fun res s => ∃ payloads, res = .reply (mkResponse s.me.core 36 payloads) ∧
        (Granted request x payloads s ∨ (s.me = x ∧ ErrReply payloads)))
      (fun _ s => s.me = x) := by
  unfold processCreateChildSaRequest
  refine Tri.bind_quiet (fun _ => True) (checkInStates_me x _) (fun _ _ _ _ => trivial) ?_ (fun _ _ h => h); intro _ _
  apply Tri.bind_liftE _ (fun _ _ _ h => h); intro sa hsa'
  rw [hsa] at hsa'; cases hsa'
  dsimp only
  rw [if_neg hp0]
  apply Tri.bind (childNegotiationReq_tri request x); intro payloads
  constructor
  · intro s y t hs hb
    rw [HM.bind_def] at hb; simp only [getMe, HM.pure_def] at hb; cases hb
    exact ⟨payloads, rfl, hs⟩
  · intro s e t hs hb
    rw [HM.bind_def] at hb; simp only [getMe, HM.pure_def] at hb; cases hb

/-! ### the initiator's side -/

theorem trackChild_tri2 (x : XSa) (k : Child) :
    Tri (MeIs x) (trackChild k) (fun _ s => s.me = x.setKids (x.ext.kids ++ [k])) (fun e _ => ¬ ∃ n, e = Exc.ike n) := by
  constructor
  · exact (trackChild_tri x k).ok
  · intro s e t hs hm
    unfold trackChild at hm
    simp only at hm
    split at hm
    · cases hm; rintro ⟨n, hn⟩; cases hn
    · split at hm
      · cases hm; rintro ⟨n, hn⟩; cases hn
      · split at hm
        · cases hm; rintro ⟨n, hn⟩; cases hn
        · cases hm

theorem popOk_ret : Ret (fun _ => True) popOk := fun _ _ _ _ => trivial

/-- "an IkeSaError leaves the object as it was" -/
def IkeKeeps (y : XSa) (e : Exc) (s : HSt) : Prop := (∃ n, e = Exc.ike n) → s.me = y

theorem ikeKeeps_of {y : XSa} {e : Exc} {s : HSt} (h : MeIs y s) : IkeKeeps y e s := fun _ => h

/-- the CHILD_SA record the initiator makes of its own record and the first proposal and selectors of the reply -/
def childOf (creating : Child) (chosen : Proposal) (tsi tsr : TS) : Child :=
  { creating with outSpi := chosen.spi, proposal := chosen, tsi := [tsi], tsr := [tsr] }

/-- the mode the reply asks for: transport exactly when it carries USE_TRANSPORT_MODE -/
def respMode (response : Msg) : Nat := if ¬ (getNotifies response nUSE_TRANSPORT_MODE true).isEmpty then 0 else 1

def CreatedX (y : XSa) (c0 : Child) (response : Msg) (z : XSa) : Prop :=
  ∃ p rest child, paySA response true = .ok (p :: rest) ∧ child.inSpi = c0.inSpi ∧ child.outSpi = p.spi ∧ child.proposal = p ∧
    (∃ t1 r1 t2 r2, payTS response ptTSi true = .ok (t1 :: r1) ∧ payTS response ptTSr true = .ok (t2 :: r2) ∧
      child.tsi = [t1] ∧ child.tsr = [t2] ∧ child.mode = respMode response) ∧
    z = ({ y with ext := { y.ext with creating := some child } } : XSa).setKids (y.ext.kids ++ [child])

def Created (y : XSa) (c0 : Child) (response : Msg) (s : HSt) : Prop := CreatedX y c0 response s.me

theorem resFinal_tri (response : Msg) (y : XSa) (c0 : Child) (chosen : Proposal) (rest : List Proposal)
    (hsa : paySA response true = .ok (chosen :: rest)) (tsi tsr : TS) (r1 r2 : List TS)
    (htsi : payTS response ptTSi true = .ok (tsi :: r1)) (htsr : payTS response ptTSr true = .ok (tsr :: r2))
    (hmode : ¬ c0.mode ≠ respMode response) :
    Tri (MeIs y)
      (do modExt fun e => { e with creating := some (childOf c0 chosen tsi tsr) }
          trackChild (childOf c0 chosen tsi tsr))
      (fun _ s => Created y c0 response s) (IkeKeeps y) := by
  apply Tri.bind (Q := fun _ => MeIs ({ y with ext := { y.ext with creating := some (childOf c0 chosen tsi tsr) } } : XSa))
  · unfold modExt
    apply Tri.modify
    intro s hs
    simp only [MeIs]; rw [show s.me = y from hs]
  · intro _
    refine (trackChild_tri2 _ _).conseq (fun _ h => h) ?_ (fun e s h hi => absurd hi h)
    intro _ s hs
    exact ⟨chosen, rest, childOf c0 chosen tsi tsr, hsa, rfl, rfl, rfl,
      ⟨tsi, r1, tsr, r2, htsi, htsr, rfl, rfl, Decidable.not_not.mp hmode⟩, hs⟩

/-- what the initiator's negotiation does with a reply: when it returns, the reply carried an SA payload and exactly one CHILD_SA was
    added — ours as to the inbound SPI, the first proposal's as to outbound SPI and suite; when it raises an IkeSaError nothing
    has changed yet -/
theorem childNegotiationResBody_tri (response : Msg) (y : XSa) (c0 : Child) (hc : y.ext.creating = some c0) :
    Tri (MeIs y) (childNegotiationResBody response) (fun _ s => Created y c0 response s) (IkeKeeps y) := by
  unfold childNegotiationResBody
  refine Tri.bind_liftE ?_ (fun _ _ _ h => ikeKeeps_of h); intro sa hsa
  refine Tri.bind_liftE ?_ (fun _ _ _ h => ikeKeeps_of h); intro tsi htsi
  refine Tri.bind_liftE ?_ (fun _ _ _ h => ikeKeeps_of h); intro tsr htsr
  apply Tri.bind_getMe
  rw [hc]
  repeat' (first
    | exact Tri.raise _ (fun _ h => ikeKeeps_of h)
    | exact Tri.raise_bind _ (fun _ h => ikeKeeps_of h)
    | (refine Tri.bind_liftE ?_ (fun _ _ _ h => ikeKeeps_of h); intro _ _)
    | (refine Tri.bind_quiet (fun _ => True) (popOk_me y) popOk_ret ?_ (fun _ _ h => ikeKeeps_of h); intro _ _)
    | exact resFinal_tri response y c0 _ _ hsa _ _ _ _ htsi htsr (by unfold respMode; split <;> first | assumption | contradiction)
    | extract_lets
    | split
    | simp -zeta +zetaDelta only [])

/-- the reply says no -/
def HasErr (response : Msg) : Bool :=
  [nNO_PROPOSAL_CHOSEN, nTS_UNACCEPTABLE, nCHILD_SA_NOT_FOUND, nTEMPORARY_FAILURE, nNO_ADDITIONAL_SAS].any
    (fun t => ¬ (getNotifies response t true).isEmpty)

theorem childNegotiationRes_tri (response : Msg) (y : XSa) (c0 : Child) (hc : y.ext.creating = some c0) :
    Tri (MeIs y) (childNegotiationRes response)
      (fun r s => (r = .rejected ∧ s.me = y ∧ HasErr response = true) ∨ (r = .invalid ∧ s.me = y ∧ HasErr response = false) ∨
                  (r = .created ∧ HasErr response = false ∧ Created y c0 response s))
      (fun _ _ => True) := by
  unfold childNegotiationRes
  split
  · rename_i h
    exact Tri.pure _ (fun s hs => Or.inl ⟨rfl, hs, h⟩)
  · rename_i h
    have h' : HasErr response = false := by simpa [HasErr] using h
    refine Tri.tryCatch (E1 := IkeKeeps y) ?_ ?_ (fun _ _ _ _ => trivial)
    · apply Tri.bind (childNegotiationResBody_tri response y c0 hc); intro _
      exact Tri.pure _ (fun s hs => Or.inr (Or.inr ⟨rfl, h', hs⟩))
    · intro e k hk
      cases e with
      | ike n => cases hk; exact Tri.pure _ (fun s hs => Or.inr (Or.inl ⟨rfl, hs ⟨n, rfl⟩, h'⟩))
      | netlink => cases hk
      | other n => cases hk

/-- the object after `generate_delete_child_sa_request(c)` -/
def afterGenDelete (z : XSa) (c : Child) : XSa :=
  { core := { z.core with request := some (mkRequest z.core 37 [mkP ptDELETE (.delete c.proposal.proto [c.inSpi])]), st := stDEL_CHILD_REQ_SENT },
    ext := { z.ext with deleting := some c } }

theorem generateDeleteChildSaRequest_tri (z : XSa) (c : Child) (hst : z.core.st = stESTABLISHED) :
    Tri (MeIs z) (generateDeleteChildSaRequest c)
      (fun r s => r = mkRequest z.core 37 [mkP ptDELETE (.delete c.proposal.proto [c.inSpi])] ∧ s.me = afterGenDelete z c)
      (fun _ _ => False) := by
  constructor
  · intro s r t hs hm
    have := generateDeleteChildSaRequest_eq c s (by rw [show s.me = z from hs]; exact hst)
    rw [this] at hm; cases hm
    rw [show s.me = z from hs]; exact ⟨rfl, rfl⟩
  · intro s e t hs hm
    have := generateDeleteChildSaRequest_eq c s (by rw [show s.me = z from hs]; exact hst)
    rw [this] at hm; cases hm

/-! ### the initiator's response handler as a whole -/

def setSt (y : XSa) (st : Nat) : XSa := { y with core := { y.core with st := st } }

/-- the request after an INVALID_KE_PAYLOAD: the stored one with the first KE payload replaced -/
def Retry (y0 : XSa) (r2 : Msg) : Prop :=
  ∃ req g pub, y0.core.request = some req ∧
    r2 = mkRequest y0.core req.hdr.exch (replaceFirstKe g pub (payloadsOf req (decide (req.hdr.exch > 34))))

def delReq (z : XSa) (c : Child) : Msg := mkRequest z.core 37 [mkP ptDELETE (.delete c.proposal.proto [c.inSpi])]

/-- everything the initiator's CHILD_SA response handler can come to, for an initiator that was waiting in state 11 or 12 with
    `creating = c0` -/
def AOut (y0 : XSa) (c0 : Child) (response : Msg) (res : HRes) (s : HSt) : Prop :=
  (res = .nothing ∧ s.me = setSt y0 stESTABLISHED ∧ HasErr response = true) ∨
  (res = .nothing ∧ HasErr response = false ∧ CreatedX (setSt y0 stESTABLISHED) c0 response s.me) ∨
  (∃ z old, HasErr response = false ∧ CreatedX (setSt y0 stESTABLISHED) c0 response z ∧ y0.core.st = stREK_CHILD_REQ_SENT ∧
      y0.ext.rekeying = some old ∧
      z.ext.kids.any (childEq old) = true ∧ res = .request (delReq z old) ∧ s.me = afterGenDelete z old) ∨
  (HasErr response = false ∧ res = .request (delReq (setSt y0 stESTABLISHED) c0) ∧ s.me = afterGenDelete (setSt y0 stESTABLISHED) c0) ∨
  (∃ r2, getNotifies response nINVALID_KE_PAYLOAD true ≠ [] ∧ res = .request r2 ∧
      s.me = { y0 with core := { y0.core with request := some r2 } } ∧ Retry y0 r2)

theorem handleInvalidKe_me (y : XSa) (data : Bytes) : Keeps (MeIs y) (handleInvalidKe data) := by
  unfold handleInvalidKe
  repeat' (first
    | exact Keeps.pure _ | exact Keeps.raise _ | exact Keeps.liftE _ | exact popBytesOrFail_me y | exact getMe_me y
    | (unfold getPayload; exact Keeps.liftE _)
    | apply Keeps.bind | intro _ | split | dsimp only)

theorem handleInvalidKe_tri (y : XSa) (data : Bytes) :
    Tri (MeIs y) (handleInvalidKe data) (fun r s => s.me = y ∧ Retry y r) (fun _ s => s.me = y) := by
  unfold handleInvalidKe
  apply Tri.bind_getMe
  split
  · exact Tri.raise _ (fun _ h => h)
  · rename_i req hreq
    repeat' (first
      | exact Tri.raise _ (fun _ h => h)
      | exact Tri.raise_bind _ (fun _ h => h)
      | (refine Tri.bind_liftE ?_ (fun _ _ _ h => h); intro _ _)
      | (unfold getPayload; refine Tri.bind_liftE ?_ (fun _ _ _ h => h); intro _ _)
      | (refine Tri.bind_quiet (fun _ => True) (popBytesOrFail_me y) (fun _ _ _ _ => trivial) ?_ (fun _ _ h => h); intro _ _)
      | exact Tri.pure _ (fun s h => ⟨h, req, _, _, hreq, rfl⟩)
      | extract_lets
      | split
      | simp -zeta +zetaDelta only [])

theorem createdX_frame {y : XSa} {c0 : Child} {response : Msg} {z : XSa} (h : CreatedX y c0 response z) :
    z.core.st = y.core.st ∧ z.ext.rekeying = y.ext.rekeying := by
  obtain ⟨p, rest, child, _, _, _, _, _, hz⟩ := h
  subst hz; exact ⟨rfl, rfl⟩

theorem childSaResponse_tri (response : Msg) (y0 : XSa) (c0 : Child) (hc : y0.ext.creating = some c0) :
    Tri (MeIs y0) (childSaResponse y0.core.st response) (AOut y0 c0 response) (fun _ _ => True) := by
  unfold childSaResponse
  split
  · -- INVALID_KE_PAYLOAD: the request is sent again with another group
    rename_i hke
    apply Tri.bind ((handleInvalidKe_tri y0 _).conseq (fun _ h => h) (fun _ _ h => h) (fun _ _ _ => trivial)); intro r2
    apply Tri.bind (Q := fun _ s => s.me = { y0 with core := { y0.core with request := some r2 } } ∧ Retry y0 r2)
    · unfold modCore; apply Tri.modify; intro s ⟨h1, h2⟩; exact ⟨by rw [h1], h2⟩
    · intro _; exact Tri.pure _ (fun s h => Or.inr (Or.inr (Or.inr (Or.inr ⟨r2, by rw [hke]; simp, rfl, h.1, h.2⟩))))
  · apply Tri.bind (Q := fun _ => MeIs (setSt y0 stESTABLISHED))
    · unfold setState modCore; apply Tri.modify; intro s h; simp only [MeIs, setSt]; rw [show s.me = y0 from h]
    · intro _
      apply Tri.bind (childNegotiationRes_tri response (setSt y0 stESTABLISHED) c0 hc); intro r
      cases r with
      | rejected =>
        dsimp only
        refine Tri.pure _ ?_
        rintro s (⟨_, h2, h3⟩ | ⟨h1, _⟩ | ⟨h1, _⟩)
        · exact Or.inl ⟨rfl, h2, h3⟩
        · cases h1
        · cases h1
      | invalid =>
        dsimp only
        constructor
        · intro s res t hs hm
          rcases hs with ⟨h1, _⟩ | ⟨_, h2, h3⟩ | ⟨h1, _⟩
          · cases h1
          · rw [HM.bind_def] at hm
            simp only [getMe] at hm
            rw [h2] at hm
            simp only [setSt, hc] at hm
            have hg := generateDeleteChildSaRequest_eq c0 s (by rw [h2]; rfl)
            rw [HM.bind_def, hg] at hm
            simp only [HM.pure_def] at hm
            cases hm
            refine Or.inr (Or.inr (Or.inr (Or.inl ⟨h3, ?_, ?_⟩)))
            · simp only [delReq, h2]
            · simp only [afterGenDelete, h2]
          · cases h1
        · intro _ _ _ _ _; trivial
      | created =>
        dsimp only
        constructor
        · intro s res t hs hm
          rcases hs with ⟨h1, _⟩ | ⟨h1, _⟩ | ⟨_, h2, h3⟩
          · cases h1
          · cases h1
          · obtain ⟨hst, hrk⟩ := createdX_frame h3
            split at hm
            · rw [HM.bind_def] at hm
              simp only [getMe] at hm
              cases hold : s.me.ext.rekeying with
              | some old =>
                simp only [hold] at hm
                split at hm
                · rename_i hany
                  have hg := generateDeleteChildSaRequest_eq old s (by rw [hst]; rfl)
                  rw [HM.bind_def, hg] at hm
                  simp only [HM.pure_def] at hm
                  cases hm
                  exact Or.inr (Or.inr (Or.inl ⟨s.me, old, h2, h3, ‹y0.core.st = stREK_CHILD_REQ_SENT›, (hrk.symm.trans hold : (setSt y0 stESTABLISHED).ext.rekeying = some old), hany, rfl, rfl⟩))
                · rw [HM.pure_def] at hm; cases hm
                  exact Or.inr (Or.inl ⟨rfl, h2, h3⟩)
              | none =>
                simp only [hold] at hm
                rw [HM.pure_def] at hm; cases hm
                exact Or.inr (Or.inl ⟨rfl, h2, h3⟩)
            · rw [HM.pure_def] at hm; cases hm
              exact Or.inr (Or.inl ⟨rfl, h2, h3⟩)
        · intro _ _ _ _ _; trivial

theorem abortOnErrorNotifies_me (y : XSa) (m : Msg) (e : Bool) (l : List Nat) : Keeps (MeIs y) (abortOnErrorNotifies m e l) := by
  unfold abortOnErrorNotifies; split
  · exact Keeps.raise _
  · exact Keeps.pure _

theorem processCreateChildSaResponse_tri (now : Nat) (response : Msg) (y0 : XSa) (c0 : Child) (hc : y0.ext.creating = some c0)
    (hst : y0.core.st ≠ stREK_IKE_SA_REQ_SENT) :
    Tri (MeIs y0) (processCreateChildSaResponse now response) (AOut y0 c0 response) (fun _ _ => True) := by
  unfold processCreateChildSaResponse
  refine Tri.bind_quiet (fun _ => True) (checkInStates_me y0 _) (fun _ _ _ _ => trivial) ?_ (fun _ _ _ => trivial); intro _ _
  refine Tri.bind_quiet (fun _ => True) (abortOnErrorNotifies_me y0 _ _ _) (fun _ _ _ _ => trivial) ?_ (fun _ _ _ => trivial); intro _ _
  apply Tri.bind_getMe
  rw [if_neg hst]
  exact childSaResponse_tri response y0 c0 hc

/-! ### what the initiator reads in the responder's reply -/

theorem find_sa_append (pre post : List Payload) (p : Payload) (hp : p.ptype = ptSA) (hpre : ∀ q ∈ pre, Quiet q) :
    (pre ++ p :: post).find? (fun q => q.ptype = ptSA) = some p := by
  induction pre with
  | nil => simp [hp]
  | cons q rest ih =>
    have hq : ¬ q.ptype = ptSA := (hpre q (by simp)).1
    simp only [List.cons_append, List.find?_cons, hq, decide_false]
    exact ih (fun x hx => hpre x (by simp [hx]))

theorem goodReply_paySA (core : SaCore) (payloads : List Payload) (spi : Bytes) (proto : Nat) (h : GoodReply payloads spi proto) :
    ∃ p, paySA (mkResponse core 36 payloads) true = .ok [p] ∧ p.spi = spi ∧ p.proto = proto := by
  obtain ⟨pre, p, post, rfl, h1, h2, hpre, _⟩ := h
  refine ⟨p, ?_, h1, h2⟩
  simp only [paySA, findPayload, payloadsOf, mkResponse, if_true]
  rw [show (if (36 : Nat) = 34 then ([] : List Payload) else pre ++ mkP ptSA (Body.sa [p]) :: post) = pre ++ mkP ptSA (Body.sa [p]) :: post from rfl]
  rw [find_sa_append pre post _ rfl hpre]
  rfl

theorem goodReply_notifies (core : SaCore) (payloads : List Payload) (spi : Bytes) (proto : Nat) (h : GoodReply payloads spi proto)
    (t : Nat) (ht : t < 16384) : getNotifies (mkResponse core 36 payloads) t true = [] := by
  obtain ⟨pre, p, post, rfl, _, _, hpre, hpost⟩ := h
  simp only [getNotifies, payloadsOf, mkResponse, if_true]
  rw [show (if (36 : Nat) = 34 then ([] : List Payload) else pre ++ mkP ptSA (Body.sa [p]) :: post) = pre ++ mkP ptSA (Body.sa [p]) :: post from rfl]
  rw [List.filterMap_eq_nil_iff]
  intro q hq
  simp only [List.mem_append, List.mem_cons] at hq
  rcases hq with hq | rfl | hq
  · split
    · split
      · rename_i a t' b c hb
        have := (hpre q hq).2 a t' b c hb
        split
        · omega
        · rfl
      · rfl
    · rfl
  · simp [mkP, ptSA, ptNOTIFY]
  · have := (hpost q hq).1
    simp [this]

theorem goodReply_hasErr (core : SaCore) (payloads : List Payload) (spi : Bytes) (proto : Nat) (h : GoodReply payloads spi proto) :
    HasErr (mkResponse core 36 payloads) = false := by
  unfold HasErr
  simp only [List.any_cons, List.any_nil, Bool.or_false,
    goodReply_notifies core payloads spi proto h nNO_PROPOSAL_CHOSEN (by decide),
    goodReply_notifies core payloads spi proto h nTS_UNACCEPTABLE (by decide),
    goodReply_notifies core payloads spi proto h nCHILD_SA_NOT_FOUND (by decide),
    goodReply_notifies core payloads spi proto h nTEMPORARY_FAILURE (by decide),
    goodReply_notifies core payloads spi proto h nNO_ADDITIONAL_SAS (by decide)]
  decide

/-- the selection function of `get_notifies` -/
def notifyPick (nt : Nat) (p : Payload) : Option (Nat × Bytes × Bytes) :=
  if p.ptype = ptNOTIFY then
    match p.body with
    | .notify proto t spi data => if t = nt then some (proto, spi, data) else none
    | _ => none
  else none

theorem getNotifies_eq (m : Msg) (nt : Nat) (e : Bool) : getNotifies m nt e = (payloadsOf m e).filterMap (notifyPick nt) := rfl

theorem find_first (T : Nat) (l1 l2 : List Payload) (x : Payload) (hx : x.ptype = T) (h1 : ∀ q ∈ l1, q.ptype ≠ T) :
    (l1 ++ x :: l2).find? (fun q => q.ptype = T) = some x := by
  induction l1 with
  | nil => simp [hx]
  | cons q rest ih =>
    have hq : ¬ q.ptype = T := h1 q (by simp)
    simp only [List.cons_append, List.find?_cons, hq, decide_false]
    exact ih (fun y hy => h1 y (by simp [hy]))

theorem replyShape_enc (core : SaCore) (payloads : List Payload) : (mkResponse core 36 payloads).enc = payloads := rfl

/-- what the initiator reads in a reply of that shape: the suite, the selectors (ours first), the mode -/
theorem replyShape_read (core : SaCore) (payloads : List Payload) (cb : Child) (h : ReplyShape payloads cb) :
    (∃ p, paySA (mkResponse core 36 payloads) true = .ok [p] ∧ p.transforms = cb.proposal.transforms) ∧
    payTS (mkResponse core 36 payloads) ptTSi true = .ok cb.tsr ∧
    payTS (mkResponse core 36 payloads) ptTSr true = .ok cb.tsi ∧
    respMode (mkResponse core 36 payloads) = cb.mode := by
  obtain ⟨pre, modeN, ke, p, t1, t2, rfl, hpre, hke, hm, hm01, _, _, h3, h4, h5⟩ := h
  have hmodeN : ∀ q ∈ modeN, q = mkNotify 0 nUSE_TRANSPORT_MODE [] [] := by
    intro q hq; rw [hm] at hq; split at hq
    · simpa using hq
    · cases hq
  have hfront : ∀ T, T = ptSA ∨ T = ptTSi ∨ T = ptTSr → ∀ q ∈ pre ++ modeN ++ ke, q.ptype ≠ T := by
    intro T hT q hq
    simp only [List.mem_append] at hq
    rcases hq with (hq | hq) | hq
    · rcases hT with rfl | rfl | rfl
      · exact (hpre q hq).1.1
      · exact (hpre q hq).2.1
      · exact (hpre q hq).2.2.1
    · rw [hmodeN q hq]; rcases hT with rfl | rfl | rfl <;> simp [mkNotify, ptNOTIFY, ptSA, ptTSi, ptTSr]
    · rcases hT with rfl | rfl | rfl
      · exact (hke q hq).1.1
      · exact (hke q hq).2.1
      · exact (hke q hq).2.2.1
  refine ⟨⟨p, ?_, h3⟩, ?_, ?_, ?_⟩
  · simp only [paySA, findPayload, payloadsOf, if_true, replyShape_enc]
    rw [find_first ptSA (pre ++ modeN ++ ke) _ _ rfl (hfront _ (Or.inl rfl))]
    rfl
  · simp only [payTS, findPayload, payloadsOf, if_true, replyShape_enc]
    rw [show pre ++ modeN ++ ke ++ [mkP ptSA (.sa [p]), mkP ptTSi (.ts [t1]), mkP ptTSr (.ts [t2])]
          = (pre ++ modeN ++ ke ++ [mkP ptSA (.sa [p])]) ++ mkP ptTSi (.ts [t1]) :: [mkP ptTSr (.ts [t2])] by simp]
    rw [find_first ptTSi _ _ _ rfl]
    · rw [h5]; rfl
    · intro q hq
      rcases List.mem_append.mp hq with hq | hq
      · exact hfront _ (Or.inr (Or.inl rfl)) q hq
      · simp only [List.mem_singleton] at hq; subst hq; simp [mkP, ptSA, ptTSi]
  · simp only [payTS, findPayload, payloadsOf, if_true, replyShape_enc]
    rw [show pre ++ modeN ++ ke ++ [mkP ptSA (.sa [p]), mkP ptTSi (.ts [t1]), mkP ptTSr (.ts [t2])]
          = (pre ++ modeN ++ ke ++ [mkP ptSA (.sa [p]), mkP ptTSi (.ts [t1])]) ++ mkP ptTSr (.ts [t2]) :: [] by simp]
    rw [find_first ptTSr _ _ _ rfl]
    · rw [h4]; rfl
    · intro q hq
      rcases List.mem_append.mp hq with hq | hq
      · exact hfront _ (Or.inr (Or.inr rfl)) q hq
      · simp only [List.mem_cons, List.mem_nil_iff, or_false] at hq
        rcases hq with rfl | rfl <;> simp [mkP, ptSA, ptTSi, ptTSr]
  · -- the transport-mode notification is there exactly when the record is in transport mode
    have hnot : ∀ q ∈ pre ++ ke ++ [mkP ptSA (.sa [p]), mkP ptTSi (.ts [t1]), mkP ptTSr (.ts [t2])],
        notifyPick nUSE_TRANSPORT_MODE q = none := by
      intro q hq
      simp only [List.mem_append, List.mem_cons, List.mem_nil_iff, or_false] at hq
      have hplain : Plain q → notifyPick nUSE_TRANSPORT_MODE q = none := fun hp => by
        unfold notifyPick
        by_cases hpt : q.ptype = ptNOTIFY
        · rw [if_pos hpt]
          cases hb : q.body with
          | notify a t b c => simp only; rw [if_neg ((hp.2.2.2) a t b c hb)]
          | _ => rfl
        · rw [if_neg hpt]
      rcases hq with (hq | hq) | rfl | rfl | rfl
      · exact hplain (hpre q hq)
      · exact hplain (hke q hq)
      · simp [notifyPick, mkP, ptSA, ptNOTIFY]
      · simp [notifyPick, mkP, ptTSi, ptNOTIFY]
      · simp [notifyPick, mkP, ptTSr, ptNOTIFY]
    have hperm : getNotifies (mkResponse core 36 (pre ++ modeN ++ ke ++ [mkP ptSA (.sa [p]), mkP ptTSi (.ts [t1]), mkP ptTSr (.ts [t2])]))
        nUSE_TRANSPORT_MODE true = if cb.mode = 0 then [(0, [], [])] else [] := by
      rw [getNotifies_eq]
      simp only [payloadsOf, if_true, replyShape_enc, List.filterMap_append]
      have e1 : pre.filterMap (notifyPick nUSE_TRANSPORT_MODE) = [] :=
        List.filterMap_eq_nil_iff.mpr (fun q hq => hnot q (by simp only [List.mem_append]; exact Or.inl (Or.inl hq)))
      have e2 : ke.filterMap (notifyPick nUSE_TRANSPORT_MODE) = [] :=
        List.filterMap_eq_nil_iff.mpr (fun q hq => hnot q (by simp only [List.mem_append]; exact Or.inl (Or.inr hq)))
      have e3 : [mkP ptSA (.sa [p]), mkP ptTSi (.ts [t1]), mkP ptTSr (.ts [t2])].filterMap (notifyPick nUSE_TRANSPORT_MODE) = [] :=
        List.filterMap_eq_nil_iff.mpr (fun q hq => hnot q (by simp only [List.mem_append]; exact Or.inr hq))
      rw [e1, e2, e3, hm]
      split <;> simp [notifyPick, mkNotify, ptNOTIFY]
    unfold respMode
    rw [hperm]
    rcases hm01 with h | h <;> simp [h]

theorem errReply_paySA (core : SaCore) (payloads : List Payload) (h : ErrReply payloads) (l : List Proposal) :
    paySA (mkResponse core 36 payloads) true ≠ .ok l := by
  obtain ⟨n, a, t, b, c, rfl, hb⟩ := h
  simp only [paySA, findPayload, payloadsOf, mkResponse, if_true]
  rw [show (if (36 : Nat) = 34 then ([] : List Payload) else [n]) = [n] from rfl]
  simp only [List.find?_cons, List.find?_nil]
  by_cases hpt : n.ptype = ptSA
  · simp only [hpt, decide_true, hb]
    intro h2; cases h2
  · simp only [hpt, decide_false]
    intro h2; cases h2

theorem find_sa_replaceFirstKe (g : Nat) (pub : Bytes) (l : List Payload) :
    (replaceFirstKe g pub l).find? (fun q => q.ptype = ptSA) = l.find? (fun q => q.ptype = ptSA) := by
  induction l with
  | nil => rfl
  | cons q rest ih =>
    unfold replaceFirstKe
    split
    · rename_i hke
      have h1 : ¬ q.ptype = ptSA := by rw [hke]; decide
      simp only [List.find?_cons, h1, hke, decide_false]
      have : ¬ ptKE = ptSA := by decide
      simp [this]
    · simp only [List.find?_cons, ih]

theorem paySA_retry (core : SaCore) (req : Msg) (g : Nat) (pub : Bytes) (hx : req.hdr.exch = 36) :
    paySA (mkRequest core req.hdr.exch (replaceFirstKe g pub (payloadsOf req (decide (req.hdr.exch > 34))))) true = paySA req true := by
  simp only [paySA, findPayload, payloadsOf, mkRequest, hx, if_true]
  rw [show (if (36 : Nat) = 34 then ([] : List Payload) else replaceFirstKe g pub (if decide (36 > 34) = true then req.enc else req.payloads))
        = replaceFirstKe g pub req.enc from rfl]
  rw [find_sa_replaceFirstKe]

/-! ### conversations -/

/-- the initiator `a` has a request in flight; the responder `b` answers, `a` processes the answer and either is done or sends the next
    request (a retry after INVALID_KE_PAYLOAD, the delete that follows a rekey, the delete of a CHILD_SA it cannot accept) -/
def converse (now : Nat) : Nat → Msg → HSt → HSt → Option (HSt × HSt)
  | 0, _, _, _ => none
  | fuel + 1, r, a, b =>
    match requestHandler now r with
    | none => none
    | some h =>
      match h b with
      | (.ok (.reply resp), b1) =>
        match responseHandler now resp with
        | none => none
        | some k =>
          match k a with
          | (.ok .nothing, a2) => some (a2, b1)
          | (.ok (.request r2), a2) => converse now fuel r2 a2 b1
          | _ => none
      | _ => none

/-- what the two ends agree on, as far as the initiator's side can tell -/
structure Half (ka kb : List Child) : Prop where
  mirror : Mirror ka kb
  nda : (ka.map Child.inSpi).Nodup
  protoa : ∀ c ∈ ka, c.proposal.proto = 2 ∨ c.proposal.proto = 3
  protob : ∀ c ∈ kb, c.proposal.proto = 2 ∨ c.proposal.proto = 3
  paired : Paired ka kb

theorem outSpi_mem_of_mirror {ka kb : List Child} (h : Mirror ka kb) (x : Bytes) :
    x ∈ kb.map Child.outSpi ↔ x ∈ ka.map Child.inSpi := by
  unfold Mirror at h
  have h1 : ka.map Child.inSpi = (ka.map Child.view).map (·.1) := by simp [List.map_map, Function.comp_def, Child.view]
  have h2 : kb.map Child.outSpi = (kb.map Child.peerView).map (·.1) := by simp [List.map_map, Function.comp_def, Child.peerView]
  rw [h1, h2]
  exact ((h.map (·.1)).mem_iff).symm

theorem getKidOut_none_of_fresh {ka kb : List Child} (h : Mirror ka kb) (x : Bytes) (hx : x ∉ ka.map Child.inSpi) :
    getKidOut kb x = none := by
  unfold getKidOut
  rw [List.find?_eq_none]
  intro e he hp
  have : x = e.outSpi := by simpa using hp
  exact hx ((outSpi_mem_of_mirror h x).mp (this ▸ List.mem_map_of_mem he))

theorem getKidOut_append_last (kb : List Child) (cb : Child) (x : Bytes) (hn : getKidOut kb x = none) (hx : cb.outSpi = x) :
    getKidOut (kb ++ [cb]) x = some cb := by
  unfold getKidOut at *
  rw [List.find?_append, hn]
  simp [hx]

theorem removeKid_append_last (kb : List Child) (cb : Child) (h : ∀ e ∈ kb, e.outSpi ≠ cb.outSpi) :
    removeKid (kb ++ [cb]) cb = kb := by
  unfold removeKid
  rw [List.eraseP_append_right]
  · simp [List.eraseP_cons_of_pos, childEq_refl]
  · intro e he hce
    have := childEq_view hce
    simp only [Child.view, Prod.mk.injEq] at this
    exact h e he this.2.1.symm

theorem any_childEq_false_of_fresh (ks : List Child) (d : Child) (h : d.inSpi ∉ ks.map Child.inSpi) :
    ks.any (childEq d) = false := by
  rw [List.any_eq_false]
  intro e he hce
  have := childEq_view (by simpa using hce)
  simp only [Child.view, Prod.mk.injEq] at this
  exact h (this.1 ▸ List.mem_map_of_mem he)

/-- a DELETE for a value that is nobody's outbound SPI: an empty reply, nothing changes -/
theorem processInformationalRequest_delete_none (core : SaCore) (proto : Nat) (spi : Bytes) (s : HSt)
    (hst : liveStatesAndRekeyed.contains s.me.core.st = true) (hproto : proto = 2 ∨ proto = 3)
    (hk : getKidOut s.me.ext.kids spi = none) :
    processInformationalRequest (mkRequest core 37 [mkP ptDELETE (.delete proto [spi])]) s =
      (.ok (.reply (mkResponse s.me.core 37 [])), s) := by
  have hne1 : proto ≠ 1 := by rcases hproto with h | h <;> omega
  have hst' : s.me.core.st ∈ liveStatesAndRekeyed := by simpa using hst
  simp [processInformationalRequest, checkInStates, HM.bind_def, getMe, hst', HM.pure_def, mkRequest, mkP, deleteLoop, deleteSpis,
    hne1, hproto, hk]

theorem requestHandler_37 (now : Nat) (core : SaCore) (l : List Payload) :
    requestHandler now (mkRequest core 37 l) = some (processInformationalRequest (mkRequest core 37 l)) := by
  simp [requestHandler, mkRequest]

theorem responseHandler_37 (now : Nat) (core : SaCore) (l : List Payload) :
    responseHandler now (mkResponse core 37 l) = some (processInformationalResponse (mkResponse core 37 l)) := by
  simp [responseHandler, mkResponse]

/-- both ends are between exchanges and agree (but for the responder's own SPIs being pairwise different, which is its kernel's
    business) -/
structure Done (a b : HSt) : Prop where
  sta : a.me.core.st = stESTABLISHED
  stb : b.me.core.st = stESTABLISHED
  half : Half a.me.ext.kids b.me.ext.kids

theorem Half.remove {ka kb : List Child} (h : Half ka kb) (ca cb : Child) (ha : ca ∈ ka) (hb : cb ∈ kb) (hv : ca.view = cb.peerView) :
    Half (removeKid ka ca) (removeKid kb cb) :=
  ⟨h.mirror.remove (view_nodup_of_inSpi h.nda) ca cb ha hb hv, removeKid_nodup _ _ h.nda,
   fun e he => h.protoa e (mem_of_mem_removeKid he), fun e he => h.protob e (mem_of_mem_removeKid he), h.paired.remove _ _⟩

/-- **the delete step**: `a` waits for the answer to its DELETE for `d`.  Either `d` is one of its CHILD_SAs and the ends agree, or
    `d` is a record `a` never tracked (the CHILD_SA it could not accept) and `b` has at most one CHILD_SA more than `a` knows of: the
    one whose outbound SPI the DELETE names.  In every case the conversation ends with both ends ESTABLISHED and agreed. -/
theorem dStep (now fuel : Nat) (a b : HSt) (d : Child) (kb : List Child) (extra : Option Child)
    (sta : a.me.core.st = stDEL_CHILD_REQ_SENT) (stb : b.me.core.st = stESTABLISHED)
    (del : a.me.ext.deleting = some d) (proto : d.proposal.proto = 2 ∨ d.proposal.proto = 3)
    (half : Half a.me.ext.kids kb) (hb : b.me.ext.kids = kb ++ extra.toList)
    (hcase : (d ∈ a.me.ext.kids ∧ extra = none) ∨
             (d.inSpi ∉ a.me.ext.kids.map Child.inSpi ∧ ∀ cb, extra = some cb → cb.outSpi = d.inSpi ∧ cb.proposal.proto = d.proposal.proto)) :
    ∃ a2 b1, converse now (fuel + 1) (mkRequest a.me.core 37 [mkP ptDELETE (.delete d.proposal.proto [d.inSpi])]) a b = some (a2, b1) ∧
      Done a2 b1 ∧ (∀ e ∈ b1.me.ext.kids, e ∈ b.me.ext.kids) ∧ ((b.me.ext.kids.map Child.inSpi).Nodup → (b1.me.ext.kids.map Child.inSpi).Nodup) := by
  have hlive : liveStatesAndRekeyed.contains b.me.core.st = true := by rw [stb]; decide
  unfold converse
  rw [requestHandler_37]; dsimp only
  rcases hcase with ⟨hd, rfl⟩ | ⟨hfresh, hextra⟩
  · -- an ordinary delete
    simp only [Option.toList, List.append_nil] at hb
    obtain ⟨cb, hk, hcb, hv⟩ := half.mirror.lookup half.nda d hd
    have hp : cb.proposal.proto = d.proposal.proto := by
      simp only [Child.view, Child.peerView, Prod.mk.injEq] at hv; exact hv.2.2.symm
    rw [← hb] at hk hcb
    rw [processInformationalRequest_delete a.me.core _ _ b cb hlive proto hk hp]; dsimp only
    rw [responseHandler_37]; dsimp only
    have hresp := processInformationalResponse_delete (untrackChild cb b).2.me.core [(d.proposal.proto, [cb.inSpi])] a d sta del
    simp only [List.map_cons, List.map_nil] at hresp
    rw [hresp]; dsimp only
    refine ⟨_, _, rfl, ⟨?_, ?_, ?_⟩, ?_, ?_⟩
    · simp [setState, modCore, HM.modify]
    · rw [untrackChild_mem cb b hcb]; simp [XSa.setKids, stb]
    · rw [untrackChild_mem d a hd, untrackChild_mem cb b hcb]
      simp only [setState, modCore, HM.modify, XSa.setKids]
      rw [hb]; rw [hb] at hcb
      exact half.remove d cb hd hcb hv
    · rw [untrackChild_mem cb b hcb]; intro e he; simp only [XSa.setKids] at he; exact mem_of_mem_removeKid he
    · rw [untrackChild_mem cb b hcb]; intro h; simp only [XSa.setKids]; exact removeKid_nodup _ _ h
  · have habs : a.me.ext.kids.any (childEq d) = false := any_childEq_false_of_fresh _ _ hfresh
    have hnone : getKidOut kb d.inSpi = none := getKidOut_none_of_fresh half.mirror _ hfresh
    cases extra with
    | none =>
      -- the responder never had it: an empty reply
      simp only [Option.toList, List.append_nil] at hb
      rw [processInformationalRequest_delete_none a.me.core _ _ b hlive proto (by rw [hb]; exact hnone)]; dsimp only
      rw [responseHandler_37]; dsimp only
      have hresp := processInformationalResponse_delete b.me.core [] a d sta del
      simp only [List.map_nil] at hresp
      rw [hresp, untrackChild_absent d a habs]; dsimp only
      refine ⟨_, _, rfl, ⟨?_, stb, ?_⟩, fun e he => he, fun h => h⟩
      · simp [setState, modCore, HM.modify]
      · simp only [setState, modCore, HM.modify]; rw [hb]; exact half
    | some cb =>
      obtain ⟨hout, hpr⟩ := hextra cb rfl
      simp only [Option.toList] at hb
      have hk : getKidOut b.me.ext.kids d.inSpi = some cb := by rw [hb]; exact getKidOut_append_last kb cb _ hnone hout
      have hcb : cb ∈ b.me.ext.kids := by rw [hb]; simp
      rw [processInformationalRequest_delete a.me.core _ _ b cb hlive proto hk hpr]; dsimp only
      rw [responseHandler_37]; dsimp only
      have hresp := processInformationalResponse_delete (untrackChild cb b).2.me.core [(d.proposal.proto, [cb.inSpi])] a d sta del
      simp only [List.map_cons, List.map_nil] at hresp
      rw [hresp, untrackChild_absent d a habs]; dsimp only
      have hrm : removeKid b.me.ext.kids cb = kb := by
        rw [hb]; apply removeKid_append_last
        intro e he heq
        have : d.inSpi ∈ kb.map Child.outSpi := by rw [← hout, ← heq]; exact List.mem_map_of_mem he
        exact hfresh ((outSpi_mem_of_mirror half.mirror _).mp this)
      refine ⟨_, _, rfl, ⟨?_, ?_, ?_⟩, ?_, ?_⟩
      · simp [setState, modCore, HM.modify]
      · rw [untrackChild_mem cb b hcb]; simp [XSa.setKids, stb]
      · rw [untrackChild_mem cb b hcb]
        simp only [setState, modCore, HM.modify, XSa.setKids]
        rw [hrm]; exact half
      · rw [untrackChild_mem cb b hcb]; intro e he; simp only [XSa.setKids] at he; exact mem_of_mem_removeKid he
      · rw [untrackChild_mem cb b hcb]; intro h; simp only [XSa.setKids]; exact removeKid_nodup _ _ h

theorem requestHandler_36 (now : Nat) (r : Msg) (hx : r.hdr.exch = 36) :
    requestHandler now r = some (processCreateChildSaRequest now r) := by
  simp [requestHandler, hx]

theorem responseHandler_36 (now : Nat) (core : SaCore) (l : List Payload) :
    responseHandler now (mkResponse core 36 l) = some (processCreateChildSaResponse now (mkResponse core 36 l)) := by
  simp [responseHandler, mkResponse]

theorem Half.append {ka kb : List Child} (h : Half ka kb) (ca cb : Child) (hv : ca.view = cb.peerView)
    (hfresh : ca.inSpi ∉ ka.map Child.inSpi) (hpa : ca.proposal.proto = 2 ∨ ca.proposal.proto = 3)
    (hr : ca.rich = cb.peerRich) :
    Half (ka ++ [ca]) (kb ++ [cb]) := by
  refine ⟨?_, ?_, ?_, ?_, ?_⟩
  · unfold Mirror; simp only [List.map_append, List.map_cons, List.map_nil, hv]
    exact List.Perm.append_right _ h.mirror
  · rw [List.map_append, List.nodup_append]
    refine ⟨h.nda, by simp, ?_⟩
    intro x hx y hy
    simp only [List.map_cons, List.map_nil, List.mem_singleton] at hy
    subst hy; intro hxy; subst hxy; exact hfresh hx
  · intro e he
    rcases List.mem_append.mp he with he | he
    · exact h.protoa e he
    · simp only [List.mem_singleton] at he; subst he; exact hpa
  · intro e he
    rcases List.mem_append.mp he with he | he
    · exact h.protob e he
    · simp only [List.mem_singleton] at he; subst he
      have : e.proposal.proto = ca.proposal.proto := by
        simp only [Child.view, Child.peerView, Prod.mk.injEq] at hv; exact hv.2.2.symm
      rw [this]; exact hpa
  · intro x hx y hy hxy
    rcases List.mem_append.mp hx with hx | hx <;> rcases List.mem_append.mp hy with hy | hy
    · exact h.paired x hx y hy hxy
    · simp only [List.mem_singleton] at hy; subst hy
      have : x.inSpi = ca.inSpi := by
        have := hxy.trans hv.symm
        simp only [Child.view, Prod.mk.injEq] at this; exact this.1
      exact absurd (this ▸ List.mem_map_of_mem hx) hfresh
    · simp only [List.mem_singleton] at hx; subst hx
      have : y.outSpi = x.inSpi := by
        simp only [Child.view, Child.peerView, Prod.mk.injEq] at hxy; exact hxy.1.symm
      exact absurd ((outSpi_mem_of_mirror h.mirror _).mp (this ▸ List.mem_map_of_mem hy)) hfresh
    · simp only [List.mem_singleton] at hx hy; subst hx; subst hy; exact hr

/-- **the creation / rekey step, to the end of the conversation**: `a` waits (state 11 or 12) for the answer to a CHILD_SA request whose
    only proposal carries the SPI of the record `a` is creating, a value `a` does not use yet.  Whatever the responder decides,
    whatever the initiator makes of the reply, however many INVALID_KE_PAYLOAD rounds there are: if no handler raises and the
    conversation ends within `fuel` requests, both ends are ESTABLISHED and agree. -/
theorem cConverse (now : Nat) : ∀ (fuel : Nat) (a b : HSt) (r : Msg) (c0 : Child) (p : Proposal)
    (_hst : a.me.core.st = stNEW_CHILD_REQ_SENT ∨
      (a.me.core.st = stREK_CHILD_REQ_SENT ∧ ∃ old, a.me.ext.rekeying = some old ∧ old ∈ a.me.ext.kids))
    (_hcr : a.me.ext.creating = some c0) (_hx : r.hdr.exch = 36) (_hsa : paySA r true = .ok [p]) (_hspi : p.spi = c0.inSpi)
    (_hproto : p.proto = c0.proposal.proto) (_hp23 : p.proto = 2 ∨ p.proto = 3)
    (_hfresh : c0.inSpi ∉ a.me.ext.kids.map Child.inSpi) (_hreq : a.me.core.request = some r)
    (_stb : b.me.core.st = stESTABLISHED) (_half : Half a.me.ext.kids b.me.ext.kids)
    (a' b' : HSt) (_hconv : converse now fuel r a b = some (a', b')), Done a' b'
  | 0, _, _, _, _, _, _, _, _, _, _, _, _, _, _, _, _, _, _, hconv => by cases hconv
  | fuel + 1, a, b, r, c0, p, hst, hcr, hx, hsa, hspi, hproto, hp23, hfresh, hreq, stb, half, a', b', hconv => by
    unfold converse at hconv
    rw [requestHandler_36 now r hx] at hconv; dsimp only at hconv
    have hp1 : p.proto ≠ 1 := by rcases hp23 with h | h <;> omega
    have hB := processCreateChildSaRequest_tri now r b.me p [] hsa hp1
    have hst13 : a.me.core.st ≠ stREK_IKE_SA_REQ_SENT := by
      rcases hst with h | ⟨h, _⟩ <;> rw [h] <;> decide
    cases hb : processCreateChildSaRequest now r b with
    | mk resB b1 =>
      rw [hb] at hconv
      cases resB with
      | error e => cases hconv
      | ok resB =>
        obtain ⟨payloads, hres, hgr⟩ := hB.ok b resB b1 rfl hb
        subst hres
        dsimp only at hconv
        rw [responseHandler_36] at hconv; dsimp only at hconv
        have hA := processCreateChildSaResponse_tri now (mkResponse b1.me.core 36 payloads) a.me c0 hcr hst13
        cases ha : processCreateChildSaResponse now (mkResponse b1.me.core 36 payloads) a with
        | mk resA a2 =>
          rw [ha] at hconv
          cases resA with
          | error e => cases hconv
          | ok resA =>
            have hout := hA.ok a resA a2 rfl ha
            -- the responder's two cases
            rcases hgr with ⟨cb, hb1, ⟨sa, q, hsa', hq, hcbout, hcbproto⟩, hgood, hshape⟩ | ⟨hb1, herr⟩
            · -- granted
              rw [hsa] at hsa'; cases hsa'
              simp only [List.mem_singleton] at hq; subst hq
              obtain ⟨p', hp'sa, hp'spi, hp'proto⟩ := goodReply_paySA b1.me.core payloads _ _ hgood
              have hnoerr := goodReply_hasErr b1.me.core payloads _ _ hgood
              have hnoke := goodReply_notifies b1.me.core payloads _ _ hgood nINVALID_KE_PAYLOAD (by decide)
              obtain ⟨⟨pt, hptsa, hpttr⟩, hrtsi, hrtsr, hrmode⟩ := replyShape_read b1.me.core payloads cb hshape
              rw [hp'sa] at hptsa; cases hptsa
              have hb1k : b1.me.ext.kids = b.me.ext.kids ++ [cb] := by rw [hb1]; rfl
              have hb1s : b1.me.core.st = stESTABLISHED := by rw [hb1]; exact stb
              rcases hout with ⟨_, _, h3⟩ | ⟨h1, _, hcre⟩ | ⟨z, old, _, hcre, hprev, hrk, hany, h1, h2⟩ | ⟨_, h1, h2⟩ | ⟨r2, hke, _⟩
              · rw [hnoerr] at h3; cases h3
              · -- created
                subst h1; dsimp only at hconv; cases hconv
                obtain ⟨p'', rest, child, hp''sa, hcin, hcout, hcprop, ⟨t1, r1, t2, r2, ht1, ht2, hctsi, hctsr, hcmode⟩, hz⟩ := hcre
                rw [hp'sa] at hp''sa; cases hp''sa
                have hv : child.view = cb.peerView := by
                  simp only [Child.view, Child.peerView, Prod.mk.injEq]
                  exact ⟨by rw [hcin, hcbout, hspi], by rw [hcout, hp'spi], by rw [hcprop, hp'proto]⟩
                have hrich : child.rich = cb.peerRich := by
                  rw [hrtsi] at ht1; rw [hrtsr] at ht2
                  simp only [Except.ok.injEq] at ht1 ht2
                  have e1 : cb.tsr = [t1] := by
                    cases hl : cb.tsr with
                    | nil => rw [hl] at ht1; cases ht1
                    | cons x xs =>
                      rw [hl] at ht1; cases ht1
                      obtain ⟨_, _, _, _, _, _, _, _, _, _, _, _, _, _, _, h5⟩ := hshape
                      rw [hl] at h5; cases h5; rfl
                  have e2 : cb.tsi = [t2] := by
                    cases hl : cb.tsi with
                    | nil => rw [hl] at ht2; cases ht2
                    | cons x xs =>
                      rw [hl] at ht2; cases ht2
                      obtain ⟨_, _, _, _, _, _, _, _, _, _, _, _, _, _, h4, _⟩ := hshape
                      rw [hl] at h4; cases h4; rfl
                  simp only [Child.rich, Child.peerRich, Prod.mk.injEq]
                  exact ⟨by rw [hcprop, hpttr], by rw [hcmode, hrmode], by rw [hctsi, e1], by rw [hctsr, e2]⟩
                refine ⟨by rw [hz]; rfl, hb1s, ?_⟩
                rw [hz, hb1k]
                exact half.append child cb hv (by rw [hcin]; exact hfresh) (by rw [hcprop, hp'proto, hcbproto]; exact hp23) hrich
              · -- created, and the replaced CHILD_SA is deleted next
                subst h1; dsimp only at hconv
                obtain ⟨p'', rest, child, hp''sa, hcin, hcout, hcprop, ⟨t1, r1, t2, r2, ht1, ht2, hctsi, hctsr, hcmode⟩, hz⟩ := hcre
                rw [hp'sa] at hp''sa; cases hp''sa
                have hv : child.view = cb.peerView := by
                  simp only [Child.view, Child.peerView, Prod.mk.injEq]
                  exact ⟨by rw [hcin, hcbout, hspi], by rw [hcout, hp'spi], by rw [hcprop, hp'proto]⟩
                have hrich : child.rich = cb.peerRich := by
                  rw [hrtsi] at ht1; rw [hrtsr] at ht2
                  simp only [Except.ok.injEq] at ht1 ht2
                  have e1 : cb.tsr = [t1] := by
                    cases hl : cb.tsr with
                    | nil => rw [hl] at ht1; cases ht1
                    | cons x xs =>
                      rw [hl] at ht1; cases ht1
                      obtain ⟨_, _, _, _, _, _, _, _, _, _, _, _, _, _, _, h5⟩ := hshape
                      rw [hl] at h5; cases h5; rfl
                  have e2 : cb.tsi = [t2] := by
                    cases hl : cb.tsi with
                    | nil => rw [hl] at ht2; cases ht2
                    | cons x xs =>
                      rw [hl] at ht2; cases ht2
                      obtain ⟨_, _, _, _, _, _, _, _, _, _, _, _, _, _, h4, _⟩ := hshape
                      rw [hl] at h4; cases h4; rfl
                  simp only [Child.rich, Child.peerRich, Prod.mk.injEq]
                  exact ⟨by rw [hcprop, hpttr], by rw [hcmode, hrmode], by rw [hctsi, e1], by rw [hctsr, e2]⟩
                have hzk : z.ext.kids = a.me.ext.kids ++ [child] := by rw [hz]; rfl
                have hhalf : Half z.ext.kids b1.me.ext.kids := by
                  rw [hzk, hb1k]
                  exact half.append child cb hv (by rw [hcin]; exact hfresh) (by rw [hcprop, hp'proto, hcbproto]; exact hp23) hrich
                have hold : old ∈ z.ext.kids := by
                  rcases hst with h | ⟨_, old', ho1, ho2⟩
                  · rw [h] at hprev; cases hprev
                  · rw [hrk] at ho1; cases ho1; rw [hzk]; exact List.mem_append_left _ ho2
                cases fuel with
                | zero => cases hconv
                | succ fuel =>
                  obtain ⟨x, y, hxy, hdone, _, _⟩ := dStep now fuel a2 b1 old b1.me.ext.kids none
                    (by rw [h2]; rfl) hb1s (by rw [h2]; rfl) (hhalf.protoa old hold) (by rw [h2]; exact hhalf) (by simp)
                    (Or.inl ⟨by rw [h2]; exact hold, rfl⟩)
                  have hreq2 : delReq z old = mkRequest a2.me.core 37 [mkP ptDELETE (.delete old.proposal.proto [old.inSpi])] := by
                    rw [h2]; rfl
                  rw [hreq2, hxy] at hconv; cases hconv; exact hdone
              · -- the initiator cannot accept what the responder created: it asks for its deletion
                subst h1; dsimp only at hconv
                cases fuel with
                | zero => cases hconv
                | succ fuel =>
                  obtain ⟨x, y, hxy, hdone, _, _⟩ := dStep now fuel a2 b1 c0 b.me.ext.kids (some cb)
                    (by rw [h2]; rfl) hb1s (by rw [h2]; rfl) (by rw [← hproto]; exact hp23) (by rw [h2]; exact half) (by rw [hb1k]; rfl)
                    (Or.inr ⟨by rw [h2]; exact hfresh, by intro cb' hcb'; cases hcb'; exact ⟨by rw [hcbout, hspi], by rw [hcbproto, hproto]⟩⟩)
                  have hreq2 : delReq (setSt a.me stESTABLISHED) c0 = mkRequest a2.me.core 37 [mkP ptDELETE (.delete c0.proposal.proto [c0.inSpi])] := by
                    rw [h2]; rfl
                  rw [hreq2, hxy] at hconv; cases hconv; exact hdone
              · exact absurd hnoke hke
            · -- refused: the responder is as it was
              have hb1k : b1.me.ext.kids = b.me.ext.kids := by rw [hb1]
              have hb1s : b1.me.core.st = stESTABLISHED := by rw [hb1]; exact stb
              rcases hout with ⟨h1, h2, _⟩ | ⟨_, _, hcre⟩ | ⟨z, old, _, hcre, _⟩ | ⟨_, h1, h2⟩ | ⟨r2, _, h1, h2, req, g, pub, hreq', hr2⟩
              · subst h1; dsimp only at hconv; cases hconv
                exact ⟨by rw [h2]; rfl, hb1s, by rw [h2, hb1k]; exact half⟩
              · obtain ⟨p'', rest, child, hp''sa, _⟩ := hcre
                exact absurd hp''sa (errReply_paySA _ _ herr _)
              · obtain ⟨p'', rest, child, hp''sa, _⟩ := hcre
                exact absurd hp''sa (errReply_paySA _ _ herr _)
              · subst h1; dsimp only at hconv
                cases fuel with
                | zero => cases hconv
                | succ fuel =>
                  obtain ⟨x, y, hxy, hdone, _, _⟩ := dStep now fuel a2 b1 c0 b.me.ext.kids none
                    (by rw [h2]; rfl) hb1s (by rw [h2]; rfl) (by rw [← hproto]; exact hp23) (by rw [h2]; exact half) (by rw [hb1k]; simp)
                    (Or.inr ⟨by rw [h2]; exact hfresh, by intro cb' hcb'; cases hcb'⟩)
                  have hreq2 : delReq (setSt a.me stESTABLISHED) c0 = mkRequest a2.me.core 37 [mkP ptDELETE (.delete c0.proposal.proto [c0.inSpi])] := by
                    rw [h2]; rfl
                  rw [hreq2, hxy] at hconv; cases hconv; exact hdone
              · -- INVALID_KE_PAYLOAD: the same request with another group; the same situation one round later
                subst h1; dsimp only at hconv
                rw [hreq] at hreq'; cases hreq'
                have hx2 : r2.hdr.exch = 36 := by rw [hr2]; simp [mkRequest, hx]
                have hsa2 : paySA r2 true = .ok [p] := by rw [hr2, paySA_retry _ _ _ _ hx]; exact hsa
                exact cConverse now fuel a2 b1 r2 c0 p (by rw [h2]; exact hst) (by rw [h2]; exact hcr) hx2 hsa2 hspi hproto hp23
                  (by rw [h2]; exact hfresh) (by rw [h2]) hb1s (by rw [h2, hb1k]; exact half) a' b' hconv

/-! ### starting a conversation -/

/-- the proposal a CHILD_SA request carries for the record `c` -/
def offerOf (c : Child) : Proposal :=
  { num := c.proposal.num, proto := c.proposal.proto, spi := c.inSpi, transforms := c.proposal.transforms }

theorem generateChildNegotiation_me (x : XSa) (c : Child) : Keeps (MeIs x) (generateChildNegotiation c) := by
  unfold generateChildNegotiation
  repeat' (first
    | exact Keeps.pure _ | exact Keeps.raise _ | exact popBytesOrFail_me x
    | apply Keeps.bind | intro _ | split | dsimp only)

theorem generateChildNegotiation_ret (c : Child) :
    Ret (fun l => ∃ tail, l = [mkP ptTSi (.ts c.tsi), mkP ptTSr (.ts c.tsr), mkP ptSA (.sa [offerOf c])] ++ tail)
      (generateChildNegotiation c) := by
  unfold generateChildNegotiation
  extract_lets base mode jp
  have hjp : ∀ ke, Ret (fun l => ∃ tail, l = [mkP ptTSi (.ts c.tsi), mkP ptTSr (.ts c.tsr), mkP ptSA (.sa [offerOf c])] ++ tail) (jp ke) := by
    intro ke
    exact Ret.pure _ ⟨ke ++ mode, by simp [base, offerOf]⟩
  split
  · exact Ret.bind (fun _ => Ret.bind (fun _ => hjp _))
  · exact Ret.bind (fun _ => hjp _)

theorem paySA_of_prefix (core : SaCore) (pre : List Payload) (hpre : ∀ q ∈ pre, Quiet q) (c : Child) (tail : List Payload) :
    paySA (mkRequest core 36 (pre ++ ([mkP ptTSi (.ts c.tsi), mkP ptTSr (.ts c.tsr), mkP ptSA (.sa [offerOf c])] ++ tail))) true
      = .ok [offerOf c] := by
  simp only [paySA, findPayload, payloadsOf, mkRequest, if_true]
  rw [show (if (36 : Nat) = 34 then ([] : List Payload) else pre ++ ([mkP ptTSi (.ts c.tsi), mkP ptTSr (.ts c.tsr), mkP ptSA (.sa [offerOf c])] ++ tail))
        = (pre ++ [mkP ptTSi (.ts c.tsi), mkP ptTSr (.ts c.tsr)]) ++ mkP ptSA (.sa [offerOf c]) :: tail by simp]
  rw [find_sa_append _ tail _ rfl]
  · rfl
  · intro q hq
    simp only [List.mem_append, List.mem_cons, List.mem_nil_iff, or_false] at hq
    rcases hq with hq | rfl | rfl
    · exact hpre q hq
    · exact ⟨by simp [mkP, ptTSi, ptSA], by intro a t b c' h; simp [mkP] at h⟩
    · exact ⟨by simp [mkP, ptTSr, ptSA], by intro a t b c' h; simp [mkP] at h⟩

/-- the object after `generate_create_child_sa_request(c0, rekeyed)` returned `r` -/
def afterGenCreate (x : XSa) (c0 : Child) (rekeyed : Option Child) (r : Msg) : XSa :=
  { core := { x.core with request := some r, st := if rekeyed.isNone then stNEW_CHILD_REQ_SENT else stREK_CHILD_REQ_SENT },
    ext := { x.ext with creating := some c0, rekeying := match rekeyed with | some old => some old | none => x.ext.rekeying } }

theorem generateCreateChildSaRequest_tri (x : XSa) (c0 : Child) (rekeyed : Option Child) :
    Tri (MeIs x) (generateCreateChildSaRequest c0 rekeyed)
      (fun r s => s.me = afterGenCreate x c0 rekeyed r ∧ r.hdr.exch = 36 ∧ paySA r true = .ok [offerOf c0])
      (fun _ _ => True) := by
  unfold generateCreateChildSaRequest
  refine Tri.bind_quiet (fun _ => True) (by unfold assertState; exact Keeps.bind (getMe_me x) (fun _ => by split; exact Keeps.pure _; exact Keeps.raise _))
    (fun _ _ _ _ => trivial) ?_ (fun _ _ _ => trivial); intro _ _
  apply Tri.bind (Q := fun _ => MeIs ({ x with ext := { x.ext with creating := some c0 } } : XSa))
  · unfold modExt; apply Tri.modify; intro s hs; simp only [MeIs]; rw [show s.me = x from hs]
  · intro _
    refine Tri.bind_quiet _ (generateChildNegotiation_me _ c0) (generateChildNegotiation_ret c0) ?_ (fun _ _ _ => trivial)
    rintro payloads ⟨tail, rfl⟩
    cases rekeyed with
    | none =>
      dsimp only
      rw [show (Pure.pure ([mkP ptTSi (.ts c0.tsi), mkP ptTSr (.ts c0.tsr), mkP ptSA (.sa [offerOf c0])] ++ tail) : HM (List Payload)) >>= _ = _ from rfl]
      constructor
      · intro s r t hs hm
        simp only [HM.bind_def, HM.pure_def] at hm
        cases hpb : popBytes s with
        | mk rn s1 =>
          have hk := (popBytes_me _).keep s hs; rw [hpb] at hk
          rw [hpb] at hm
          cases rn with
          | error e => cases hm
          | ok nonce =>
            simp only [getMe, modCore, HM.modify] at hm
            cases hm
            refine ⟨?_, rfl, ?_⟩
            · simp only [afterGenCreate]; rw [show s1.me = _ from hk]
            · rw [show s1.me = _ from hk]
              have := paySA_of_prefix x.core [] (by intro q hq; cases hq) c0 (tail ++ [mkP ptNONCE (.nonce nonce)])
              simpa using this
      · intro _ _ _ _ _; trivial
    | some old =>
      dsimp only
      constructor
      · intro s r t hs hm
        simp only [HM.bind_def, HM.pure_def, modExt, HM.modify] at hm
        cases hpb : popBytes { s with me := { s.me with ext := { s.me.ext with rekeying := some old } } } with
        | mk rn s1 =>
          have hk := (popBytes_me ({ x with ext := { x.ext with creating := some c0, rekeying := some old } } : XSa)).keep
            { s with me := { s.me with ext := { s.me.ext with rekeying := some old } } } (by simp only [MeIs]; rw [show s.me = _ from hs])
          rw [hpb] at hk
          rw [hpb] at hm
          cases rn with
          | error e => cases hm
          | ok nonce =>
            simp only [getMe, modCore, HM.modify] at hm
            cases hm
            refine ⟨?_, rfl, ?_⟩
            · simp only [afterGenCreate]; rw [show s1.me = _ from hk]
            · rw [show s1.me = _ from hk]
              have := paySA_of_prefix x.core [mkNotify old.proposal.proto nREKEY_SA old.inSpi []]
                (all_quiet_one (quiet_status _ nREKEY_SA _ _ (by decide))) c0 (tail ++ [mkP ptNONCE (.nonce nonce)])
              simpa using this
      · intro _ _ _ _ _; trivial

/-- a CHILD_SA creation (`rekeyed = none`) or rekey conversation, from the generator to the last answer -/
def childExchange (now fuel : Nat) (c0 : Child) (rekeyed : Option Child) (a b : HSt) : Option (HSt × HSt) :=
  match generateCreateChildSaRequest c0 rekeyed a with
  | (.ok r, a1) => converse now fuel r a1 b
  | _ => none

/-- a CHILD_SA delete conversation -/
def delExchange (now fuel : Nat) (d : Child) (a b : HSt) : Option (HSt × HSt) :=
  match generateDeleteChildSaRequest d a with
  | (.ok r, a1) => converse now fuel r a1 b
  | _ => none

theorem Agree.done {a b : HSt} (h : Agree a b) : Done a b := ⟨h.sta, h.stb, h.mirror, h.nda, h.protoa, h.protob, h.paired⟩

theorem Done.agree {a b : HSt} (h : Done a b) (hnd : (b.me.ext.kids.map Child.inSpi).Nodup) : Agree a b :=
  ⟨h.sta, h.stb, h.half.mirror, h.half.nda, hnd, h.half.protoa, h.half.protob, h.half.paired⟩

/-- creation and rekey: whatever either end decides, if no handler raises and the conversation ends, the ends are ESTABLISHED and agree -/
theorem childExchange_done (now fuel : Nat) (c0 : Child) (rekeyed : Option Child) (a b a' b' : HSt) (h : Done a b)
    (hfresh : c0.inSpi ∉ a.me.ext.kids.map Child.inSpi) (hproto : c0.proposal.proto = 2 ∨ c0.proposal.proto = 3)
    (hold : ∀ old, rekeyed = some old → old ∈ a.me.ext.kids)
    (hx : childExchange now fuel c0 rekeyed a b = some (a', b')) : Done a' b' := by
  unfold childExchange at hx
  cases hg : generateCreateChildSaRequest c0 rekeyed a with
  | mk res a1 =>
    rw [hg] at hx
    cases res with
    | error e => cases hx
    | ok r =>
      dsimp only at hx
      obtain ⟨h1, h2, h3⟩ := (generateCreateChildSaRequest_tri a.me c0 rekeyed).ok a r a1 rfl hg
      refine cConverse now fuel a1 b r c0 (offerOf c0) ?_ (by rw [h1]; rfl) h2 h3 rfl rfl hproto (by rw [h1]; exact hfresh)
        (by rw [h1]; rfl) h.stb (by rw [h1]; exact h.half) a' b' hx
      cases rekeyed with
      | none => left; rw [h1]; rfl
      | some old => right; rw [h1]; exact ⟨rfl, old, rfl, hold old rfl⟩

/-- deletion: always runs to the end; the ends are ESTABLISHED and agree -/
theorem delExchange_done (now fuel : Nat) (d : Child) (a b : HSt) (h : Done a b) (hd : d ∈ a.me.ext.kids) :
    ∃ a' b', delExchange now (fuel + 1) d a b = some (a', b') ∧ Done a' b' ∧
      ((b.me.ext.kids.map Child.inSpi).Nodup → (b'.me.ext.kids.map Child.inSpi).Nodup) := by
  unfold delExchange
  rw [generateDeleteChildSaRequest_eq d a h.sta]; dsimp only
  obtain ⟨x, y, hxy, hdone, _, hnd⟩ := dStep now fuel
    { a with me := { core := { a.me.core with request := some (mkRequest a.me.core 37 [mkP ptDELETE (.delete d.proposal.proto [d.inSpi])]),
                                               st := stDEL_CHILD_REQ_SENT },
                      ext := { a.me.ext with deleting := some d } } } b d b.me.ext.kids none rfl h.stb rfl (h.half.protoa d hd) h.half (by simp)
    (Or.inl ⟨hd, rfl⟩)
  exact ⟨x, y, hxy, hdone, hnd⟩

/-! ### any sequence of CHILD_SA exchanges, started by either end -/

inductive ChildOp where
  | create (byA : Bool) (c0 : Child)               -- an ACQUIRE at that end: `c0` is the record it starts from
  | rekey (byA : Bool) (i : Nat) (c0 : Child)      -- a soft expiry of that end's i-th CHILD_SA
  | delete (byA : Bool) (i : Nat)                  -- a hard expiry
  deriving Repr

/-- one exchange with `a` as its initiator; `none` also when a locally drawn SPI is one the drawing end already uses (the kernel
    refuses the second SA with that key; both ends' handling of that refusal is outside this theorem) -/
def opStepA (now fuel : Nat) (a b : HSt) : ChildOp → Option (HSt × HSt)
  | .create _ c0 =>
    if c0.inSpi ∈ a.me.ext.kids.map Child.inSpi ∨ ¬ (c0.proposal.proto = 2 ∨ c0.proposal.proto = 3) then none
    else (childExchange now fuel c0 none a b).bind fun x => if (x.2.me.ext.kids.map Child.inSpi).Nodup then some x else none
  | .rekey _ i c0 =>
    match a.me.ext.kids[i]? with
    | none => some (a, b)
    | some old =>
      if c0.inSpi ∈ a.me.ext.kids.map Child.inSpi ∨ ¬ (c0.proposal.proto = 2 ∨ c0.proposal.proto = 3) then none
      else (childExchange now fuel c0 (some old) a b).bind fun x => if (x.2.me.ext.kids.map Child.inSpi).Nodup then some x else none
  | .delete _ i =>
    match a.me.ext.kids[i]? with
    | none => some (a, b)
    | some d => delExchange now fuel d a b

def ChildOp.byA : ChildOp → Bool
  | .create x _ => x | .rekey x _ _ => x | .delete x _ => x

def opStep (now fuel : Nat) (ab : HSt × HSt) (op : ChildOp) : Option (HSt × HSt) :=
  if op.byA then opStepA now fuel ab.1 ab.2 op else (opStepA now fuel ab.2 ab.1 op).map fun x => (x.2, x.1)

def opRun (now fuel : Nat) (ab : HSt × HSt) : List ChildOp → Option (HSt × HSt)
  | [] => some ab
  | op :: rest => match opStep now fuel ab op with
    | some ab' => opRun now fuel ab' rest
    | none => none

theorem Agree.opStepA {a b a' b' : HSt} (h : Agree a b) (now fuel : Nat) (op : ChildOp)
    (hx : opStepA now fuel a b op = some (a', b')) : Agree a' b' := by
  cases op with
  | create _ c0 =>
    simp only [PyIkev2.Impl.opStepA] at hx
    split at hx
    · cases hx
    · rename_i hc
      have hc : c0.inSpi ∉ a.me.ext.kids.map Child.inSpi ∧ (c0.proposal.proto = 2 ∨ c0.proposal.proto = 3) :=
        ⟨fun h => hc (Or.inl h), Decidable.byContradiction fun h => hc (Or.inr h)⟩
      cases he : childExchange now fuel c0 none a b with
      | none => rw [he] at hx; cases hx
      | some x =>
        rw [he] at hx; simp only [Option.bind_some] at hx
        split at hx
        · rename_i hnd; cases hx
          exact (childExchange_done now fuel c0 none a b _ _ h.done hc.1 hc.2 (by intro _ h; cases h) he).agree hnd
        · cases hx
  | rekey _ i c0 =>
    simp only [PyIkev2.Impl.opStepA] at hx
    cases hi : a.me.ext.kids[i]? with
    | none => rw [hi] at hx; cases hx; exact h
    | some old =>
      rw [hi] at hx; dsimp only at hx
      split at hx
      · cases hx
      · rename_i hc
        have hc : c0.inSpi ∉ a.me.ext.kids.map Child.inSpi ∧ (c0.proposal.proto = 2 ∨ c0.proposal.proto = 3) :=
          ⟨fun h => hc (Or.inl h), Decidable.byContradiction fun h => hc (Or.inr h)⟩
        cases he : childExchange now fuel c0 (some old) a b with
        | none => rw [he] at hx; cases hx
        | some x =>
          rw [he] at hx; simp only [Option.bind_some] at hx
          split at hx
          · rename_i hnd; cases hx
            exact (childExchange_done now fuel c0 (some old) a b _ _ h.done hc.1 hc.2
              (by intro o ho; cases ho; exact List.mem_of_getElem? hi) he).agree hnd
          · cases hx
  | delete _ i =>
    simp only [PyIkev2.Impl.opStepA] at hx
    cases hi : a.me.ext.kids[i]? with
    | none => rw [hi] at hx; cases hx; exact h
    | some d =>
      rw [hi] at hx; dsimp only at hx
      cases fuel with
      | zero =>
        unfold delExchange at hx
        rw [generateDeleteChildSaRequest_eq d a h.sta] at hx
        simp only [converse] at hx; cases hx
      | succ fuel =>
        obtain ⟨x, y, hxy, hdone, hnd⟩ := delExchange_done now fuel d a b h.done (List.mem_of_getElem? hi)
        rw [hxy] at hx; cases hx
        exact hdone.agree (hnd h.ndb)

theorem Agree.opRun (now fuel : Nat) : ∀ (ops : List ChildOp) (a b a' b' : HSt), Agree a b →
    opRun now fuel (a, b) ops = some (a', b') → Agree a' b'
  | [], a, b, a', b', h, hx => by simp only [PyIkev2.Impl.opRun] at hx; cases hx; exact h
  | op :: rest, a, b, a', b', h, hx => by
    simp only [PyIkev2.Impl.opRun] at hx
    cases hs : opStep now fuel (a, b) op with
    | none => rw [hs] at hx; cases hx
    | some ab1 =>
      rw [hs] at hx; dsimp only at hx
      obtain ⟨a1, b1⟩ := ab1
      have h1 : Agree a1 b1 := by
        unfold opStep at hs
        split at hs
        · exact h.opStepA now fuel op hs
        · cases hs2 : PyIkev2.Impl.opStepA now fuel b a op with
          | none => simp only [hs2, Option.map_none] at hs; cases hs
          | some x =>
            simp only [hs2, Option.map_some] at hs; cases hs
            exact (h.symm.opStepA now fuel op (a' := x.1) (b' := x.2) hs2).symm
      exact Agree.opRun now fuel rest a1 b1 a' b' h1 hx

end PyIkev2.Impl
