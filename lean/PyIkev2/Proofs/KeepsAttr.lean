/- simp sets that collect the per-function preservation lemmas (`Keeps I f`) of each invariant, so that the structural
   tactic can discharge a call of an already treated function by `simp only [attr]`. -/
import Lean

register_simp_attr keepsConst
register_simp_attr keepsKernel
register_simp_attr keepsAuth
register_simp_attr keepsInit
register_simp_attr keepsSad
register_simp_attr keepsOps
register_simp_attr keepsN13
register_simp_attr keepsGen
register_simp_attr keepsSucc
register_simp_attr keepsPost
register_simp_attr keepsKernel2
register_simp_attr keepsRet
register_simp_attr keepsStored
