/-
  Helper lemmas for C05 / C07: parse ∘ encode = id on well-formed content.
-/
import PyIkev2.Model.Codec

namespace PyIkev2.Impl
open PyIkev2 PyIkev2.Res

/-! ### reading what was just written -/

@[simp] theorem u8_zero (a : Nat) (r : Bytes) : u8 (a :: r) 0 = a := rfl
@[simp] theorem u8_one (a b : Nat) (r : Bytes) : u8 (a :: b :: r) 1 = b := rfl
@[simp] theorem u8_two (a b c : Nat) (r : Bytes) : u8 (a :: b :: c :: r) 2 = c := rfl
@[simp] theorem u8_three (a b c d : Nat) (r : Bytes) : u8 (a :: b :: c :: d :: r) 3 = d := rfl
@[simp] theorem u16_zero (a b : Nat) (r : Bytes) : u16 (a :: b :: r) 0 = a * 256 + b := rfl
@[simp] theorem u16_two (a b c d : Nat) (r : Bytes) : u16 (a :: b :: c :: d :: r) 2 = c * 256 + d := rfl

theorem w16_val (n : Nat) (h : n < 65536) : (n / 256 % 256) * 256 + n % 256 = n := by omega

@[simp] theorem need_ok (g : Bool) (h n : Nat) (hn : n ≤ h) : need g h n = .ok () := by
  unfold need; simp [hn]

/-! ### well-formedness (what `pack` accepts and what survives a round trip) -/

def Transform.Wf (t : Transform) : Prop :=
  t.ttype < 256 ∧ t.id < 65536 ∧ (match t.keylen with | none => True | some k => 0 < k ∧ k < 65536)

instance (t : Transform) : Decidable t.Wf := by
  unfold Transform.Wf; cases t.keylen <;> exact inferInstance

theorem encTransform_length (t : Transform) : (encTransform t).length = 4 ∨ (encTransform t).length = 8 := by
  unfold encTransform w16
  cases t.keylen with
  | none => simp
  | some k => by_cases hk : k = 0 <;> simp [hk]

theorem parseAttrs_nil : parseAttrs [] = .ok none := rfl

theorem parseAttrs_keylen (k : Nat) (hk : k < 65536) :
    parseAttrs (w16 32782 ++ w16 k) = .ok (some k) := by
  simp only [w16, List.cons_append, List.nil_append, parseAttrs]
  rw [if_pos trivial, w16_val k hk]

theorem parseTransform_enc (t : Transform) (h : t.Wf) : parseTransform (encTransform t) = .ok t := by
  obtain ⟨h1, h2, h3⟩ := h
  unfold parseTransform encTransform
  cases t with
  | mk ttype id keylen =>
    cases keylen with
    | none =>
      simp [w16, parseAttrs_nil, Nat.mod_eq_of_lt h1] at *
      omega
    | some k =>
      simp at h3
      have hk0 : k ≠ 0 := by omega
      simp only [hk0, if_false]
      have := parseAttrs_keylen k h3.2
      simp [w16] at this
      simp [w16, this, Nat.mod_eq_of_lt h1] at *
      omega

end PyIkev2.Impl

namespace PyIkev2.Impl
open PyIkev2 PyIkev2.Res

theorem slice_hdr4 (a b c d : Nat) (x y : Bytes) :
    slice (a :: b :: c :: d :: (x ++ y)) 4 (x.length + 4) = x := by
  simp [slice]

theorem drop_hdr4 (a b c d : Nat) (x y : Bytes) :
    (a :: b :: c :: d :: (x ++ y)).drop (x.length + 4) = y := by
  simp

theorem encTransforms_cons (t : Transform) (rest : List Transform) :
    encTransforms (t :: rest) =
      (if rest = [] then 0 else 3) :: 0 :: ((encTransform t).length + 4) / 256 % 256 ::
        ((encTransform t).length + 4) % 256 :: (encTransform t ++ encTransforms rest) := by
  cases rest with
  | nil => simp [encTransforms, w16]
  | cons r rs => simp [encTransforms, w16]

theorem encTransforms_length_ge (ts : List Transform) : 8 * ts.length ≤ (encTransforms ts).length := by
  induction ts with
  | nil => simp [encTransforms]
  | cons t rest ih =>
    rw [encTransforms_cons]
    have := encTransform_length t
    simp only [List.length_cons, List.length_append]
    omega

theorem parseTransforms_enc (ts : List Transform) (h : ∀ t ∈ ts, t.Wf) (fuel : Nat) (acc : List Transform)
    (hf : ts.length < fuel) :
    parseTransforms fuel (encTransforms ts) acc = .ok (acc.reverse ++ ts) := by
  induction ts generalizing fuel acc with
  | nil =>
    cases fuel with
    | zero => omega
    | succ f => simp [parseTransforms, encTransforms]
  | cons t rest ih =>
    cases fuel with
    | zero => omega
    | succ f =>
      rw [encTransforms_cons]
      unfold parseTransforms
      have hl := encTransform_length t
      have hlen : ((encTransform t).length + 4) / 256 % 256 * 256 + ((encTransform t).length + 4) % 256
          = (encTransform t).length + 4 := by omega
      simp only [List.cons_ne_nil, if_false, u16_two, hlen]
      rw [need_ok _ _ _ (by simp), slice_hdr4, drop_hdr4]
      simp only [bind_ok]
      rw [parseTransform_enc t (h t (by simp))]
      simp only [bind_ok]
      rw [ih (fun x hx => h x (by simp [hx])) f (t :: acc) (by simp at hf; omega)]
      simp

end PyIkev2.Impl

namespace PyIkev2.Impl
open PyIkev2 PyIkev2.Res

def Proposal.Wf (p : Proposal) : Prop :=
  p.num < 256 ∧ p.proto < 256 ∧ p.spi.length < 256 ∧ p.transforms ≠ [] ∧ p.transforms.length < 256 ∧
  (∀ t ∈ p.transforms, t.Wf) ∧ (encProposal p).length + 4 < 65536

theorem slice_spi (a b c d : Nat) (x y : Bytes) :
    slice (a :: b :: c :: d :: (x ++ y)) 4 (4 + x.length) = x := by
  rw [Nat.add_comm]; exact slice_hdr4 a b c d x y

theorem parseProposal_enc (p : Proposal) (h : p.Wf) : parseProposal (encProposal p) = .ok p := by
  obtain ⟨h1, h2, h3, h4, h5, h6, _⟩ := h
  cases p with
  | mk num proto spi ts =>
    simp only at h1 h2 h3 h4 h5 h6
    unfold parseProposal encProposal
    simp only [List.cons_append, List.nil_append, List.length_cons, List.length_append,
      Nat.mod_eq_of_lt h1, Nat.mod_eq_of_lt h2, Nat.mod_eq_of_lt h3, Nat.mod_eq_of_lt h5,
      u8_zero, u8_one, u8_two, u8_three]
    rw [need_ok _ _ _ (by omega)]
    simp only [bind_ok]
    have hdrop : (num :: proto :: spi.length :: ts.length :: (spi ++ encTransforms ts)).drop (4 + spi.length)
        = encTransforms ts := by
      rw [Nat.add_comm]; exact drop_hdr4 _ _ _ _ _ _
    rw [hdrop, parseTransforms_enc ts h6 _ [] (by have := encTransforms_length_ge ts; omega)]
    simp only [bind_ok, List.reverse_nil, List.nil_append]
    have hne : ts.length ≠ 0 := by
      intro h0; exact h4 (List.eq_nil_of_length_eq_zero h0)
    simp only [ne_eq, not_true_eq_false, if_false, hne]
    congr 1
    by_cases hs : spi.length > 0
    · simp only [hs, if_true, slice_spi]
    · have : spi = [] := List.eq_nil_of_length_eq_zero (by omega)
      simp [this]

end PyIkev2.Impl

namespace PyIkev2.Impl
open PyIkev2 PyIkev2.Res

theorem encProposals_cons (p : Proposal) (rest : List Proposal) :
    encProposals (p :: rest) =
      (if rest = [] then 0 else 2) :: 0 :: ((encProposal p).length + 4) / 256 % 256 ::
        ((encProposal p).length + 4) % 256 :: (encProposal p ++ encProposals rest) := by
  cases rest with
  | nil => simp [encProposals, w16]
  | cons r rs => simp [encProposals, w16]

theorem encProposals_length_ge (ps : List Proposal) : 4 * ps.length ≤ (encProposals ps).length := by
  induction ps with
  | nil => simp [encProposals]
  | cons t rest ih =>
    rw [encProposals_cons]
    simp only [List.length_cons, List.length_append]
    omega

theorem parseProposals_enc (ps : List Proposal) (h : ∀ p ∈ ps, p.Wf) (fuel : Nat) (acc : List Proposal)
    (hf : ps.length < fuel) :
    parseProposals fuel (encProposals ps) acc = .ok (acc.reverse ++ ps) := by
  induction ps generalizing fuel acc with
  | nil =>
    cases fuel with
    | zero => omega
    | succ f => simp [parseProposals, encProposals]
  | cons p rest ih =>
    cases fuel with
    | zero => omega
    | succ f =>
      rw [encProposals_cons]
      unfold parseProposals
      have hw := h p (by simp)
      have hl := hw.2.2.2.2.2.2
      have hlen : ((encProposal p).length + 4) / 256 % 256 * 256 + ((encProposal p).length + 4) % 256
          = (encProposal p).length + 4 := by omega
      simp only [List.cons_ne_nil, if_false, u16_two, hlen]
      rw [need_ok _ _ _ (by simp), slice_hdr4, drop_hdr4]
      simp only [bind_ok]
      rw [parseProposal_enc p hw]
      simp only [bind_ok]
      rw [ih (fun x hx => h x (by simp [hx])) f (p :: acc) (by simp at hf; omega)]
      simp

/-- well-formed payload bodies, per payload type -/
def Body.Wf : Body → Prop
  | .sa ps => ps ≠ [] ∧ ∀ p ∈ ps, p.Wf
  | .ke g _ => g < 65536
  | .ident t _ => t < 256
  | .auth m _ => m < 256
  | .nonce d => 16 ≤ d.length ∧ d.length ≤ 256
  | .notify proto nt spi _ => proto < 256 ∧ nt < 65536 ∧ spi.length < 256
  | .delete proto spis => proto < 256 ∧ spis.length < 65536 ∧
      (match spis with | [] => True | s :: _ => s.length < 256 ∧ ∀ x ∈ spis, x.length = s.length)
  | .vendor d => d ≠ []
  | .ts sels => sels.length < 256 ∧ ∀ s ∈ sels, s.tsType < 256 ∧ s.ipProto < 256 ∧ s.startPort < 65536 ∧
      s.endPort < 65536 ∧ (if s.tsType = 7 then s.startAddr.length = 4 ∧ s.endAddr.length = 4
                           else s.startAddr.length = 16 ∧ s.endAddr.length = 16)
  | .sk _ _ => True

/-- the payload type a body travels under -/
def Body.typeOk : Nat → Body → Prop
  | pt, .sa _ => pt = 33
  | pt, .ke _ _ => pt = 34
  | pt, .ident _ _ => pt = 35 ∨ pt = 36
  | pt, .auth _ _ => pt = 39
  | pt, .nonce _ => pt = 40
  | pt, .notify _ _ _ _ => pt = 41
  | pt, .delete _ _ => pt = 42
  | pt, .vendor _ => pt = 43
  | pt, .ts _ => pt = 44 ∨ pt = 45
  | pt, .sk _ _ => pt = 46

theorem parseSA_enc (ps : List Proposal) (h : (Body.sa ps).Wf) : parseSA (encProposals ps) = .ok (.sa ps) := by
  obtain ⟨hne, hw⟩ := h
  unfold parseSA
  rw [parseProposals_enc ps hw _ [] (by have := encProposals_length_ge ps; omega)]
  simp [hne]

theorem parseKE_enc (g : Nat) (d : Bytes) (h : g < 65536) : parseKE (encBody (.ke g d)) = .ok (.ke g d) := by
  unfold parseKE encBody
  simp [w16]
  omega

theorem parseID_enc (t : Nat) (d : Bytes) (h : t < 256) : parseID (encBody (.ident t d)) = .ok (.ident t d) := by
  unfold parseID encBody
  simp [Nat.mod_eq_of_lt h]

theorem parseAuth_enc (t : Nat) (d : Bytes) (h : t < 256) : parseAuth (encBody (.auth t d)) = .ok (.auth t d) := by
  unfold parseAuth encBody
  simp [Nat.mod_eq_of_lt h]

theorem parseNotify_enc (proto nt : Nat) (spi d : Bytes) (h : (Body.notify proto nt spi d).Wf) :
    parseNotify (encBody (.notify proto nt spi d)) = .ok (.notify proto nt spi d) := by
  obtain ⟨h1, h2, h3⟩ := h
  unfold parseNotify encBody
  simp only [w16, List.cons_append, List.nil_append, List.length_cons, List.length_append,
    Nat.mod_eq_of_lt h1, Nat.mod_eq_of_lt h3, u8_zero, u8_one, u16_two]
  rw [need_ok _ _ _ (by omega)]
  simp only [bind_ok, pure_eq]
  have hdrop : (proto :: spi.length :: nt / 256 % 256 :: nt % 256 :: (spi ++ d)).drop (4 + spi.length) = d := by
    rw [Nat.add_comm]; exact drop_hdr4 _ _ _ _ _ _
  rw [hdrop]
  have hnt : nt / 256 % 256 * 256 + nt % 256 = nt := by omega
  rw [hnt]
  by_cases hs : spi.length > 0
  · simp only [hs, if_true, slice_spi]
  · have : spi = [] := List.eq_nil_of_length_eq_zero (by omega)
    simp [this]

end PyIkev2.Impl

namespace PyIkev2.Impl
open PyIkev2 PyIkev2.Res

theorem takeSpis_flatten (spis : List Bytes) (size : Nat) (h : ∀ x ∈ spis, x.length = size) (tail : Bytes) :
    takeSpis spis.length size (spis.flatten ++ tail) = spis := by
  induction spis with
  | nil => simp [takeSpis]
  | cons s rest ih =>
    have hs : s.length = size := h s (by simp)
    simp only [List.length_cons, takeSpis, List.flatten_cons, List.append_assoc]
    rw [← hs]
    simp only [List.take_left', List.drop_left']
    rw [hs, ih (fun x hx => h x (by simp [hx]))]

theorem parseDelete_enc (proto : Nat) (spis : List Bytes) (h : (Body.delete proto spis).Wf) :
    parseDelete (encBody (.delete proto spis)) = .ok (.delete proto spis) := by
  obtain ⟨h1, h2, h3⟩ := h
  unfold parseDelete encBody
  have hn : spis.length / 256 % 256 * 256 + spis.length % 256 = spis.length := by omega
  cases spis with
  | nil => simp [w16, takeSpis, Nat.mod_eq_of_lt h1]
  | cons s rest =>
    simp only at h3
    obtain ⟨hs, hall⟩ := h3
    simp only [w16, List.cons_append, List.nil_append, List.length_cons, List.length_append,
      Nat.mod_eq_of_lt h1, Nat.mod_eq_of_lt hs, u8_zero, u8_one, u16_two]
    rw [need_ok _ _ _ (by omega)]
    simp only [bind_ok, pure_eq, List.drop_succ_cons, List.drop_zero]
    simp only [List.length_cons] at hn
    rw [hn]
    have := takeSpis_flatten (s :: rest) s.length hall []
    simp only [List.length_cons, List.append_nil] at this
    rw [this]

def TS.Wf (s : TS) : Prop :=
  s.tsType < 256 ∧ s.ipProto < 256 ∧ s.startPort < 65536 ∧ s.endPort < 65536 ∧
    (if s.tsType = 7 then s.startAddr.length = 4 ∧ s.endAddr.length = 4
     else s.startAddr.length = 16 ∧ s.endAddr.length = 16)

theorem slice8a (a b c d e f g h : Nat) (x y : Bytes) :
    slice (a :: b :: c :: d :: e :: f :: g :: h :: (x ++ y)) 8 (8 + x.length) = x := by
  simp [slice, Nat.add_comm 8]

theorem slice8b (a b c d e f g h : Nat) (x y : Bytes) (hy : y.length = x.length) :
    slice (a :: b :: c :: d :: e :: f :: g :: h :: (x ++ y)) (8 + x.length) (8 + 2 * x.length) = y := by
  have : 8 + 2 * x.length = (x.length + y.length) + 8 := by omega
  simp only [slice, this, List.take_succ_cons]
  rw [← List.length_append, List.take_length]
  simp [Nat.add_comm 8]

theorem encSel_eq (s : TS) :
    encSel s = (s.tsType % 256) :: (s.ipProto % 256) :: ((8 + (if s.tsType = 7 then 4 else 16) * 2) / 256 % 256) ::
      ((8 + (if s.tsType = 7 then 4 else 16) * 2) % 256) :: (s.startPort / 256 % 256) :: (s.startPort % 256) ::
      (s.endPort / 256 % 256) :: (s.endPort % 256) :: (s.startAddr ++ s.endAddr) := by
  simp [encSel, w16]

theorem encSel_length (s : TS) (h : s.Wf) :
    (encSel s).length = 8 + 2 * (if s.tsType = 7 then 4 else 16) := by
  obtain ⟨_, _, _, _, h5⟩ := h
  rw [encSel_eq]
  by_cases ht : s.tsType = 7
  · simp only [ht, if_true] at h5 ⊢; simp [h5.1, h5.2]
  · simp only [ht, if_false] at h5 ⊢; simp [h5.1, h5.2]

theorem parseSel_explicit (t p l1 l2 s1 s2 e1 e2 : Nat) (sa ea : Bytes)
    (hl : sa.length = (if t = 7 then 4 else 16)) (hl2 : ea.length = sa.length) :
    parseSel (t :: p :: l1 :: l2 :: s1 :: s2 :: e1 :: e2 :: (sa ++ ea)) =
      .ok { tsType := t, ipProto := p, startPort := s1 * 256 + s2, endPort := e1 * 256 + e2,
            startAddr := sa, endAddr := ea } := by
  have e1' := slice8a t p l1 l2 s1 s2 e1 e2 sa ea
  have e2' := slice8b t p l1 l2 s1 s2 e1 e2 sa ea hl2
  unfold parseSel
  simp only [List.length_cons, List.length_append, u8_zero, u8_one]
  rw [need_ok _ _ _ (by omega), bind_ok]
  by_cases ht : t = 7
  · subst ht
    simp only [if_true] at hl ⊢
    rw [need_ok _ _ _ (by omega), bind_ok]
    rw [hl] at e1' e2'
    simp only [pure_eq]
    rw [e1', e2']
    rfl
  · simp only [ht, if_false] at hl ⊢
    rw [need_ok _ _ _ (by omega), bind_ok]
    rw [hl] at e1' e2'
    simp only [pure_eq]
    rw [e1', e2']
    rfl

theorem parseSel_enc (s : TS) (h : s.Wf) : parseSel (encSel s) = .ok s := by
  unfold TS.Wf at h
  obtain ⟨tsType, ipProto, sp, ep, sa, ea⟩ := s
  dsimp only at h
  have h1 := h.1
  have h2 := h.2.1
  have h3 := h.2.2.1
  have h4 := h.2.2.2.1
  have h5 := h.2.2.2.2
  have ht : tsType % 256 = tsType := by omega
  have hp : ipProto % 256 = ipProto := by omega
  have hsp := w16_val sp h3
  have hep := w16_val ep h4
  have hsa : sa.length = (if tsType = 7 then 4 else 16) := by split at h5 <;> simp_all
  have hea : ea.length = sa.length := by split at h5 <;> omega
  have := parseSel_explicit tsType ipProto ((8 + (if tsType = 7 then 4 else 16) * 2) / 256 % 256)
    ((8 + (if tsType = 7 then 4 else 16) * 2) % 256) (sp / 256 % 256) (sp % 256) (ep / 256 % 256) (ep % 256)
    sa ea hsa hea
  rw [hsp, hep] at this
  rw [← this, encSel_eq]
  dsimp only
  rw [ht, hp]

end PyIkev2.Impl

namespace PyIkev2.Impl
open PyIkev2 PyIkev2.Res

theorem encSel_len_field (s : TS) (h : s.Wf) (tail : Bytes) :
    (encSel s ++ tail) ≠ [] ∧ 4 ≤ (encSel s ++ tail).length ∧ u16 (encSel s ++ tail) 2 = (encSel s).length := by
  have hl := encSel_length s h
  rw [encSel_eq] at hl ⊢
  refine ⟨by simp, by simp, ?_⟩
  simp only [List.cons_append, u16_two]
  rw [hl]
  split <;> rfl

theorem parseSels_enc (sels : List TS) (h : ∀ s ∈ sels, s.Wf) (fuel : Nat) (acc : List TS)
    (hf : sels.length < fuel) :
    parseSels fuel (sels.map encSel).flatten acc = .ok (acc.reverse ++ sels) := by
  induction sels generalizing fuel acc with
  | nil =>
    cases fuel with
    | zero => omega
    | succ f => simp [parseSels]
  | cons s rest ih =>
    cases fuel with
    | zero => omega
    | succ f =>
      have hw := h s (by simp)
      obtain ⟨hne, h4, hlen⟩ := encSel_len_field s hw (rest.map encSel).flatten
      simp only [List.map_cons, List.flatten_cons]
      unfold parseSels
      simp only [hne, if_false]
      rw [need_ok _ _ _ h4, bind_ok, hlen, List.take_left' rfl, parseSel_enc s hw, bind_ok, List.drop_left' rfl]
      rw [ih (fun x hx => h x (by simp [hx])) f (s :: acc) (by simp at hf; omega)]
      simp

theorem encSels_length_ge (sels : List TS) : sels.length ≤ (sels.map encSel).flatten.length := by
  induction sels with
  | nil => simp
  | cons s rest ih =>
    simp only [List.map_cons, List.flatten_cons, List.length_cons, List.length_append]
    have : 1 ≤ (encSel s).length := by rw [encSel_eq]; simp
    omega

theorem parseTS_enc (sels : List TS) (h : (Body.ts sels).Wf) :
    parseTS (encBody (.ts sels)) = .ok (.ts sels) := by
  obtain ⟨h1, h2⟩ := h
  unfold parseTS encBody
  simp only [List.cons_append, List.nil_append, List.length_cons, u8_zero, Nat.mod_eq_of_lt h1]
  rw [need_ok _ _ _ (by omega), bind_ok]
  simp only [List.drop_succ_cons, List.drop_zero]
  rw [parseSels_enc sels (fun s hs => h2 s hs) _ [] (by have := encSels_length_ge sels; omega)]
  simp

theorem parseBody_enc (pt : Nat) (b : Body) (hw : b.Wf) (ht : b.typeOk pt) :
    parseBody pt (encBody b) = some (.ok (unSK b)) := by
  unfold unSK
  cases b with
  | sa ps =>
    simp only [Body.typeOk] at ht; subst ht
    simp only [parseBody, encBody, if_true]
    rw [parseSA_enc ps hw]
  | ke g d =>
    simp only [Body.typeOk] at ht; subst ht
    simp only [parseBody]
    simp only [show ¬ (34 = 33) by decide, if_false, if_true]
    rw [parseKE_enc g d hw]
  | ident t d =>
    simp only [Body.typeOk] at ht
    have : parseBody pt (encBody (.ident t d)) = some (parseID (encBody (.ident t d))) := by
      rcases ht with rfl | rfl <;> simp [parseBody]
    rw [this, parseID_enc t d hw]
  | auth m d =>
    simp only [Body.typeOk] at ht; subst ht
    simp only [parseBody]
    simp only [show ¬ (39 = 33) by decide, show ¬ (39 = 34) by decide, show ¬ (39 = 35 ∨ 39 = 36) by decide,
      if_false, if_true]
    rw [parseAuth_enc m d hw]
  | nonce d =>
    simp only [Body.typeOk] at ht; subst ht
    obtain ⟨h1, h2⟩ := hw
    simp [parseBody, parseNonce, encBody]
    omega
  | notify proto nt spi d =>
    simp only [Body.typeOk] at ht; subst ht
    have : parseBody 41 (encBody (.notify proto nt spi d)) = some (parseNotify (encBody (.notify proto nt spi d))) := by
      simp [parseBody]
    rw [this, parseNotify_enc proto nt spi d hw]
  | delete proto spis =>
    simp only [Body.typeOk] at ht; subst ht
    have : parseBody 42 (encBody (.delete proto spis)) = some (parseDelete (encBody (.delete proto spis))) := by
      simp [parseBody]
    rw [this, parseDelete_enc proto spis hw]
  | vendor d =>
    simp only [Body.typeOk] at ht; subst ht
    have hne : d ≠ [] := hw
    simp [parseBody, parseVendor, encBody, hne]
  | ts sels =>
    simp only [Body.typeOk] at ht
    have : parseBody pt (encBody (.ts sels)) = some (parseTS (encBody (.ts sels))) := by
      rcases ht with rfl | rfl <;> simp [parseBody]
    rw [this, parseTS_enc sels hw]
  | sk ct inner =>
    simp only [Body.typeOk] at ht; subst ht
    simp [parseBody, encBody]

end PyIkev2.Impl

namespace PyIkev2.Impl
open PyIkev2 PyIkev2.Res

def Body.isSK : Body → Bool
  | .sk _ _ => true
  | _ => false

def Payload.Wf (p : Payload) : Prop :=
  p.critical = false ∧ p.body.Wf ∧ p.body.typeOk p.ptype ∧ (encBody p.body).length + 4 < 65536

/-- a payload list `to_bytes` can express: SK (if any) is last and names the first inner type -/
def chainWf : List Payload → Prop
  | [] => True
  | [p] => p.Wf ∧ (match p.body with | .sk _ inner => inner < 256 | _ => True)
  | p :: q :: rest => p.Wf ∧ p.body.isSK = false ∧ chainWf (q :: rest)

theorem typeOk_range {pt : Nat} {b : Body} (h : b.typeOk pt) : pt ≠ 0 ∧ pt < 256 := by
  cases b <;> simp only [Body.typeOk] at h <;> omega

theorem encChain_cons (p : Payload) (rest : List Payload) :
    encChain (p :: rest) =
      ((match rest with | [] => lastNext p | q :: _ => q.ptype) % 256) :: 0 ::
        ((encBody p.body).length + 4) / 256 % 256 :: ((encBody p.body).length + 4) % 256 ::
        (encBody p.body ++ encChain rest) := by
  cases rest with
  | nil => simp [encChain, w16]
  | cons q qs => simp [encChain, w16]

theorem encChain_length_ge (ps : List Payload) : 4 * ps.length ≤ (encChain ps).length := by
  induction ps with
  | nil => simp [encChain]
  | cons p rest ih =>
    rw [encChain_cons]
    simp only [List.length_cons, List.length_append]
    omega

theorem fixSK_nonSK (b : Body) (n : Nat) (h : b.isSK = false) :
    fixSK (unSK b) n = b ∧ nextAfter (unSK b) n = n := by
  cases b <;> simp_all [fixSK, nextAfter, Body.isSK, unSK]

theorem parseChain_enc_tail (ps : List Payload) (h : chainWf ps) (tail : Bytes) (fuel : Nat) (acc : List Payload)
    (hf : ps.length < fuel) :
    parseChain fuel (encChain ps ++ tail) (firstType ps) acc =
      (if tail = [] then .ok (acc.reverse ++ ps) else .invalidSyntax) := by
  induction ps generalizing fuel acc with
  | nil =>
    cases fuel with
    | zero => omega
    | succ f => by_cases ht : tail = [] <;> simp [parseChain, encChain, firstType, ht]
  | cons p rest ih =>
    cases fuel with
    | zero => omega
    | succ f =>
      have hpw : p.Wf := by
        cases rest with
        | nil => exact h.1
        | cons q qs => exact h.1
      obtain ⟨hcrit, hbw, hto, hlen⟩ := hpw
      obtain ⟨hpt0, hpt⟩ := typeOk_range hto
      rw [encChain_cons]
      unfold parseChain
      simp only [firstType, hpt0, if_false, List.cons_append, List.append_assoc, List.length_cons,
        List.length_append, u8_zero, u8_one, u16_two]
      rw [need_ok _ _ _ (by omega), bind_ok]
      rw [w16_val _ hlen]
      have hnl : ¬ (Gen.Codec.chain_minlen_check = true ∧ (encBody p.body).length + 4 < 4) := by omega
      simp only [hnl, if_false, slice_hdr4, parseBody_enc p.ptype p.body hbw hto, bind_ok]
      have hle : ¬ ((encBody p.body).length + 4 >
          (encBody p.body).length + ((encChain rest).length + tail.length) + 1 + 1 + 1 + 1) := by omega
      simp only [hle, if_false, drop_hdr4]
      cases rest with
      | nil =>
        simp only [encChain, List.nil_append]
        cases f with
        | zero => simp at hf
        | succ f' =>
          have hlast := h.2
          obtain ⟨pt, crit, body⟩ := p
          simp only at hcrit hlast hbw hto hlen ⊢
          subst hcrit
          cases body with
          | sk ct inner =>
            simp only at hlast
            by_cases ht : tail = [] <;>
              simp [parseChain, fixSK, nextAfter, lastNext, unSK, Nat.mod_eq_of_lt hlast, Nat.ble, ht]
          | _ => by_cases ht : tail = [] <;> simp [parseChain, fixSK, nextAfter, lastNext, unSK, Nat.ble, ht]
      | cons q qs =>
        obtain ⟨_, hnsk, hrest⟩ := h
        obtain ⟨hfix, hnext⟩ := fixSK_nonSK p.body (q.ptype % 256) hnsk
        have hqw : q.Wf := by
          cases qs with
          | nil => exact hrest.1
          | cons r rs => exact hrest.1
        obtain ⟨_, hq⟩ := typeOk_range hqw.2.2.1
        rw [hfix, hnext, Nat.mod_eq_of_lt hq]
        have := ih hrest f ({ ptype := p.ptype, critical := Nat.ble 128 0, body := p.body } :: acc)
          (by simp at hf; omega)
        simp only [firstType] at this
        rw [this]
        obtain ⟨pt, crit, body⟩ := p
        simp only at hcrit
        subst hcrit
        by_cases ht : tail = [] <;> simp [Nat.ble, ht]

theorem parseChain_enc (ps : List Payload) (h : chainWf ps) (fuel : Nat) (acc : List Payload)
    (hf : ps.length < fuel) :
    parseChain fuel (encChain ps) (firstType ps) acc = .ok (acc.reverse ++ ps) := by
  have := parseChain_enc_tail ps h [] fuel acc hf
  simpa using this

end PyIkev2.Impl

namespace PyIkev2.Impl
open PyIkev2 PyIkev2.Res

def Header.Wf (h : Header) : Prop :=
  h.spiI.length = 8 ∧ h.spiR.length = 8 ∧ h.major < 16 ∧ h.minor < 16 ∧ h.exch < 256 ∧ h.msgId < 4294967296

theorem w32_val (n : Nat) (h : n < 4294967296) :
    ((n / 16777216 % 256 * 256 + n / 65536 % 256) * 256 + n / 256 % 256) * 256 + n % 256 = n := by omega

theorem pad8_of_len (b : Bytes) (h : b.length = 8) : pad8 b = b := by
  unfold pad8
  rw [List.take_append_of_le_length (by omega), List.take_of_length_le (by omega)]

theorem flags_rt (r h i : Bool) :
    Nat.ble 1 ((b2n r * 32 + b2n h * 16 + b2n i * 8) / 32 % 2) = r ∧
    Nat.ble 1 ((b2n r * 32 + b2n h * 16 + b2n i * 8) / 16 % 2) = h ∧
    Nat.ble 1 ((b2n r * 32 + b2n h * 16 + b2n i * 8) / 8 % 2) = i := by
  cases r <;> cases h <;> cases i <;> decide

/-- the 28 header octets, spelled out -/
theorem encHeader_eq (h : Header) (hw : h.Wf) (first total : Nat) :
    ∃ a0 a1 a2 a3 a4 a5 a6 a7 b0 b1 b2 b3 b4 b5 b6 b7,
      h.spiI = [a0, a1, a2, a3, a4, a5, a6, a7] ∧ h.spiR = [b0, b1, b2, b3, b4, b5, b6, b7] ∧
      encHeader h first total =
        [a0, a1, a2, a3, a4, a5, a6, a7, b0, b1, b2, b3, b4, b5, b6, b7,
         first % 256, (h.major * 16 + h.minor % 16) % 256, h.exch % 256,
         b2n h.isResp * 32 + b2n h.higher * 16 + b2n h.isInit * 8] ++ w32 h.msgId ++ w32 total := by
  obtain ⟨h1, h2, _⟩ := hw
  obtain ⟨si, sr, _⟩ := h
  simp only at h1 h2 ⊢
  match si, h1 with
  | [a0, a1, a2, a3, a4, a5, a6, a7], _ =>
    match sr, h2 with
    | [b0, b1, b2, b3, b4, b5, b6, b7], _ =>
      exact ⟨a0, a1, a2, a3, a4, a5, a6, a7, b0, b1, b2, b3, b4, b5, b6, b7, rfl, rfl, by simp [encHeader, pad8]⟩

theorem parseHeader_enc (h : Header) (hw : h.Wf) (first total : Nat) (tail : Bytes) :
    parseHeader (encHeader h first total ++ tail) = .ok h ∧
    (encHeader h first total ++ tail).drop 28 = tail ∧
    u8 (encHeader h first total ++ tail) 16 = first % 256 := by
  obtain ⟨a0, a1, a2, a3, a4, a5, a6, a7, b0, b1, b2, b3, b4, b5, b6, b7, hi, hr, he⟩ := encHeader_eq h hw first total
  obtain ⟨_, _, h3, h4, h5, h6⟩ := hw
  rw [he]
  refine ⟨?_, by simp [w32], by simp [u8]⟩
  unfold parseHeader
  simp only [w32, List.cons_append, List.nil_append, List.length_cons]
  rw [need_ok _ _ _ (by omega), bind_ok]
  obtain ⟨f1, f2, f3⟩ := flags_rt h.isResp h.higher h.isInit
  have hm := w32_val h.msgId h6
  obtain ⟨si, sr, major, minor, exch, r, hg, i, mid⟩ := h
  simp only at hi hr h3 h4 h5 h6 f1 f2 f3 hm ⊢
  subst hi hr
  simp only [pure_eq, u8, u32, slice, List.getD_cons_succ, List.getD_cons_zero, List.take_succ_cons,
    List.take_zero, List.drop_succ_cons, List.drop_zero, f1, f2, f3, hm]
  have e1 : (major * 16 + minor % 16) % 256 / 16 = major := by omega
  have e2 : (major * 16 + minor % 16) % 256 % 16 = minor := by omega
  have e3 : exch % 256 = exch := by omega
  rw [e1, e2, e3]

/-- a message in the clear that `to_bytes` can express -/
def Msg.WfClear (m : Msg) : Prop :=
  m.hdr.Wf ∧ chainWf m.payloads ∧ m.enc = [] ∧ m.iv = none ∧
  (∀ p ∈ m.payloads, p.body.isSK = false)

theorem firstType_lt (ps : List Payload) (h : chainWf ps) : firstType ps < 256 := by
  cases ps with
  | nil => simp [firstType]
  | cons p rest =>
    have hpw : p.Wf := by
      cases rest with
      | nil => exact h.1
      | cons q qs => exact h.1
    exact (typeOk_range hpw.2.2.1).2

theorem getLast_nonSK (ps : List Payload) (h : ∀ p ∈ ps, p.body.isSK = false) :
    ∀ p, ps.getLast? = some p → p.body.isSK = false := by
  intro p hp
  exact h p (List.mem_of_getLast? hp)

theorem parseMsg_enc_clear (m : Msg) (h : m.WfClear) :
    parseMsg (encMsg m none) false none = .ok m := by
  obtain ⟨hh, hc, he, hiv, hnsk⟩ := h
  unfold parseMsg encMsg
  simp only
  obtain ⟨e1, e2, e3⟩ := parseHeader_enc m.hdr hh (firstType m.payloads) (28 + (encChain m.payloads).length)
    (encChain m.payloads)
  rw [e1, bind_ok]
  simp only [Bool.false_eq_true, if_false]
  rw [e2, e3, Nat.mod_eq_of_lt (firstType_lt _ hc)]
  rw [parseChain_enc m.payloads hc _ [] (by have := encChain_length_ge m.payloads; omega)]
  simp only [bind_ok, List.reverse_nil, List.nil_append]
  obtain ⟨hdr, ps, enc, iv⟩ := m
  simp only at he hiv hnsk ⊢
  subst he hiv
  rfl

end PyIkev2.Impl

namespace PyIkev2.Impl
open PyIkev2 PyIkev2.Res

/-- algebraic laws of the negotiated cipher / integrity pair used by the round-trip theorems -/
structure CryptoCtx.Sound (c : CryptoCtx) : Prop where
  block_pos : 0 < c.block
  mac_len : ∀ d, (c.mac d).length = c.icvLen
  enc_len : ∀ iv pt, (c.enc iv pt).length = pt.length
  dec_enc : ∀ iv pt, iv.length = c.block → pt.length % c.block = 0 → c.dec iv (c.enc iv pt) = .ok pt

def skPayload (body : Bytes) (inner : Nat) : Payload := { ptype := 46, critical := false, body := .sk body inner }

/-- everything `_payloads_to_bytes` writes before the body of a trailing SK payload -/
def chainPrefix : List Payload → Nat → Nat → Bytes
  | [], L, inner => [inner % 256, 0] ++ w16 (L + 4)
  | q :: rest, L, inner =>
      [(match rest with | [] => 46 | r :: _ => r.ptype) % 256, 0] ++ w16 ((encBody q.body).length + 4) ++
        encBody q.body ++ chainPrefix rest L inner

theorem encChain_snoc_sk (qs : List Payload) (body : Bytes) (inner : Nat) :
    encChain (qs ++ [skPayload body inner]) = chainPrefix qs body.length inner ++ body := by
  induction qs with
  | nil => simp [encChain, chainPrefix, skPayload, lastNext, encBody]
  | cons q rest ih =>
    rw [List.cons_append, encChain_cons, ih]
    cases rest with
    | nil => simp [chainPrefix, w16, skPayload]
    | cons r rs => simp [chainPrefix, w16]

theorem dropLast_append (a b : Bytes) : dropLast (a ++ b) b.length = a := by
  simp [dropLast]

theorem takeLast_append (a b : Bytes) : takeLast (a ++ b) b.length = b := by
  simp [takeLast]

theorem chainWf_snoc (qs : List Payload) (s : Payload) (hq : ∀ p ∈ qs, p.Wf ∧ p.body.isSK = false)
    (hs : chainWf [s]) : chainWf (qs ++ [s]) := by
  induction qs with
  | nil => exact hs
  | cons q rest ih =>
    have hrest := ih (fun p hp => hq p (by simp [hp]))
    obtain ⟨hqw, hqs⟩ := hq q (by simp)
    cases rest with
    | nil => exact ⟨hqw, hqs, hrest⟩
    | cons r rs => exact ⟨hqw, hqs, hrest⟩

theorem firstType_snoc (qs : List Payload) (s : Payload) :
    firstType (qs ++ [s]) = (match qs with | [] => s.ptype | q :: _ => q.ptype) := by
  cases qs <;> rfl

/-- a protected message `to_bytes` can express under the key context `c` -/
def Msg.WfEnc (m : Msg) (c : CryptoCtx) : Prop :=
  m.hdr.Wf ∧ (∀ p ∈ m.payloads, p.Wf ∧ p.body.isSK = false) ∧ chainWf m.enc ∧
  (∃ iv, m.iv = some iv ∧ iv.length = c.block) ∧
  c.block + ((encChain m.enc).length + (c.block - (encChain m.enc).length % c.block - 1) + 1) + c.icvLen + 4 < 65536

theorem padded_len (n b : Nat) (hb : 0 < b) : (n + (b - n % b - 1) + 1) % b = 0 ∧ 0 < n + (b - n % b - 1) + 1 := by
  have hlt := Nat.mod_lt n hb
  have h1 : n + (b - n % b - 1) + 1 = n - n % b + b := by
    have := Nat.mod_le n b
    omega
  have h2 : n - n % b = b * (n / b) := by
    have := Nat.div_add_mod n b
    omega
  refine ⟨?_, by omega⟩
  rw [h1, h2, Nat.add_mod, Nat.mul_mod_right, Nat.mod_self]; simp

theorem parseMsg_enc_protected (m : Msg) (c : CryptoCtx) (S : c.Sound) (h : m.WfEnc c) :
    parseMsg (encMsg m (some c)) false (some c) = .ok m := by
  obtain ⟨hh, hq, hencw, ⟨iv, hiv, hivl⟩, hsz⟩ := h
  unfold encMsg
  simp only [hiv, Option.getD_some]
  -- name the pieces
  generalize hclear : encChain m.enc = clear at hsz ⊢
  generalize hpad : clear ++ List.replicate (c.block - clear.length % c.block - 1) 0 ++
    [c.block - clear.length % c.block - 1] = padded
  have hpl : padded.length = clear.length + (c.block - clear.length % c.block - 1) + 1 := by
    rw [← hpad]; simp; omega
  obtain ⟨hpmod, hppos⟩ := padded_len clear.length c.block S.block_pos
  unfold genSK
  simp only [hpad]
  generalize hE : c.enc iv padded = E
  have hEl : E.length = padded.length := by rw [← hE]; exact S.enc_len _ _
  have hfold : ∀ body, ({ ptype := 46, critical := false, body := Body.sk body (firstType m.enc) } : Payload)
      = skPayload body (firstType m.enc) := fun _ => rfl
  rw [hfold, encChain_snoc_sk]
  have hbl : (iv ++ E ++ List.replicate c.icvLen 0).length = (iv ++ E).length + c.icvLen := by simp; omega
  -- the data before the checksum is patched in
  generalize hH : encHeader m.hdr (firstType (m.payloads ++ [skPayload (iv ++ E ++ List.replicate c.icvLen 0) (firstType m.enc)]))
    (28 + (chainPrefix m.payloads (iv ++ E ++ List.replicate c.icvLen 0).length (firstType m.enc) ++
      (iv ++ E ++ List.replicate c.icvLen 0)).length) = H
  have hsigned : dropLast (H ++ (chainPrefix m.payloads (iv ++ E ++ List.replicate c.icvLen 0).length (firstType m.enc) ++
      (iv ++ E ++ List.replicate c.icvLen 0))) c.icvLen
      = H ++ chainPrefix m.payloads (iv ++ E ++ List.replicate c.icvLen 0).length (firstType m.enc) ++ (iv ++ E) := by
    have := dropLast_append (H ++ chainPrefix m.payloads (iv ++ E ++ List.replicate c.icvLen 0).length (firstType m.enc) ++ (iv ++ E))
      (List.replicate c.icvLen 0)
    simp only [List.length_replicate, List.append_assoc] at this ⊢
    exact this
  rw [hsigned]
  generalize hsg : H ++ chainPrefix m.payloads (iv ++ E ++ List.replicate c.icvLen 0).length (firstType m.enc) ++ (iv ++ E) = signed
  generalize hmac : c.mac signed = macv
  have hml : macv.length = c.icvLen := by rw [← hmac]; exact S.mac_len _
  -- the final bytes are the encoding of the same chain with the checksum inside the SK body
  have hbl2 : (iv ++ E ++ macv).length = (iv ++ E ++ List.replicate c.icvLen 0).length := by simp [hml]
  have hfinal : signed ++ macv = H ++ encChain (m.payloads ++ [skPayload (iv ++ E ++ macv) (firstType m.enc)]) := by
    rw [encChain_snoc_sk, hbl2, ← hsg]; simp
  have hft : firstType (m.payloads ++ [skPayload (iv ++ E ++ macv) (firstType m.enc)]) =
      firstType (m.payloads ++ [skPayload (iv ++ E ++ List.replicate c.icvLen 0) (firstType m.enc)]) := by
    rw [firstType_snoc, firstType_snoc]; cases m.payloads <;> rfl
  have hskw : chainWf [skPayload (iv ++ E ++ macv) (firstType m.enc)] := by
    refine ⟨⟨rfl, trivial, rfl, ?_⟩, firstType_lt _ hencw⟩
    simp only [skPayload, encBody, List.length_append, hml, hEl, hpl, hivl]
    omega
  have hcw := chainWf_snoc m.payloads _ hq hskw
  unfold parseMsg
  rw [hfinal, ← hH]
  obtain ⟨e1, e2, e3⟩ := parseHeader_enc m.hdr hh
    (firstType (m.payloads ++ [skPayload (iv ++ E ++ List.replicate c.icvLen 0) (firstType m.enc)]))
    (28 + (chainPrefix m.payloads (iv ++ E ++ List.replicate c.icvLen 0).length (firstType m.enc) ++
      (iv ++ E ++ List.replicate c.icvLen 0)).length)
    (encChain (m.payloads ++ [skPayload (iv ++ E ++ macv) (firstType m.enc)]))
  rw [e1, bind_ok]
  simp only [Bool.false_eq_true, if_false]
  have e3' := e3.trans (congrArg (· % 256) hft.symm)
  rw [e2, e3', Nat.mod_eq_of_lt (firstType_lt _ hcw)]
  rw [parseChain_enc _ hcw _ [] (by have := encChain_length_ge (m.payloads ++ [skPayload (iv ++ E ++ macv) (firstType m.enc)]); omega)]
  simp only [bind_ok, List.reverse_nil, List.nil_append, List.getLast?_append, List.getLast?_singleton,
    Option.some_or, skPayload]
  -- checksum
  unfold finishSK
  have hd1 : dropLast (H ++ encChain (m.payloads ++ [skPayload (iv ++ E ++ macv) (firstType m.enc)])) c.icvLen = signed := by
    rw [← hfinal, ← hml]; exact dropLast_append _ _
  have hd2 : takeLast (H ++ encChain (m.payloads ++ [skPayload (iv ++ E ++ macv) (firstType m.enc)])) c.icvLen = macv := by
    rw [← hfinal, ← hml]; exact takeLast_append _ _
  have hH' := hH
  simp only [skPayload] at hd1 hd2 hH'
  rw [hH']
  simp only [hd1, hd2, hmac, ne_eq, not_true_eq_false, if_false]
  -- decrypt
  have hdec : decryptSK c (iv ++ E ++ macv) = .ok (iv, clear) := by
    unfold decryptSK
    have t1 : (iv ++ E ++ macv).take c.block = iv := by
      rw [List.append_assoc, ← hivl]; simp
    have t2 : dropLast ((iv ++ E ++ macv).drop c.block) c.icvLen = E := by
      rw [List.append_assoc, ← hivl, List.drop_left' rfl, ← hml]; exact dropLast_append _ _
    simp only [t1, t2]
    have hcond : ¬ (Gen.Codec.sk_len_check = true ∧ (iv.length ≠ c.block ∨ E.length = 0 ∨ E.length % c.block ≠ 0)) := by
      rw [hEl, hpl]; intro hc; rcases hc.2 with h | h | h <;> omega
    simp only [hcond, if_false]
    rw [← hE, S.dec_enc iv padded hivl (by rw [hpl]; exact hpmod), bind_ok]
    have hp0 : padded.length ≠ 0 := by omega
    simp only [hp0, if_false, pure_eq]
    have hlast : padded.getD (padded.length - 1) 0 = c.block - clear.length % c.block - 1 := by
      rw [← hpad]; simp
    rw [hlast]
    have : padded.take (padded.length - (1 + (c.block - clear.length % c.block - 1))) = clear := by
      rw [hpl]
      have : clear.length + (c.block - clear.length % c.block - 1) + 1 - (1 + (c.block - clear.length % c.block - 1))
          = clear.length := by omega
      rw [this, ← hpad, List.append_assoc]; simp
    rw [this]
  rw [hdec, bind_ok]
  simp only
  rw [← hclear, parseChain_enc m.enc hencw _ [] (by have := encChain_length_ge m.enc; omega)]
  simp only [bind_ok, List.reverse_nil, List.nil_append, pure_eq, List.dropLast_concat]
  obtain ⟨hdr, ps, enc, miv⟩ := m
  simp only at hiv ⊢
  rw [hiv]

end PyIkev2.Impl

namespace PyIkev2.Impl
open PyIkev2 PyIkev2.Res

/-- the plaintext handed to the cipher by `PayloadSK.generate` -/
def padPlain (block : Nat) (clear : Bytes) : Bytes :=
  clear ++ List.replicate (block - clear.length % block - 1) 0 ++ [block - clear.length % block - 1]

/-- shape of a protected message: header, everything `_payloads_to_bytes` writes before the SK
    body, IV, ciphertext — then the MAC of exactly those octets -/
theorem encMsg_protected_shape (m : Msg) (c : CryptoCtx) (iv : Bytes) (hiv : m.iv = some iv) :
    ∃ first total L,
      encMsg m (some c) =
        (encHeader m.hdr first total ++ chainPrefix m.payloads L (firstType m.enc) ++
          (iv ++ c.enc iv (padPlain c.block (encChain m.enc)))) ++
        c.mac (encHeader m.hdr first total ++ chainPrefix m.payloads L (firstType m.enc) ++
          (iv ++ c.enc iv (padPlain c.block (encChain m.enc)))) := by
  unfold encMsg genSK
  simp only [hiv, Option.getD_some, padPlain]
  have hfold : ∀ body, ({ ptype := 46, critical := false, body := Body.sk body (firstType m.enc) } : Payload)
      = skPayload body (firstType m.enc) := fun _ => rfl
  rw [hfold, encChain_snoc_sk]
  generalize c.enc iv (encChain m.enc ++ List.replicate (c.block - (encChain m.enc).length % c.block - 1) 0 ++
    [c.block - (encChain m.enc).length % c.block - 1]) = E
  generalize firstType (m.payloads ++ [skPayload (iv ++ E ++ List.replicate c.icvLen 0) (firstType m.enc)]) = first
  generalize (iv ++ E ++ List.replicate c.icvLen 0).length = L
  generalize 28 + (chainPrefix m.payloads L (firstType m.enc) ++ (iv ++ E ++ List.replicate c.icvLen 0)).length = total
  refine ⟨first, total, L, ?_⟩
  have := dropLast_append (encHeader m.hdr first total ++ chainPrefix m.payloads L (firstType m.enc) ++ (iv ++ E))
    (List.replicate c.icvLen 0)
  simp only [List.length_replicate, List.append_assoc] at this ⊢
  rw [this]
  simp only [List.append_assoc]

theorem finishSK_mac_mismatch (c : CryptoCtx) (d : Bytes) (h : Header) (ps : List Payload) (ct : Bytes) (inner : Nat)
    (hm : c.mac (dropLast d c.icvLen) ≠ takeLast d c.icvLen) : finishSK c d h ps ct inner = .invalidSyntax := by
  unfold finishSK; simp [hm]

theorem finishSK_ok_hdr (c : CryptoCtx) (d : Bytes) (h : Header) (ps : List Payload) (ct : Bytes) (inner : Nat)
    (m : Msg) (hok : finishSK c d h ps ct inner = .ok m) :
    c.mac (dropLast d c.icvLen) = takeLast d c.icvLen ∧ m.hdr = h ∧ m.iv ≠ none := by
  unfold finishSK at hok
  by_cases hm : c.mac (dropLast d c.icvLen) = takeLast d c.icvLen
  · refine ⟨hm, ?_⟩
    simp only [hm, ne_eq, not_true_eq_false, if_false] at hok
    cases hd : decryptSK c ct with
    | ok p =>
      rw [hd, bind_ok] at hok
      obtain ⟨iv, clear⟩ := p
      simp only at hok
      cases hp : parseChain (clear.length + 1) clear inner [] with
      | ok inn => rw [hp, bind_ok] at hok; cases hok; exact ⟨rfl, by simp⟩
      | invalidSyntax => rw [hp] at hok; cases hok
      | unsupportedCritical => rw [hp] at hok; cases hok
      | py e => rw [hp] at hok; cases hok
      | hang => rw [hp] at hok; cases hok
    | invalidSyntax => rw [hd] at hok; cases hok
    | unsupportedCritical => rw [hd] at hok; cases hok
    | py e => rw [hd] at hok; cases hok
    | hang => rw [hd] at hok; cases hok
  · simp [hm] at hok

/-- whatever `Message.parse` accepts under a key context either verified its checksum or is an
    IKE_SA_INIT message (given the SK-required rule of the current source) -/
theorem parseMsg_ok_requires_mac (hreq : Gen.Codec.require_sk = true) (d : Bytes) (c : CryptoCtx) (m : Msg)
    (hok : parseMsg d false (some c) = .ok m) (hex : m.hdr.exch ≠ 34) :
    c.mac (dropLast d c.icvLen) = takeLast d c.icvLen := by
  unfold parseMsg at hok
  cases hh : parseHeader d with
  | ok h =>
    rw [hh, bind_ok] at hok
    simp only [Bool.false_eq_true, if_false] at hok
    cases hp : parseChain ((d.drop 28).length + 1) (d.drop 28) (u8 d 16) [] with
    | ok ps =>
      rw [hp, bind_ok] at hok
      split at hok
      · rename_i c' _ ct inner heq _
        cases heq
        exact (finishSK_ok_hdr _ _ _ _ _ _ _ hok).1
      · simp only [hreq, true_and] at hok
        split at hok
        · cases hok
        · rename_i hne
          cases hok
          exact absurd hex (by simpa using hne)
      · rename_i heq; cases heq
    | invalidSyntax => rw [hp] at hok; cases hok
    | unsupportedCritical => rw [hp] at hok; cases hok
    | py e => rw [hp] at hok; cases hok
    | hang => rw [hp] at hok; cases hok
  | invalidSyntax => rw [hh] at hok; cases hok
  | unsupportedCritical => rw [hh] at hok; cases hok
  | py e => rw [hh] at hok; cases hok
  | hang => rw [hh] at hok; cases hok

end PyIkev2.Impl
