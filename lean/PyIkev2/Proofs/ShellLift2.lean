/-
  Lifting a per-call contract of the delegated handlers through the shell (Model/Machine.lean), for ANY handler instance —
  second version: through IKE_SA rekeys (a call may hand the CHILD_SAs to a successor the table does not list yet).

  `T t c K` : table `c`, handler world `t` and kernel SAD `K` are consistent (whatever that means for the instance);
  `A t K`   : what the handlers believe about the kernel is accurate (needed by the calls that install something);
  `Trans`   : the moment between a hand-over and the registration of the successor;
  `SuccListed` : the successor of an IKE_SA past its hand-over is in the table (needed where the shell decides whether to register).

  A `Contract` says every delegated call on the table entry it is run on re-establishes `T` for the table with the entry
  replaced and the kernel advanced by the netlink requests the call issued.  The theorems of this file say every entry
  point of the shell — up to one whole loop iteration — then does the same for the requests *it* reports.
-/
import PyIkev2.Proofs.ShellLift
import PyIkev2.Proofs.HandlersRekey

namespace PyIkev2.Impl
open PyIkev2

variable {τ : Type}

/-- `b` is `a` with only fields changed that the shell owns; the state is the same or DELETED -/
def ShellEq2 (a b : Sa) : Prop :=
  b.succ = a.succ ∧ b.core.children = a.core.children ∧ b.core.mySpi = a.core.mySpi ∧
  b.core.myAddr = a.core.myAddr ∧ b.core.peerAddr = a.core.peerAddr ∧ (b.core.st = a.core.st ∨ b.core.st = stDELETED)

/-- the moment between a hand-over and the registration of the successor: consistent once the successor is listed -/
def Trans (T : τ → List Sa → List Key → Prop) (t : τ) (c : List Sa) (s : Sa) (K : List Key) : Prop :=
  handed s.core.st ∧ ∃ n, s.succ = some n ∧ registered c n = false ∧ T t (c ++ [{ core := n, succ := none }]) K

/-- the successor of an IKE_SA that waits for its registration is listed -/
def SuccListed (c : List Sa) (s : Sa) : Prop := handed s.core.st → ∀ n, s.succ = some n → registered c n = true
/-- the successor of an IKE_SA that is past its hand-over (REKEYED, DEL_AFTER_REKEY_IKE_SA_REQ_SENT, DELETED) is listed -/
def SuccListedP (c : List Sa) (s : Sa) : Prop := inPost s.core.st → ∀ n, s.succ = some n → registered c n = true

structure Contract2 (H : Handlers τ) (T : τ → List Sa → List Key → Prop) (A : τ → List Key → Prop) (Esc : τ → Prop) : Prop where
  /-- the escape: a world in which consistency is not claimed any more (for the instance: an SPI clash was recorded) -/
  esc : ∀ (t : τ) (c : List Sa) (K : List Key), Esc t → T t c K
  shellT : ∀ (t : τ) (c : List Sa) (K : List Key) (i : Nat) (a b : Sa), T t (c.set i a) K → ShellEq2 a b → T t (c.set i b) K
  req : ∀ (t : τ) (c : List Sa) (K : List Key) (i : Nat) (s : Sa) (now : Nat) (m : Msg) (t' : τ) (o : HOut), i < c.length →
    T t (c.set i s) K → A t K → SuccListedP (c.set i s) s → H.req t s now m = (t', some o) →
    ((T t' (c.set i o.sa) (applyNls K o.nl) ∧ (isErr o.res = false → SuccListed (c.set i o.sa) o.sa ∨ Esc t')) ∨
      (isErr o.res = false ∧ Trans T t' (c.set i o.sa) o.sa (applyNls K o.nl)))
  reqNone : ∀ (t : τ) (s : Sa) (now : Nat) (m : Msg) (t' : τ), H.req t s now m = (t', none) → t' = t
  req34 : ∀ (t : τ) (s : Sa) (now : Nat) (m : Msg) (t' : τ) (o : HOut), H.req t s now m = (t', some o) → m.hdr.exch = 34 →
    o.sa.core.children = s.core.children
  resp : ∀ (t : τ) (c : List Sa) (K : List Key) (i : Nat) (s : Sa) (now : Nat) (m : Msg) (t' : τ) (o : HOut), i < c.length →
    T t (c.set i s) K → A t K → SuccListedP (c.set i s) s → H.resp t s now m = (t', some o) →
    ((T t' (c.set i o.sa) (applyNls K o.nl) ∧ (isErr o.res = false → SuccListed (c.set i o.sa) o.sa ∨ Esc t')) ∨
      (isErr o.res = false ∧ Trans T t' (c.set i o.sa) o.sa (applyNls K o.nl)))
  respNone : ∀ (t : τ) (s : Sa) (now : Nat) (m : Msg) (t' : τ), H.resp t s now m = (t', none) → t' = t
  genAcquire : ∀ (t : τ) (c : List Sa) (K : List Key) (i : Nat) (s : Sa) (now : Nat) (a b : TS) (idx : Nat) (t' : τ) (o : HOut),
    i < c.length → T t (c.set i s) K → H.genAcquire t s now a b idx = (t', o) →
    T t' (c.set i o.sa) (applyNls K o.nl) ∧ (¬ handed s.core.st → ¬ handed o.sa.core.st)
  genExpire : ∀ (t : τ) (c : List Sa) (K : List Key) (i : Nat) (s : Sa) (now : Nat) (ch : ChildRef) (hard : Bool) (t' : τ) (o : HOut),
    i < c.length → T t (c.set i s) K → H.genExpire t s now ch hard = (t', o) →
    T t' (c.set i o.sa) (applyNls K o.nl) ∧ (¬ handed s.core.st → ¬ handed o.sa.core.st)
  genDpd : ∀ (t : τ) (c : List Sa) (K : List Key) (i : Nat) (s : Sa) (now : Nat) (t' : τ) (o : HOut),
    i < c.length → T t (c.set i s) K → H.genDpd t s now = (t', o) → T t' (c.set i o.sa) (applyNls K o.nl)
  genDeleteIke : ∀ (t : τ) (c : List Sa) (K : List Key) (i : Nat) (s : Sa) (now : Nat) (t' : τ) (o : HOut),
    i < c.length → T t (c.set i s) K → H.genDeleteIke t s now = (t', o) → T t' (c.set i o.sa) (applyNls K o.nl)
  genRekeyIke : ∀ (t : τ) (c : List Sa) (K : List Key) (i : Nat) (s : Sa) (now : Nat) (t' : τ) (o : HOut),
    i < c.length → T t (c.set i s) K → H.genRekeyIke t s now = (t', o) → T t' (c.set i o.sa) (applyNls K o.nl)
  newSa : ∀ (t : τ) (c : List Sa) (K : List Key) (now : Nat) (isInit : Bool) (peerSpi a p : Bytes) (t' : τ) (n : SaCore), T t c K →
    H.newSa t now isInit peerSpi a p = (t', some n) →
    T t' (c ++ [{ core := n, succ := none }]) K ∧ n.children = [] ∧ n.st = stINITIAL ∧ (A t K → A t' K)
  newSaNone : ∀ (t : τ) (c : List Sa) (K : List Key) (now : Nat) (isInit : Bool) (peerSpi a p : Bytes) (t' : τ), T t c K →
    H.newSa t now isInit peerSpi a p = (t', none) → T t' c K
  remove : ∀ (t : τ) (c : List Sa) (K : List Key) (i : Nat) (s : Sa), i < c.length → T t (c.set i s) K →
    T t (c.eraseIdx i) (applyNls K (deleteChildSas s.core).2)
  forget : ∀ (t : τ) (c : List Sa) (K : List Key) (x : Sa), T t (c ++ [x]) K → x.core.children = [] → T t c K

section lift2
variable {H : Handlers τ} {T : τ → List Sa → List Key → Prop} {A : τ → List Key → Prop} {Esc : τ → Prop}

theorem ShellEq2.same (a : Sa) : ShellEq2 a a := ⟨rfl, rfl, rfl, rfl, rfl, Or.inl rfl⟩

theorem handed_inPost {st : Nat} (h : handed st) : inPost st := by
  rcases h with h | h
  · exact Or.inl h
  · exact Or.inr (Or.inl h)

theorem SuccListedP.toListed {c : List Sa} {s : Sa} (h : SuccListedP c s) : SuccListed c s :=
  fun hh n hn => h (handed_inPost hh) n hn

/-- what `process_message` leaves for the controller: consistent, or one registration away from it -/
def Res2 (T : τ → List Sa → List Key → Prop) (Esc : τ → Prop) (t : τ) (c : List Sa) (i : Nat) (sa : Sa) (K : List Key) : Prop :=
  (T t (c.set i sa) K ∧ (SuccListed (c.set i sa) sa ∨ Esc t)) ∨ Trans T t (c.set i sa) sa K

theorem registered_iff (c : List Sa) (n : SaCore) : registered c n = true ↔ n.mySpi ∈ c.map (·.core.mySpi) := by
  simp only [registered, List.any_eq_true, decide_eq_true_eq, List.mem_map]

theorem registered_set (c : List Sa) (i : Nat) (a b : Sa) (n : SaCore) (h : b.core.mySpi = a.core.mySpi) :
    registered (c.set i b) n = registered (c.set i a) n := by
  rw [Bool.eq_iff_iff, registered_iff, registered_iff, List.map_set, List.map_set, h]

theorem set_append_left' (c : List Sa) (i : Nat) (a x : Sa) (hi : i < c.length) : c.set i a ++ [x] = (c ++ [x]).set i a := by
  rw [List.set_append_left _ _ hi]

theorem registered_append (c : List Sa) (x : Sa) (n : SaCore) (h : registered c n = true) : registered (c ++ [x]) n = true := by
  rw [registered_iff] at h ⊢
  rw [List.map_append]
  exact List.mem_append_left _ h

/-- shell-owned changes of the entry (state untouched) keep `Res2` -/
theorem Res2.shell (hc : Contract2 H T A Esc) {t : τ} {c : List Sa} {i : Nat} {a b : Sa} {K : List Key} (hi : i < c.length)
    (h : Res2 T Esc t c i a K) (he : ShellEq2 a b) (hst : b.core.st = a.core.st) : Res2 T Esc t c i b K := by
  rcases h with ⟨hT, hS⟩ | ⟨hh, n, hn, hr, hT⟩
  · left
    refine ⟨hc.shellT _ _ _ _ _ _ hT he, ?_⟩
    rcases hS with hS | hS
    · left
      intro hb n hn
      rw [registered_set c i a b n he.2.2.1]
      exact hS (by rw [← hst]; exact hb) n (by rw [← he.1]; exact hn)
    · exact Or.inr hS
  · right
    refine ⟨by rw [hst]; exact hh, n, by rw [he.1]; exact hn, by rw [registered_set c i a b n he.2.2.1]; exact hr, ?_⟩
    rw [set_append_left' c i b _ hi]
    apply hc.shellT _ _ _ _ a b _ he
    rw [← set_append_left' c i a _ hi]
    exact hT

/-- an exception marks the entry DELETED: only possible where nothing was handed over -/
theorem Res2.deleted (hc : Contract2 H T A Esc) {t : τ} {c : List Sa} {i : Nat} {a b : Sa} {K : List Key}
    (hT : T t (c.set i a) K) (he : ShellEq2 a b) (hst : b.core.st = stDELETED) : Res2 T Esc t c i b K := by
  left
  refine ⟨hc.shellT _ _ _ _ _ _ hT he, Or.inl ?_⟩
  intro hb
  rw [hst] at hb
  rcases hb with hb | hb <;> exact absurd hb (by decide)

theorem genStep2 (hc : Contract2 H T A Esc) (c : List Sa) (K : List Key) (i : Nat) (now : Nat) (t' : τ) (o : HOut)
    (hT : T t' (c.set i o.sa) (applyNls K o.nl)) (r : τ × StepOut)
    (hr : r = (match o.res with
      | .request r => (t', { sa := sendRequest o.sa now r, out := some r, nl := o.nl, ran := 1 })
      | _ => (t', { sa := o.sa, nl := o.nl, escaped := true, ran := 1 }))) :
    T r.1 (c.set i r.2.sa) (applyNls K r.2.nl) ∧ r.2.sa.core.st = o.sa.core.st := by
  subst hr
  cases o.res with
  | request m => exact ⟨hc.shellT _ _ _ _ _ _ hT ⟨rfl, rfl, rfl, rfl, rfl, Or.inl rfl⟩, rfl⟩
  | reply m => exact ⟨hT, rfl⟩
  | nothing => exact ⟨hT, rfl⟩
  | ikeError m => exact ⟨hT, rfl⟩
  | otherError m => exact ⟨hT, rfl⟩

theorem processAcquire_T2 (hc : Contract2 H T A Esc) (t : τ) (c : List Sa) (K : List Key) (i : Nat) (s : Sa) (now : Nat)
    (a b : TS) (idx : Nat) (hi : i < c.length) (hT : T t (c.set i s) K) :
    T (processAcquire H t s now a b idx).1 (c.set i (processAcquire H t s now a b idx).2.sa)
      (applyNls K (processAcquire H t s now a b idx).2.nl) ∧
    (¬ handed s.core.st → ¬ handed (processAcquire H t s now a b idx).2.sa.core.st) := by
  unfold processAcquire
  split
  · exact ⟨hc.shellT _ _ _ _ _ _ hT ⟨rfl, rfl, rfl, rfl, rfl, Or.inl rfl⟩, fun h => h⟩
  · split
    · exact ⟨hT, fun h => h⟩
    · cases hq : H.genAcquire t s now a b idx with
      | mk t' o =>
        have h := hc.genAcquire t c K i s now a b idx t' o hi hT hq
        have h2 := genStep2 hc c K i now t' o h.1 _ rfl
        exact ⟨h2.1, fun hn => by have := h.2 hn; rw [← h2.2] at this; exact this⟩

theorem processExpire_T2 (hc : Contract2 H T A Esc) (t : τ) (c : List Sa) (K : List Key) (i : Nat) (s : Sa) (now : Nat)
    (spi : Bytes) (hard : Bool) (hi : i < c.length) (hT : T t (c.set i s) K) :
    T (processExpire H t s now spi hard).1 (c.set i (processExpire H t s now spi hard).2.sa)
      (applyNls K (processExpire H t s now spi hard).2.nl) ∧
    (¬ handed s.core.st → ¬ handed (processExpire H t s now spi hard).2.sa.core.st) := by
  unfold processExpire
  split
  · exact ⟨hc.shellT _ _ _ _ _ _ hT ⟨rfl, rfl, rfl, rfl, rfl, Or.inl rfl⟩, fun h => h⟩
  · split
    · exact ⟨hT, fun h => h⟩
    · rename_i ch _
      cases hq : H.genExpire t s now ch hard with
      | mk t' o =>
        have h := hc.genExpire t c K i s now ch hard t' o hi hT hq
        have h2 := genStep2 hc c K i now t' o h.1 _ rfl
        exact ⟨h2.1, fun hn => by have := h.2 hn; rw [← h2.2] at this; exact this⟩

theorem pendingLoop_T2 (hc : Contract2 H T A Esc) (c : List Sa) (K : List Key) (i : Nat) (now : Nat) (hi : i < c.length)
    (ps : List Pend) : ∀ (t : τ) (s : Sa) (nl : List NlOp), T t (c.set i s) (applyNls K nl) → ¬ handed s.core.st →
      T (pendingLoop H t now ps s nl).1 (c.set i (pendingLoop H t now ps s nl).2.sa) (applyNls K (pendingLoop H t now ps s nl).2.nl) ∧
      ¬ handed (pendingLoop H t now ps s nl).2.sa.core.st := by
  induction ps with
  | nil => intro t s nl hT hn; exact ⟨hT, hn⟩
  | cons p rest ih =>
    intro t s nl hT hn
    unfold pendingLoop
    have hT' : T t (c.set i { s with core := { s.core with pending := s.core.pending.erase p } }) (applyNls K nl) :=
      hc.shellT _ _ _ _ _ _ hT ⟨rfl, rfl, rfl, rfl, rfl, Or.inl rfl⟩
    cases p with
    | acquire a b idx =>
      simp only
      have h1 := processAcquire_T2 hc t c (applyNls K nl) i _ now a b idx hi hT'
      rw [← applyNls_append] at h1
      split
      · exact ⟨h1.1, h1.2 hn⟩
      · split
        · exact ⟨h1.1, h1.2 hn⟩
        · exact ih _ _ _ h1.1 (h1.2 hn)
    | expire spi hard =>
      simp only
      have h1 := processExpire_T2 hc t c (applyNls K nl) i _ now spi hard hi hT'
      rw [← applyNls_append] at h1
      split
      · exact ⟨h1.1, h1.2 hn⟩
      · split
        · exact ⟨h1.1, h1.2 hn⟩
        · exact ih _ _ _ h1.1 (h1.2 hn)

theorem processRequest_R (hc : Contract2 H T A Esc) (t : τ) (c : List Sa) (K : List Key) (i : Nat) (s : Sa) (now : Nat)
    (m : Msg) (hi : i < c.length) (hT : T t (c.set i s) K) (hA : A t K) (hS : SuccListedP (c.set i s) s) :
    Res2 T Esc (processRequest H t s now m).1 c i (processRequest H t s now m).2.sa (applyNls K (processRequest H t s now m).2.nl) := by
  unfold processRequest
  split
  · exact Or.inl ⟨hT, Or.inl hS.toListed⟩
  · split
    · exact Or.inl ⟨hT, Or.inl hS.toListed⟩
    · cases hq : H.req t s now m with
      | mk t' oo =>
        cases oo with
        | none => simp only; rw [hc.reqNone _ _ _ _ _ hq]; exact Or.inl ⟨hT, Or.inl hS.toListed⟩
        | some o =>
          have h := hc.req t c K i s now m t' o hi hT hA hS hq
          have hR : isErr o.res = false → Res2 T Esc t' c i o.sa (applyNls K o.nl) := by
            intro hne
            rcases h with h | h
            · exact Or.inl ⟨h.1, h.2 hne⟩
            · exact Or.inr h.2
          simp only
          cases hres : o.res with
          | reply r => exact Res2.shell hc hi (hR (by rw [hres]; rfl)) ⟨rfl, rfl, rfl, rfl, rfl, Or.inl rfl⟩ rfl
          | request r => exact Res2.shell hc hi (hR (by rw [hres]; rfl)) ⟨rfl, rfl, rfl, rfl, rfl, Or.inl rfl⟩ rfl
          | nothing => exact Res2.shell hc hi (hR (by rw [hres]; rfl)) ⟨rfl, rfl, rfl, rfl, rfl, Or.inl rfl⟩ rfl
          | ikeError n =>
            rcases h with h | h
            · exact Res2.deleted hc h.1 ⟨rfl, rfl, rfl, rfl, rfl, Or.inr rfl⟩ rfl
            · rw [hres] at h; exact absurd h.1 (by simp [isErr])
          | otherError n =>
            rcases h with h | h
            · exact Res2.deleted hc h.1 ⟨rfl, rfl, rfl, rfl, rfl, Or.inr rfl⟩ rfl
            · rw [hres] at h; exact absurd h.1 (by simp [isErr])

theorem processResponse_R (hc : Contract2 H T A Esc) (t : τ) (c : List Sa) (K : List Key) (i : Nat) (s : Sa) (now : Nat)
    (m : Msg) (hi : i < c.length) (hT : T t (c.set i s) K) (hA : A t K) (hS : SuccListedP (c.set i s) s) :
    Res2 T Esc (processResponse H t s now m).1 c i (processResponse H t s now m).2.sa (applyNls K (processResponse H t s now m).2.nl) := by
  unfold processResponse
  have hTb : T t (c.set i (bumpMyId s)) K := hc.shellT _ _ _ _ _ _ hT ⟨rfl, rfl, rfl, rfl, rfl, Or.inl rfl⟩
  have hSb : SuccListedP (c.set i (bumpMyId s)) (bumpMyId s) := by
    intro hh n hn
    rw [registered_set c i s (bumpMyId s) n rfl]
    exact hS hh n hn
  split
  · exact Or.inl ⟨hT, Or.inl hS.toListed⟩
  · cases hq : H.resp t (bumpMyId s) now m with
    | mk t' oo =>
      cases oo with
      | none => simp only; rw [hc.respNone _ _ _ _ _ hq]; exact Or.inl ⟨hTb, Or.inl hSb.toListed⟩
      | some o =>
        have h := hc.resp t c K i (bumpMyId s) now m t' o hi hTb hA hSb hq
        have hR : isErr o.res = false → Res2 T Esc t' c i o.sa (applyNls K o.nl) := by
          intro hne
          rcases h with h | h
          · exact Or.inl ⟨h.1, h.2 hne⟩
          · exact Or.inr h.2
        simp only
        cases hres : o.res with
        | request r => exact Res2.shell hc hi (hR (by rw [hres]; rfl)) ⟨rfl, rfl, rfl, rfl, rfl, Or.inl rfl⟩ rfl
        | reply r => exact Res2.shell hc hi (hR (by rw [hres]; rfl)) ⟨rfl, rfl, rfl, rfl, rfl, Or.inl rfl⟩ rfl
        | ikeError n =>
          rcases h with h | h
          · exact Res2.deleted hc h.1 ⟨rfl, rfl, rfl, rfl, rfl, Or.inr rfl⟩ rfl
          · rw [hres] at h; exact absurd h.1 (by simp [isErr])
        | otherError n =>
          rcases h with h | h
          · exact Res2.deleted hc h.1 ⟨rfl, rfl, rfl, rfl, rfl, Or.inr rfl⟩ rfl
          · rw [hres] at h; exact absurd h.1 (by simp [isErr])
        | nothing =>
          simp only
          split
          · rename_i hest
            have hnh : ¬ handed o.sa.core.st := by rw [hest]; intro hh; rcases hh with hh | hh <;> exact absurd hh (by decide)
            have hTo : T t' (c.set i o.sa) (applyNls K o.nl) := by
              rcases h with h | h
              · exact h.1
              · exact absurd h.2.1 hnh
            have hp := pendingLoop_T2 hc c K i now hi o.sa.core.pending t' o.sa o.nl hTo hnh
            cases hpl : pendingLoop H t' now o.sa.core.pending o.sa o.nl with
            | mk t2 p =>
              rw [hpl] at hp
              simp only
              split
              · exact Res2.deleted hc hp.1 ⟨rfl, rfl, rfl, rfl, rfl, Or.inr rfl⟩ rfl
              · left
                refine ⟨hp.1, Or.inl ?_⟩
                intro hh; exact absurd hh hp.2
          · exact hR (by rw [hres]; rfl)

theorem processMessage_R (hc : Contract2 H T A Esc) (t : τ) (c : List Sa) (K : List Key) (i : Nat) (s : Sa) (now : Nat)
    (parsed : Option Msg) (hi : i < c.length) (hT : T t (c.set i s) K) (hA : A t K) (hS : SuccListedP (c.set i s) s) :
    Res2 T Esc (processMessage H t s now parsed).1 c i (processMessage H t s now parsed).2.sa
      (applyNls K (processMessage H t s now parsed).2.nl) := by
  unfold processMessage
  cases parsed with
  | none => exact Or.inl ⟨hT, Or.inl hS.toListed⟩
  | some m =>
    simp only
    have hTd : T t (c.set i (touchDpd s now)) K := hc.shellT _ _ _ _ _ _ hT ⟨rfl, rfl, rfl, rfl, rfl, Or.inl rfl⟩
    have hSd : SuccListedP (c.set i (touchDpd s now)) (touchDpd s now) := by
      intro hh n hn
      rw [registered_set c i s (touchDpd s now) n rfl]
      exact hS hh n hn
    split
    · exact Or.inl ⟨hT, Or.inl hS.toListed⟩
    · exact Or.inl ⟨hT, Or.inl hS.toListed⟩
    · split
      · exact processResponse_R hc t c K i _ now m hi hTd hA hSd
      · exact processRequest_R hc t c K i _ now m hi hTd hA hSd

theorem processMessage_children34' (hc : Contract2 H T A Esc) (t : τ) (s : Sa) (now : Nat) (parsed : Option Msg)
    (hm : ∀ m, parsed = some m → m.hdr.exch = 34 ∧ m.hdr.isResp = false) :
    (processMessage H t s now parsed).2.sa.core.children = s.core.children := by
  unfold processMessage
  cases parsed with
  | none => rfl
  | some m =>
    simp only
    split
    · rfl
    · rfl
    · rw [if_neg (by simp [(hm m rfl).2])]
      unfold processRequest
      split
      · rfl
      · split
        · rfl
        · cases hq : H.req t (touchDpd s now) now m with
          | mk t' oo =>
            cases oo with
            | none => rfl
            | some o =>
              have h := hc.req34 _ _ _ _ _ _ hq (hm m rfl).1
              simp only
              cases o.res <;> exact h

/-- the controller's step after `process_message`: registration of a successor, removal of an ended IKE_SA -/
theorem afterMessage_T2 (hc : Contract2 H T A Esc) (t : τ) (c : List Sa) (K : List Key) (i : Nat) (s : Sa)
    (hi : i < c.length) (h : Res2 T Esc t c i s K) :
    T t (afterMessage c i s).1 (applyNls K (afterMessage c i s).2) := by
  unfold afterMessage
  rcases h with ⟨hT, hS | hE⟩ | ⟨hh, n, hn, hr, hT⟩
  · have fin : ∀ x : Sa, T t ((if s.core.st = stDELETED then
          (((c.set i s).set i x).eraseIdx i, (deleteChildSas s.core).2)
        else (c.set i s, [])) : List Sa × List NlOp).1
        (applyNls K ((if s.core.st = stDELETED then
          (((c.set i s).set i x).eraseIdx i, (deleteChildSas s.core).2)
        else (c.set i s, [])) : List Sa × List NlOp).2) := by
      intro x
      split
      · simp only [List.set_set, List.eraseIdx_set_eq]
        exact hc.remove t c K i s hi hT
      · exact hT
    by_cases hcond : s.core.st = stREKEYED ∨ s.core.st = stDEL_AFTER_REKEY_IKE_SA_REQ_SENT
    · cases hsu : s.succ with
      | none => simp only [hcond, ↓reduceIte]; exact fin _
      | some n =>
        have hreg := hS hcond n hsu
        simp only [hcond, hreg, ↓reduceIte]
        exact fin _
    · simp only [hcond, ↓reduceIte]
      exact fin _
  · exact hc.esc _ _ _ hE
  · have hne : s.core.st ≠ stDELETED := by
      intro h21; rw [h21] at hh; rcases hh with hh | hh <;> exact absurd hh (by decide)
    have hcond : s.core.st = stREKEYED ∨ s.core.st = stDEL_AFTER_REKEY_IKE_SA_REQ_SENT := hh
    simp only [hcond, hn, hr, hne, ↓reduceIte]
    exact hT

/-- every IKE_SA past its hand-over has its successor in the table -/
def AllListed (c : List Sa) : Prop := ∀ s ∈ c, SuccListedP c s

theorem dispatch_T2 (hc : Contract2 H T A Esc) (t : τ) (c : Ctl) (K : List Key) (now : Nat) (hdr : Option Header)
    (parsed : Option Msg) (myAddr peerAddr : Bytes) (hT : T t c.sas K) (hA : A t K) (hall : AllListed c.sas)
    (hcoh : Coherent hdr parsed) :
    T (dispatch H t c now hdr parsed myAddr peerAddr).1 (dispatch H t c now hdr parsed myAddr peerAddr).2.ctl.sas
      (applyNls K (dispatch H t c now hdr parsed myAddr peerAddr).2.nl) := by
  unfold dispatch
  cases hdr with
  | none => exact hT
  | some h =>
    simp only
    split
    · rename_i h34
      cases hq : H.newSa t now false h.spiI myAddr peerAddr with
      | mk t' on =>
        cases on with
        | none => exact hc.newSaNone _ _ _ _ _ _ _ _ _ hT hq
        | some n =>
          obtain ⟨hT1, hch, hst0, hA1⟩ := hc.newSa _ _ _ _ _ _ _ _ _ _ hT hq
          simp only
          generalize hn' : (if halfOpen (c.sas ++ [({ core := n, succ := none } : Sa)]) > c.threshold then ({ n with cookie := true } : SaCore) else n) = n'
          have hsq : ShellEq2 ({ core := n, succ := none } : Sa) ({ core := n', succ := none } : Sa) := by
            rw [← hn']; split <;> exact ⟨rfl, rfl, rfl, rfl, rfl, Or.inl rfl⟩
          have hst : n'.st = stINITIAL := by rw [← hn']; split <;> simpa using hst0
          have hchn : n'.children = [] := by rw [← hn']; split <;> simpa using hch
          have hlen : (c.sas ++ [({ core := n, succ := none } : Sa)]).length - 1 = c.sas.length := by simp
          rw [hlen]
          have hi : c.sas.length < (c.sas ++ [({ core := n, succ := none } : Sa)]).length := by simp
          have hset : ∀ x : Sa, (c.sas ++ [({ core := n, succ := none } : Sa)]).set c.sas.length x = c.sas ++ [x] := by
            intro x; rw [List.set_append_right _ _ (Nat.le_refl _)]; simp
          have hT2 : T t' ((c.sas ++ [({ core := n, succ := none } : Sa)]).set c.sas.length { core := n', succ := none }) K := by
            apply hc.shellT _ _ _ _ _ _ _ hsq
            rw [hset]; exact hT1
          have hS2 : SuccListedP ((c.sas ++ [({ core := n, succ := none } : Sa)]).set c.sas.length { core := n', succ := none })
              { core := n', succ := none } := by
            intro _ m hm; cases hm
          have hpm := processMessage_R hc t' _ K _ { core := n', succ := none } now parsed hi hT2 (hA1 hA) hS2
          have hch2 := processMessage_children34' hc t' { core := n', succ := none } now parsed (by
            intro m hp
            have := hcoh h m rfl hp
            refine ⟨this.1 ▸ h34.1, ?_⟩
            have h2 := h34.2
            rw [this.2]; simpa using h2)
          cases hpq : processMessage H t' { core := n', succ := none } now parsed with
          | mk t2 o =>
            rw [hpq] at hpm hch2
            simp only at hpm hch2 ⊢
            split
            · rename_i hini
              have hTo : T t2 ((c.sas ++ [({ core := n, succ := none } : Sa)]).set c.sas.length o.sa) (applyNls K o.nl) := by
                rcases hpm with h1 | h1
                · exact h1.1
                · have := h1.1; rw [hini] at this
                  rcases this with hh | hh <;> exact absurd hh (by decide)
              refine hc.forget _ _ _ o.sa ?_ (by rw [hch2]; exact hchn)
              rw [← hset]; exact hTo
            · have ham := afterMessage_T2 hc t2 _ (applyNls K o.nl) _ o.sa hi hpm
              cases haq : afterMessage (c.sas ++ [{ core := n, succ := none }]) c.sas.length o.sa with
              | mk sas ops =>
                rw [haq] at ham
                simp only at ham ⊢
                rw [applyNls_append]
                exact ham
    · split
      · exact hT
      · rename_i i _
        split
        · exact hT
        · rename_i s hs
          obtain ⟨hi, hset⟩ := set_of_getElem? hs
          have hSs : SuccListedP (c.sas.set i s) s := by rw [hset]; exact hall s (List.mem_of_getElem? hs)
          have hpm := processMessage_R hc t c.sas K i s now parsed hi (by rw [hset]; exact hT) hA hSs
          cases hpq : processMessage H t s now parsed with
          | mk t2 o =>
            rw [hpq] at hpm
            simp only at hpm ⊢
            have ham := afterMessage_T2 hc t2 c.sas (applyNls K o.nl) i o.sa hi hpm
            cases haq : afterMessage c.sas i o.sa with
            | mk sas ops =>
              rw [haq] at ham
              simp only at ham ⊢
              rw [applyNls_append]
              exact ham

theorem ctlAcquire_T2 (hc : Contract2 H T A Esc) (t : τ) (c : Ctl) (K : List Key) (now : Nat) (myAddr peerAddr : Bytes)
    (tsi tsr : TS) (idx : Nat) (hT : T t c.sas K) :
    T (ctlAcquire H t c now myAddr peerAddr tsi tsr idx).1 (ctlAcquire H t c now myAddr peerAddr tsi tsr idx).2.ctl.sas
      (applyNls K (ctlAcquire H t c now myAddr peerAddr tsi tsr idx).2.nl) := by
  unfold ctlAcquire
  split
  · rename_i i _
    split
    · exact hT
    · rename_i s hs
      obtain ⟨hi, hset⟩ := set_of_getElem? hs
      have hp := processAcquire_T2 hc t c.sas K i s now tsi tsr idx hi (by rw [hset]; exact hT)
      cases hpq : processAcquire H t s now tsi tsr idx with
      | mk t2 o =>
        rw [hpq] at hp
        exact hp.1
  · cases hq : H.newSa t now true (List.replicate 8 0) myAddr peerAddr with
    | mk t' on =>
      cases on with
      | none => exact hc.newSaNone _ _ _ _ _ _ _ _ _ hT hq
      | some n =>
        obtain ⟨hT1, _, _, _⟩ := hc.newSa _ _ _ _ _ _ _ _ _ _ hT hq
        simp only
        have hi : c.sas.length < (c.sas ++ [({ core := n, succ := none } : Sa)]).length := by simp
        have hset : ∀ x : Sa, (c.sas ++ [({ core := n, succ := none } : Sa)]).set c.sas.length x = c.sas ++ [x] := by
          intro x; rw [List.set_append_right _ _ (Nat.le_refl _)]; simp
        have hp := processAcquire_T2 hc t' _ K _ { core := n, succ := none } now tsi tsr idx hi (by rw [hset]; exact hT1)
        cases hpq : processAcquire H t' { core := n, succ := none } now tsi tsr idx with
        | mk t2 o =>
          rw [hpq] at hp
          simp only at hp ⊢
          rw [hset] at hp
          exact hp.1

theorem ctlExpire_T2 (hc : Contract2 H T A Esc) (t : τ) (c : Ctl) (K : List Key) (now : Nat) (spi : Bytes) (hard : Bool)
    (hT : T t c.sas K) :
    T (ctlExpire H t c now spi hard).1 (ctlExpire H t c now spi hard).2.ctl.sas (applyNls K (ctlExpire H t c now spi hard).2.nl) := by
  unfold ctlExpire
  split
  · exact hT
  · rename_i i _
    split
    · exact hT
    · rename_i s hs
      obtain ⟨hi, hset⟩ := set_of_getElem? hs
      have hp := processExpire_T2 hc t c.sas K i s now spi hard hi (by rw [hset]; exact hT)
      cases hpq : processExpire H t s now spi hard with
      | mk t2 o =>
        rw [hpq] at hp
        exact hp.1

theorem checkRetransmission_shell2 (s : Sa) (now : Nat) : ShellEq2 s (checkRetransmission s now).sa := by
  unfold checkRetransmission
  split
  · split
    · split
      · exact ⟨rfl, rfl, rfl, rfl, rfl, Or.inr rfl⟩
      · exact ⟨rfl, rfl, rfl, rfl, rfl, Or.inl rfl⟩
    · exact ShellEq2.same _
  · exact ShellEq2.same _

theorem sweepRtx_T2 (hc : Contract2 H T A Esc) (t : τ) (K : List Key) (now : Nat) (fuel : Nat) :
    ∀ (i : Nat) (sas : List Sa) (sent : List (Bytes × Bytes × Msg)) (nl : List NlOp), T t sas (applyNls K nl) →
      T t (sweepRtx now fuel i sas sent nl).1 (applyNls K (sweepRtx now fuel i sas sent nl).2.2.1) := by
  induction fuel with
  | zero => intro i sas sent nl hT; exact hT
  | succ fuel ih =>
    intro i sas sent nl hT
    unfold sweepRtx
    split
    · exact hT
    · rename_i s hs
      obtain ⟨hi, hset⟩ := set_of_getElem? hs
      have hT1 : T t (sas.set i (checkRetransmission s now).sa) (applyNls K nl) :=
        hc.shellT _ _ _ _ _ _ (by rw [hset]; exact hT) (checkRetransmission_shell2 s now)
      simp only
      split
      · exact hT1
      · split
        · simp only [List.eraseIdx_set_eq]
          apply ih
          rw [applyNls_append]; exact hc.remove t sas (applyNls K nl) i _ hi hT1
        · exact ih _ _ _ _ hT1

theorem sweepTimer_T2 (K : List Key) (now : Nat) (f : τ → Sa → Nat → τ × StepOut)
    (hf : ∀ (t : τ) (c : List Sa) (K : List Key) (i : Nat) (s : Sa), i < c.length → T t (c.set i s) K →
      T (f t s now).1 (c.set i (f t s now).2.sa) (applyNls K (f t s now).2.nl)) :
    ∀ (rest : List Sa) (t : τ) (done : List Sa) (sent : List (Bytes × Bytes × Msg)) (nl : List NlOp) (ran : Nat),
      T t (done ++ rest) (applyNls K nl) →
      T (sweepTimer f now rest t done sent nl ran).1 (sweepTimer f now rest t done sent nl ran).2.1
        (applyNls K (sweepTimer f now rest t done sent nl ran).2.2.2.1) := by
  intro rest
  induction rest with
  | nil => intro t done sent nl ran hT; simpa [sweepTimer] using hT
  | cons s rest ih =>
    intro t done sent nl ran hT
    unfold sweepTimer
    have hi : done.length < (done ++ s :: rest).length := by simp
    have hset : ∀ x : Sa, (done ++ s :: rest).set done.length x = done ++ x :: rest := by
      intro x; rw [List.set_append_right _ _ (Nat.le_refl _)]; simp
    have h1 := hf t (done ++ s :: rest) (applyNls K nl) done.length s hi (by rw [hset]; exact hT)
    rw [hset, ← applyNls_append] at h1
    cases hq : f t s now with
    | mk t' o =>
      rw [hq] at h1
      simp only at h1 ⊢
      split
      · simpa using h1
      · apply ih
        simpa using h1

theorem checkDpd_T2 (hc : Contract2 H T A Esc) (t : τ) (c : List Sa) (K : List Key) (i : Nat) (s : Sa) (now : Nat)
    (hi : i < c.length) (hT : T t (c.set i s) K) :
    T (checkDpd H t s now).1 (c.set i (checkDpd H t s now).2.sa) (applyNls K (checkDpd H t s now).2.nl) := by
  unfold checkDpd
  split
  · cases hq : H.genDpd t s now with
    | mk t' o =>
      have h := hc.genDpd t c K i s now t' o hi hT hq
      exact (genStep2 hc c K i now t' o h _ rfl).1
  · exact hT

theorem checkRekey_T2 (hc : Contract2 H T A Esc) (t : τ) (c : List Sa) (K : List Key) (i : Nat) (s : Sa) (now : Nat)
    (hi : i < c.length) (hT : T t (c.set i s) K) :
    T (checkRekey H t s now).1 (c.set i (checkRekey H t s now).2.sa) (applyNls K (checkRekey H t s now).2.nl) := by
  unfold checkRekey
  split
  · split
    · cases hq : H.genDeleteIke t s now with
      | mk t' o =>
        have h := hc.genDeleteIke t c K i s now t' o hi hT hq
        exact (genStep2 hc c K i now t' o h _ rfl).1
    · split
      · cases hq : H.genRekeyIke t s now with
        | mk t' o =>
          have h := hc.genRekeyIke t c K i s now t' o hi hT hq
          exact (genStep2 hc c K i now t' o h _ rfl).1
      · exact hT
  · exact hT

/-- **one whole loop iteration, through IKE_SA rekeys** -/
theorem loopIter_T2 (hc : Contract2 H T A Esc) (t : τ) (c : Ctl) (K : List Key) (now : Nat) (ev : LoopEv)
    (hT : T t c.sas K) (hA : A t K) (hall : AllListed c.sas)
    (hcoh : ∀ h p a b, ev.datagram = some (h, p, a, b) → Coherent h p) :
    T (loopIter H t c now ev).1 (loopIter H t c now ev).2.ctl.sas (applyNls K (loopIter H t c now ev).2.nl) := by
  unfold loopIter
  split
  rename_i t1 o1 heq1
  have h1 : T t1 o1.ctl.sas (applyNls K o1.nl) := by
    rcases hd : ev.datagram with _ | ⟨h, p, a, b⟩
    · rw [hd] at heq1; cases heq1; exact hT
    · rw [hd] at heq1
      have := dispatch_T2 hc t c K now h p a b hT hA hall (hcoh h p a b hd)
      simp only at heq1
      rw [heq1] at this
      exact this
  split
  · exact h1
  · split
    rename_i t2 o2 heq2
    have h2 : T t2 o2.ctl.sas (applyNls K (o1.nl ++ o2.nl)) := by
      rw [applyNls_append]
      rcases ha : ev.acquire with _ | ⟨me, peer, tsi, tsr, idx⟩
      · rcases he : ev.expire with _ | ⟨spi, hard⟩
        · rw [ha, he] at heq2; cases heq2; exact h1
        · rw [ha, he] at heq2
          have := ctlExpire_T2 hc t1 o1.ctl (applyNls K o1.nl) now spi hard h1
          simp only at heq2
          rw [heq2] at this
          exact this
      · rw [ha] at heq2
        have := ctlAcquire_T2 hc t1 o1.ctl (applyNls K o1.nl) now me peer tsi tsr idx h1
        simp only at heq2
        rw [heq2] at this
        exact this
    simp only
    split
    · exact h2
    · have h3 := sweepRtx_T2 hc t2 K now (o2.ctl.sas.length + 1) 0 o2.ctl.sas (o1.sent ++ o2.sent) (o1.nl ++ o2.nl) h2
      generalize sweepRtx now (o2.ctl.sas.length + 1) 0 o2.ctl.sas (o1.sent ++ o2.sent) (o1.nl ++ o2.nl) = r3 at h3 ⊢
      split
      · exact h3
      · have h4 := sweepTimer_T2 K now (checkDpd H) (fun t c K i s hi hT => checkDpd_T2 hc t c K i s now hi hT)
          r3.1 t2 [] r3.2.1 r3.2.2.1 (o1.ran + o2.ran) (by simpa using h3)
        generalize sweepTimer (checkDpd H) now r3.1 t2 [] r3.2.1 r3.2.2.1 (o1.ran + o2.ran) = r4 at h4 ⊢
        split
        · exact h4
        · exact sweepTimer_T2 K now (checkRekey H) (fun t c K i s hi hT => checkRekey_T2 hc t c K i s now hi hT)
            r4.2.1 r4.1 [] r4.2.2.1 r4.2.2.2.1 r4.2.2.2.2.2 (by simpa using h4)

end lift2
end PyIkev2.Impl
