/-
  A request that a handler or a generator hands to the shell for sending is the request it has stored in `self.request` — the one the
  retransmission timer will send again.  (The retries after COOKIE, INVALID_KE_PAYLOAD included: a retry that is sent but not stored makes
  the timer repeat the previous, already answered request.)
-/
import PyIkev2.Proofs.HandlersRekey

namespace PyIkev2.Impl
open PyIkev2

variable {α β : Type}

/-- a generator returns the request it stored -/
abbrev GenStored (g : HM Msg) : Prop := Hoare (fun _ => True) g (fun r s => s.me.core.request = some r) (fun _ => True)

/-- a handler that returns a request returns the one it stored -/
abbrev ResStored (h : HM HRes) : Prop :=
  Hoare (fun _ => True) h (fun x s => ∀ r, x = HRes.request r → s.me.core.request = some r) (fun _ => True)

theorem stored_modCore_pure (f : SaCore → SaCore) (r : Msg) (hf : ∀ k, (f k).request = some r) :
    GenStored (do modCore f; pure r) := by
  apply Hoare.bind (Q := fun _ s => s.me.core.request = some r)
  · unfold modCore; exact Hoare.modify _ (fun s _ => hf s.me.core)
  · intro _; exact Hoare.pure _ (fun _ h => h)

theorem stored_modCore_modExt_pure (f : SaCore → SaCore) (g : Ext → Ext) (r : Msg) (hf : ∀ k, (f k).request = some r) :
    GenStored (do modCore f; modExt g; pure r) := by
  apply Hoare.bind (Q := fun _ s => s.me.core.request = some r)
  · unfold modCore; exact Hoare.modify _ (fun s _ => hf s.me.core)
  · intro _
    apply Hoare.bind (Q := fun _ s => s.me.core.request = some r)
    · unfold modExt; exact Hoare.modify _ (fun s h => h)
    · intro _; exact Hoare.pure _ (fun _ h => h)

theorem res_of_gen {g : HM Msg} (hg : GenStored g) : ResStored (do let r ← g; pure (HRes.request r)) := by
  apply Hoare.bind hg
  intro r
  exact Hoare.pure _ (fun s h r' hr => by cases hr; exact h)

theorem res_modCore_pure (f : SaCore → SaCore) (r : Msg) (hf : ∀ k, (f k).request = some r) :
    ResStored (do modCore f; pure (HRes.request r)) := by
  apply Hoare.bind (Q := fun _ s => s.me.core.request = some r)
  · unfold modCore; exact Hoare.modify _ (fun s _ => hf s.me.core)
  · intro _; exact Hoare.pure _ (fun s h r' hr => by cases hr; exact h)

macro "gen_stored" : tactic => `(tactic| repeat' (first
  | exact stored_modCore_pure _ _ (fun _ => rfl)
  | exact stored_modCore_modExt_pure _ _ _ (fun _ => rfl)
  | exact Hoare.raise _ (fun _ _ => trivial)
  | (simp only [keepsStored]; done)
  | (apply Hoare.bind (Hoare.triv _); intro _)
  | split
  | dsimp only))

@[keepsStored] theorem generateIkeSaInitRequest_st (c) : GenStored (generateIkeSaInitRequest c) := by
  unfold generateIkeSaInitRequest; gen_stored
@[keepsStored] theorem generateCreateChildSaRequest_st (c r) : GenStored (generateCreateChildSaRequest c r) := by
  unfold generateCreateChildSaRequest; gen_stored
@[keepsStored] theorem generateDeleteChildSaRequest_st (c) : GenStored (generateDeleteChildSaRequest c) := by
  unfold generateDeleteChildSaRequest; gen_stored
@[keepsStored] theorem generateDpdRequest_st : GenStored generateDpdRequest := by unfold generateDpdRequest; gen_stored
@[keepsStored] theorem generateDeleteIkeSaRequest_st : GenStored generateDeleteIkeSaRequest := by
  unfold generateDeleteIkeSaRequest; gen_stored
@[keepsStored] theorem generateRekeyIkeSaRequest_st (now) : GenStored (generateRekeyIkeSaRequest now) := by
  unfold generateRekeyIkeSaRequest; gen_stored
@[keepsStored] theorem generateIkeAuthRequest_st : GenStored generateIkeAuthRequest := by unfold generateIkeAuthRequest; gen_stored
@[keepsStored] theorem genAcquireH_st (x y i) : GenStored (genAcquireH x y i) := by unfold genAcquireH; gen_stored
@[keepsStored] theorem genExpireH_st (k h) : GenStored (genExpireH k h) := by unfold genExpireH; gen_stored

macro "res_stored" : tactic => `(tactic| repeat' (first
  | exact Hoare.pure _ (fun _ _ _ hr => by cases hr)
  | exact Hoare.raise _ (fun _ _ => trivial)
  | (simp only [keepsStored]; done)
  | exact res_of_gen (by simp only [keepsStored])
  | exact res_modCore_pure _ _ (fun _ => rfl)
  | (apply Hoare.bind (Hoare.triv _); intro _)
  | split
  | dsimp only))

@[keepsStored] theorem processIkeSaInitRequest_st (m) : ResStored (processIkeSaInitRequest m) := by unfold processIkeSaInitRequest; res_stored
@[keepsStored] theorem processIkeAuthRequest_st (m) : ResStored (processIkeAuthRequest m) := by unfold processIkeAuthRequest; res_stored
@[keepsStored] theorem processCreateChildSaRequest_st (now m) : ResStored (processCreateChildSaRequest now m) := by
  unfold processCreateChildSaRequest; res_stored
@[keepsStored] theorem processInformationalRequest_st (m) : ResStored (processInformationalRequest m) := by
  unfold processInformationalRequest; res_stored
@[keepsStored] theorem processIkeSaInitResponse_st (m) : ResStored (processIkeSaInitResponse m) := by unfold processIkeSaInitResponse; res_stored
@[keepsStored] theorem processIkeAuthResponse_st (m) : ResStored (processIkeAuthResponse m) := by unfold processIkeAuthResponse; res_stored
@[keepsStored] theorem ikeRekeyResponse_st (now m me) : ResStored (ikeRekeyResponse now m me) := by unfold ikeRekeyResponse; res_stored
@[keepsStored] theorem childSaResponse_st (prev m) : ResStored (childSaResponse prev m) := by unfold childSaResponse; res_stored
@[keepsStored] theorem processCreateChildSaResponse_st (now m) : ResStored (processCreateChildSaResponse now m) := by
  unfold processCreateChildSaResponse; res_stored
@[keepsStored] theorem processInformationalResponse_st (m) : ResStored (processInformationalResponse m) := by
  unfold processInformationalResponse; res_stored

theorem requestHandler_st (now m h) (hh : requestHandler now m = some h) : ResStored h := by
  unfold requestHandler at hh
  repeat' split at hh
  all_goals first | (cases hh; simp only [keepsStored]) | (simp at hh)

theorem responseHandler_st (now m h) (hh : responseHandler now m = some h) : ResStored h := by
  unfold responseHandler at hh
  repeat' split at hh
  all_goals first | (cases hh; simp only [keepsStored]) | (simp at hh)

end PyIkev2.Impl
