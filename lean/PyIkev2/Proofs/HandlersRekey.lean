/-
  Through an IKE_SA rekey: the successor object (`new_ike_sa`, and the local variable that becomes it).

  `SO a p`: the successor and the local candidate, if there is one, have this IKE_SA's addresses and hold no CHILD_SA — true of
  every successor from its creation to the hand-over, and kept by everything except the hand-over.
-/
import PyIkev2.Proofs.HandlersKernel
import PyIkev2.Proofs.HandlersAuth

namespace PyIkev2.Impl
open PyIkev2

variable {α β : Type}

/-- an object with these addresses that holds no CHILD_SA -/
def ObjE (a p : Bytes) (n : XSa) : Prop := n.core.myAddr = a ∧ n.core.peerAddr = p ∧ n.ext.kids = [] ∧ n.core.children = []

def SO (a p : Bytes) (s : HSt) : Prop :=
  s.me.core.myAddr = a ∧ s.me.core.peerAddr = p ∧ (∀ n, s.succ = some n → ObjE a p n) ∧ (∀ n, s.tmp = some n → ObjE a p n)

/-- the continuation of a call may assume what is true of every value the call can return -/
theorem Keeps.bind_post {I : HSt → Prop} {m : HM α} {f : α → HM β} (Q : α → Prop)
    (hQ : ∀ s x s', m s = (.ok x, s') → Q x) (hm : Keeps I m) (hf : ∀ x, Q x → Keeps I (f x)) : Keeps I (m >>= f) := by
  constructor
  intro s h
  rw [HM.bind_def]
  have h1 := hm.keep s h
  cases hr : m s with
  | mk r s' =>
    rw [hr] at h1
    cases r with
    | ok x => exact (hf x (hQ s x s' hr)).keep s' h1
    | error e => exact h1

theorem trackChild_tmp (k : Child) (s : HSt) : (trackChild k s).2.tmp = s.tmp := by
  unfold trackChild; simp only; split
  · rfl
  · split
    · rfl
    · split <;> rfl
theorem untrackChild_tmp (k : Child) (s : HSt) : (untrackChild k s).2.tmp = s.tmp := by
  unfold untrackChild; split <;> rfl

macro "keeps_so" : tactic => `(tactic| repeat' (first
  | exact Keeps.pure _
  | exact Keeps.raise _
  | exact Keeps.read _
  | exact Keeps.liftE _
  | exact KeepsOpt.none
  | apply KeepsOpt.some
  | (simp only [keepsSucc]; done)
  | (apply Keeps.bind_liftE; intro _ _)
  | apply Keeps.bind
  | apply Keeps.tryCatch
  | intro _
  | split
  | (simp only [modCore, modExt, modMe, setState, markBad]; apply Keeps.modify; intro s h;
     simp_all [SO, ObjE, XSa.setKids]; done)
  | (apply Keeps.modify; intro s h; simp_all [SO, ObjE]; done)
  | dsimp only))

section so
variable (a p : Bytes)

@[keepsSucc] theorem popVal_so : Keeps (SO a p) popVal := by
  constructor; intro s h; unfold popVal; split <;> exact h
@[keepsSucc] theorem getSlot_so (sl) : Keeps (SO a p) (getSlot sl) := by
  cases sl
  · simp only [getSlot, getMe]; exact Keeps.read _
  · constructor; intro s h; simp only [getSlot]; split <;> exact h
  · constructor; intro s h; simp only [getSlot]; split <;> exact h

@[keepsSucc] theorem getPayload_so (m pt e) : Keeps (SO a p) (getPayload m pt e) := Keeps.liftE _

theorem modSlot_so (sl) (f : XSa → XSa) (hf : ∀ x, (f x).core.myAddr = x.core.myAddr ∧ (f x).core.peerAddr = x.core.peerAddr ∧
    (f x).ext.kids = x.ext.kids ∧ (f x).core.children = x.core.children) : Keeps (SO a p) (modSlot sl f) := by
  unfold modSlot; apply Keeps.modify; intro s h
  obtain ⟨h1, h2, h3, h4⟩ := h
  cases sl
  · have := hf s.me; exact ⟨by simp [this, h1], by simp [this, h2], h3, h4⟩
  · refine ⟨h1, h2, ?_, h4⟩
    intro n hn
    simp only [Option.map_eq_some_iff] at hn
    obtain ⟨m, hm, rfl⟩ := hn
    have := hf m; have := h3 m hm
    simp_all [ObjE]
  · refine ⟨h1, h2, h3, ?_⟩
    intro n hn
    simp only [Option.map_eq_some_iff] at hn
    obtain ⟨m, hm, rfl⟩ := hn
    have := hf m; have := h4 m hm
    simp_all [ObjE]
@[keepsSucc] theorem trackChild_so (k) : Keeps (SO a p) (trackChild k) := by
  constructor; intro s h
  obtain ⟨h1, h2, h3, h4⟩ := h
  refine ⟨?_, ?_, by rw [trackChild_succ]; exact h3, by rw [trackChild_tmp]; exact h4⟩
  · rcases trackChild_me k s with h5 | h5 <;> (rw [h5]; simpa [XSa.setKids] using h1)
  · rcases trackChild_me k s with h5 | h5 <;> (rw [h5]; simpa [XSa.setKids] using h2)
@[keepsSucc] theorem untrackChild_so (k) : Keeps (SO a p) (untrackChild k) := by
  constructor; intro s h
  obtain ⟨h1, h2, h3, h4⟩ := h
  refine ⟨?_, ?_, by rw [untrackChild_succ]; exact h3, by rw [untrackChild_tmp]; exact h4⟩
  · rcases untrackChild_me k s with h5 | h5 <;> (rw [h5]; simpa [XSa.setKids] using h1)
  · rcases untrackChild_me k s with h5 | h5 <;> (rw [h5]; simpa [XSa.setKids] using h2)
@[keepsSucc] theorem setState_so (st) : Keeps (SO a p) (setState st) := by
  unfold setState modCore; apply Keeps.modify; intro s hs; exact hs




@[keepsSucc] theorem markBad_so : Keeps (SO a p) markBad := by unfold markBad; keeps_so
@[keepsSucc] theorem popBytes_so : Keeps (SO a p) popBytes := by unfold popBytes; keeps_so
@[keepsSucc] theorem popBytesOrFail_so : Keeps (SO a p) popBytesOrFail := by unfold popBytesOrFail; keeps_so
@[keepsSucc] theorem popOk_so : Keeps (SO a p) popOk := by unfold popOk; keeps_so
@[keepsSucc] theorem popNum_so : Keeps (SO a p) popNum := by unfold popNum; keeps_so
@[keepsSucc] theorem popAuthGen_so : Keeps (SO a p) popAuthGen := by unfold popAuthGen; keeps_so
@[keepsSucc] theorem popAuthVerify_so : Keeps (SO a p) popAuthVerify := by unfold popAuthVerify; keeps_so
@[keepsSucc] theorem getMe_so : Keeps (SO a p) getMe := by unfold getMe; keeps_so

macro "keeps_so2" : tactic => `(tactic| repeat' (first
  | exact Keeps.pure _
  | exact Keeps.raise _
  | exact Keeps.read _
  | exact Keeps.liftE _
  | exact KeepsOpt.none
  | apply KeepsOpt.some
  | (simp only [keepsSucc]; done)
  | (apply modSlot_so; intro x; simp; done)
  | (apply Keeps.bind_liftE; intro _ _)
  | apply Keeps.bind
  | apply Keeps.tryCatch
  | intro _
  | split
  | (simp only [modCore, modExt, modMe, setState, markBad, handOver]; apply Keeps.modify; intro s h;
     simp_all [SO, ObjE, XSa.setKids]; done)
  | (apply Keeps.modify; intro s h; simp_all [SO, ObjE]; done)
  | dsimp only))


@[keepsSucc] theorem abortOnErrorNotifies_so (m e i) : Keeps (SO a p) (abortOnErrorNotifies m e i) := by unfold abortOnErrorNotifies; keeps_so2
@[keepsSucc] theorem checkInStates_so (l) : Keeps (SO a p) (checkInStates l) := by unfold checkInStates; keeps_so2
@[keepsSucc] theorem assertState_so (l) : Keeps (SO a p) (assertState l) := by unfold assertState; keeps_so2
@[keepsSucc] theorem newXSa_so (cf now i q x y) : Keeps (SO a p) (newXSa cf now i q x y) := by unfold newXSa; keeps_so2
@[keepsSucc] theorem cookieGate_so (x m) : Keeps (SO a p) (cookieGate x m) := by unfold cookieGate; keeps_so2
@[keepsSucc] theorem negotiateIkeRequest_so (sl m e) : Keeps (SO a p) (negotiateIkeRequest sl m e) := by unfold negotiateIkeRequest; keeps_so2
@[keepsSucc] theorem processIkeSaInitRequest_so (m) : Keeps (SO a p) (processIkeSaInitRequest m) := by unfold processIkeSaInitRequest; keeps_so2
@[keepsSucc] theorem generateIkeNegotiation_so (sl) : Keeps (SO a p) (generateIkeNegotiation sl) := by unfold generateIkeNegotiation; keeps_so2
@[keepsSucc] theorem generateChildNegotiation_so (k) : Keeps (SO a p) (generateChildNegotiation k) := by unfold generateChildNegotiation; keeps_so2
@[keepsSucc] theorem generateIkeSaInitRequest_so (k) : Keeps (SO a p) (generateIkeSaInitRequest k) := by unfold generateIkeSaInitRequest; keeps_so2
@[keepsSucc] theorem generateCreateChildSaRequest_so (k r) : Keeps (SO a p) (generateCreateChildSaRequest k r) := by unfold generateCreateChildSaRequest; keeps_so2
@[keepsSucc] theorem generateDeleteChildSaRequest_so (k) : Keeps (SO a p) (generateDeleteChildSaRequest k) := by unfold generateDeleteChildSaRequest; keeps_so2
@[keepsSucc] theorem generateDpdRequest_so : Keeps (SO a p) (generateDpdRequest ) := by unfold generateDpdRequest; keeps_so2

@[keepsSucc] theorem genAcquireH_so (x y i) : Keeps (SO a p) (genAcquireH x y i) := by unfold genAcquireH; keeps_so2
@[keepsSucc] theorem genExpireH_so (k h) : Keeps (SO a p) (genExpireH k h) := by unfold genExpireH; keeps_so2
@[keepsSucc] theorem childRekeyPrelude_so (m sa x y) : Keeps (SO a p) (childRekeyPrelude m sa x y) := by unfold childRekeyPrelude; keeps_so2
@[keepsSucc] theorem childNonce_so (m) : Keeps (SO a p) (childNonce m) := by unfold childNonce; keeps_so2
@[keepsSucc] theorem childKe_so (m q) : Keeps (SO a p) (childKe m q) := by unfold childKe; keeps_so2
@[keepsSucc] theorem childCreateResponder_so (q x y m pol) : Keeps (SO a p) (childCreateResponder q x y m pol) := by unfold childCreateResponder; keeps_so2
@[keepsSucc] theorem childNegotiationReqBody_so (m) : Keeps (SO a p) (childNegotiationReqBody m) := by unfold childNegotiationReqBody; keeps_so2
@[keepsSucc] theorem childNegotiationReq_so (m) : Keeps (SO a p) (childNegotiationReq m) := by unfold childNegotiationReq; keeps_so2
@[keepsSucc] theorem processIkeAuthRequest_so (m) : Keeps (SO a p) (processIkeAuthRequest m) := by unfold processIkeAuthRequest; keeps_so2
@[keepsSucc] theorem deleteSpis_so (proto) (l acc) : Keeps (SO a p) (deleteSpis proto l acc) := by
  induction l generalizing acc with
  | nil => unfold deleteSpis; keeps_so2
  | cons spi rest ih =>
    unfold deleteSpis
    keeps_so2
    all_goals exact ih _
@[keepsSucc] theorem deleteLoop_so (l acc) : Keeps (SO a p) (deleteLoop l acc) := by
  induction l generalizing acc with
  | nil => unfold deleteLoop; keeps_so2
  | cons q rest ih =>
    unfold deleteLoop
    keeps_so2
    all_goals exact ih _
@[keepsSucc] theorem processInformationalRequest_so (m) : Keeps (SO a p) (processInformationalRequest m) := by unfold processInformationalRequest; keeps_so2

@[keepsSucc] theorem handleInvalidKe_so (d) : Keeps (SO a p) (handleInvalidKe d) := by unfold handleInvalidKe; keeps_so2
@[keepsSucc] theorem negotiateIkeResponse_so (sl m e r) : Keeps (SO a p) (negotiateIkeResponse sl m e r) := by unfold negotiateIkeResponse; keeps_so2
@[keepsSucc] theorem generateIkeAuthRequest_so : Keeps (SO a p) (generateIkeAuthRequest ) := by unfold generateIkeAuthRequest; keeps_so2
@[keepsSucc] theorem processIkeSaInitResponse_so (m) : Keeps (SO a p) (processIkeSaInitResponse m) := by unfold processIkeSaInitResponse; keeps_so2
@[keepsSucc] theorem childNegotiationResBody_so (m) : Keeps (SO a p) (childNegotiationResBody m) := by unfold childNegotiationResBody; keeps_so2
@[keepsSucc] theorem childNegotiationRes_so (m) : Keeps (SO a p) (childNegotiationRes m) := by unfold childNegotiationRes; keeps_so2
@[keepsSucc] theorem processIkeAuthResponse_so (m) : Keeps (SO a p) (processIkeAuthResponse m) := by unfold processIkeAuthResponse; keeps_so2

@[keepsSucc] theorem childSaResponse_so (prev m) : Keeps (SO a p) (childSaResponse prev m) := by unfold childSaResponse; keeps_so2

@[keepsSucc] theorem processInformationalResponse_so (m) : Keeps (SO a p) (processInformationalResponse m) := by unfold processInformationalResponse; keeps_so2


@[keepsSucc] theorem generateDeleteIkeSaRequest_so : Keeps (SO a p) generateDeleteIkeSaRequest := by
  unfold generateDeleteIkeSaRequest; keeps_so2

end so

/-! ### slots stay filled -/

/-- the successor (resp. the local candidate) exists: nothing ever assigns `None` to `new_ike_sa` -/
def HasSlot (sl : Slot) (s : HSt) : Prop :=
  match sl with
  | .me => True
  | .succ => s.succ.isSome = true
  | .tmp => s.tmp.isSome = true

macro "keeps_hs" : tactic => `(tactic| repeat' (first
  | exact Keeps.pure _
  | exact Keeps.raise _
  | exact Keeps.read _
  | exact Keeps.liftE _
  | exact KeepsOpt.none
  | apply KeepsOpt.some
  | (simp only [keepsPost]; done)
  | (apply Keeps.bind_liftE; intro _ _)
  | apply Keeps.bind
  | apply Keeps.tryCatch
  | intro _
  | split
  | dsimp only))

section hasslot
variable (sl0 : Slot)

@[keepsPost] theorem popVal_hs : Keeps (HasSlot sl0) popVal := by
  constructor; intro s h; unfold popVal; cases sl0 <;> (split <;> exact h)
@[keepsPost] theorem getSlot_hs (sl) : Keeps (HasSlot sl0) (getSlot sl) := by
  cases sl
  · simp only [getSlot, getMe]; exact Keeps.read _
  · constructor; intro s h; simp only [getSlot]; split <;> exact h
  · constructor; intro s h; simp only [getSlot]; split <;> exact h
@[keepsPost] theorem modSlot_hs (sl) (f : XSa → XSa) : Keeps (HasSlot sl0) (modSlot sl f) := by
  unfold modSlot; apply Keeps.modify; intro s h
  cases sl <;> cases sl0 <;> simp_all [HasSlot]
@[keepsPost] theorem markBad_hs : Keeps (HasSlot sl0) markBad := by
  unfold markBad; apply Keeps.modify; intro s h; cases sl0 <;> exact h
@[keepsPost] theorem popBytes_hs : Keeps (HasSlot sl0) popBytes := by unfold popBytes; keeps_hs
@[keepsPost] theorem popBytesOrFail_hs : Keeps (HasSlot sl0) popBytesOrFail := by unfold popBytesOrFail; keeps_hs
@[keepsPost] theorem popOk_hs : Keeps (HasSlot sl0) popOk := by unfold popOk; keeps_hs
@[keepsPost] theorem popNum_hs : Keeps (HasSlot sl0) popNum := by unfold popNum; keeps_hs
@[keepsPost] theorem cookieGate_hs (x m) : Keeps (HasSlot sl0) (cookieGate x m) := by unfold cookieGate; keeps_hs
@[keepsPost] theorem negotiateIkeRequest_hs (sl m e) : Keeps (HasSlot sl0) (negotiateIkeRequest sl m e) := by
  unfold negotiateIkeRequest; keeps_hs
@[keepsPost] theorem negotiateIkeResponse_hs (sl m e r) : Keeps (HasSlot sl0) (negotiateIkeResponse sl m e r) := by
  unfold negotiateIkeResponse; keeps_hs

end hasslot

/-- without a successor, `process_ike_sa_negotiation_response` on the successor raises (AttributeError on `None`) -/
theorem negotiateIkeResponse_needs_succ (m : Msg) (e r : Bool) (s : HSt) (hs : s.succ = none) :
    ∃ x, (negotiateIkeResponse .succ m e r s).1 = .error x := by
  unfold negotiateIkeResponse
  simp only [HM.bind_def, liftE]
  cases paySA m e with
  | error x => exact ⟨x, rfl⟩
  | ok sa =>
    simp only
    cases payNonce m e with
    | error x => exact ⟨x, rfl⟩
    | ok n =>
      simp only
      cases payKE m e with
      | error x => exact ⟨x, rfl⟩
      | ok k =>
        simp only [getSlot, hs]
        exact ⟨_, rfl⟩

/-! ### pre/post-conditions, for the few places where the invariant changes in the middle of a function -/

structure Hoare (P : HSt → Prop) (m : HM α) (Q : α → HSt → Prop) (E : HSt → Prop) : Prop where
  ok : ∀ s x t, P s → m s = (.ok x, t) → Q x t
  err : ∀ s e t, P s → m s = (.error e, t) → E t

theorem Hoare.of_keeps {I : HSt → Prop} {m : HM α} (h : Keeps I m) : Hoare I m (fun _ => I) I where
  ok := fun s x t hs hm => by have := h.keep s hs; rw [hm] at this; exact this
  err := fun s e t hs hm => by have := h.keep s hs; rw [hm] at this; exact this

theorem Hoare.to_keeps {I : HSt → Prop} {m : HM α} (h : Hoare I m (fun _ => I) I) : Keeps I m :=
  ⟨fun s hs => by
    cases hr : m s with
    | mk r t =>
      cases r with
      | ok x => exact h.ok s x t hs hr
      | error e => exact h.err s e t hs hr⟩

theorem Hoare.conseq {P P' : HSt → Prop} {m : HM α} {Q Q' : α → HSt → Prop} {E E' : HSt → Prop} (h : Hoare P m Q E)
    (hP : ∀ s, P' s → P s) (hQ : ∀ x s, Q x s → Q' x s) (hE : ∀ s, E s → E' s) : Hoare P' m Q' E' where
  ok := fun s x t hs hm => hQ x t (h.ok s x t (hP s hs) hm)
  err := fun s e t hs hm => hE t (h.err s e t (hP s hs) hm)

theorem Hoare.bind {P : HSt → Prop} {m : HM α} {f : α → HM β} {Q : α → HSt → Prop} {R : β → HSt → Prop} {E : HSt → Prop}
    (hm : Hoare P m Q E) (hf : ∀ x, Hoare (Q x) (f x) R E) : Hoare P (m >>= f) R E where
  ok := by
    intro s y t hs hb
    rw [HM.bind_def] at hb
    cases hr : m s with
    | mk r s' =>
      rw [hr] at hb
      cases r with
      | ok x => exact (hf x).ok s' y t (hm.ok s x s' hs hr) hb
      | error e => cases hb
  err := by
    intro s e t hs hb
    rw [HM.bind_def] at hb
    cases hr : m s with
    | mk r s' =>
      rw [hr] at hb
      cases r with
      | ok x => exact (hf x).err s' e t (hm.ok s x s' hs hr) hb
      | error e' => have h1 := hm.err s e' s' hs hr; cases hb; exact h1

theorem Hoare.pure {P : HSt → Prop} {Q : α → HSt → Prop} {E : HSt → Prop} (x : α) (h : ∀ s, P s → Q x s) :
    Hoare P (pure x : HM α) Q E where
  ok := fun s y t hs hm => by rw [HM.pure_def] at hm; cases hm; exact h s hs
  err := fun s e t _ hm => by rw [HM.pure_def] at hm; cases hm

theorem Hoare.raise {P : HSt → Prop} {Q : α → HSt → Prop} {E : HSt → Prop} (e : Exc) (h : ∀ s, P s → E s) :
    Hoare P (HM.raise e : HM α) Q E where
  ok := fun s y t _ hm => by cases hm
  err := fun s e' t hs hm => by cases hm; exact h s hs

theorem Hoare.modify {P : HSt → Prop} {Q : Unit → HSt → Prop} {E : HSt → Prop} (f : HSt → HSt) (h : ∀ s, P s → Q () (f s)) :
    Hoare P (HM.modify f) Q E where
  ok := fun s y t hs hm => by cases hm; exact h s hs
  err := fun s e t _ hm => by cases hm

/-- a call that keeps `I` and `J`, and raises whenever `J` does not hold: if it returns, both hold -/
theorem Hoare.of_needs {I J : HSt → Prop} {m : HM α} (hI : Keeps I m) (hJ : Keeps J m)
    (hF : ∀ s, ¬ J s → ∃ e, (m s).1 = .error e) : Hoare I m (fun _ s => I s ∧ J s) I where
  ok := by
    intro s x t hs hm
    have h1 := hI.keep s hs
    rw [hm] at h1
    refine ⟨h1, ?_⟩
    by_cases hj : J s
    · have := hJ.keep s hj; rw [hm] at this; exact this
    · obtain ⟨e, he⟩ := hF s hj; rw [hm] at he; cases he
  err := fun s e t hs hm => by have := hI.keep s hs; rw [hm] at this; exact this

theorem Hoare.tryCatch {P : HSt → Prop} {m : HM α} {h : Exc → Option (HM α)} {Q : α → HSt → Prop} {E1 E : HSt → Prop}
    (hm : Hoare P m Q E1) (hh : ∀ e k, h e = some k → Hoare E1 k Q E) (hn : ∀ s, E1 s → E s) : Hoare P (HM.tryCatch m h) Q E where
  ok := by
    intro s x t hs hb
    unfold HM.tryCatch at hb
    cases hr : m s with
    | mk r s' =>
      rw [hr] at hb
      cases r with
      | ok y => cases hb; exact hm.ok s _ _ hs hr
      | error e =>
        simp only at hb
        cases hk : h e with
        | none => rw [hk] at hb; cases hb
        | some k => rw [hk] at hb; exact (hh e k hk).ok s' x t (hm.err s e s' hs hr) hb
  err := by
    intro s e' t hs hb
    unfold HM.tryCatch at hb
    cases hr : m s with
    | mk r s' =>
      rw [hr] at hb
      cases r with
      | ok y => cases hb
      | error e =>
        simp only at hb
        cases hk : h e with
        | none => have h1 := hn _ (hm.err s e s' hs hr); rw [hk] at hb; cases hb; exact h1
        | some k => rw [hk] at hb; exact (hh e k hk).err s' e' t (hm.err s e s' hs hr) hb

/-! ### the invariant through a rekey -/

def keysXo (o : Option XSa) : List Key := match o with | some n => keysX n | none => []

/-- a successor has this IKE_SA's addresses and the shell's view of its CHILD_SAs is the projection of its records -/
def SuccWf (a p : Bytes) (o : Option XSa) : Prop :=
  ∀ n, o = some n → n.core.myAddr = a ∧ n.core.peerAddr = p ∧ n.core.children = n.ext.kids.map Child.ref

/-- **the per-object invariant**: the SAD is `base` (what belongs to other objects) plus the keys of the successor's CHILD_SAs plus
    the keys of this IKE_SA's CHILD_SAs, all different; and a successor holds CHILD_SAs only after the hand-over -/
def FullI (base : List Key) (a p : Bytes) (s : HSt) : Prop :=
  SadI (base ++ keysXo s.succ) a p s ∧ SuccWf a p s.succ ∧ (keysXo s.succ ≠ [] → inPost s.me.core.st)

/-- REKEYED, DEL_AFTER_REKEY_IKE_SA_REQ_SENT: the states in which the controller registers the successor -/
def handed (st : Nat) : Prop := st = stREKEYED ∨ st = stDEL_AFTER_REKEY_IKE_SA_REQ_SENT

/-- … and, where a call returns: a successor that holds CHILD_SAs is about to be registered -/
def FullH (base : List Key) (a p : Bytes) (s : HSt) : Prop :=
  FullI base a p s ∧ (keysXo s.succ ≠ [] → handed s.me.core.st)

/-- before the hand-over: the successor (if any) is empty -/
def G (base : List Key) (a p : Bytes) (s : HSt) : Prop := SadI base a p s ∧ SO a p s

theorem keysX_nil (n : XSa) (h : n.ext.kids = []) : keysX n = [] := by unfold keysX; rw [h]; rfl

theorem SO.keysXo_nil {a p : Bytes} {s : HSt} (h : SO a p s) : keysXo s.succ = [] := by
  unfold keysXo
  cases hs : s.succ with
  | none => rfl
  | some n => exact keysX_nil n (h.2.2.1 n hs).2.2.1

theorem G.full {base : List Key} {a p : Bytes} {s : HSt} (h : G base a p s) : FullI base a p s := by
  have hk := h.2.keysXo_nil
  refine ⟨by rw [hk, List.append_nil]; exact h.1, ?_, by rw [hk]; intro hne; exact absurd rfl hne⟩
  intro n hn
  obtain ⟨h1, h2, h3, h4⟩ := h.2.2.2.1 n hn
  exact ⟨h1, h2, by rw [h3, h4]; rfl⟩

theorem G.fullH {base : List Key} {a p : Bytes} {s : HSt} (h : G base a p s) : FullH base a p s :=
  ⟨h.full, fun hne => absurd h.2.keysXo_nil hne⟩

/-- **the hand-over**: from a state whose successor-to-be (the attribute, or the local candidate) is an empty object with this
    IKE_SA's addresses, the records move over unchanged, the kernel is not asked anything, and the state is REKEYED -/
theorem handOver_full (base : List Key) (a p : Bytes) (fromTmp : Bool) (s : HSt) (h : G base a p s)
    (hslot : (if fromTmp then s.tmp else s.succ).isSome = true) :
    FullI base a p (handOver fromTmp s).2 ∧ (handOver fromTmp s).2.me.core.st = stREKEYED := by
  obtain ⟨⟨a1, a2, a3, a4, a5⟩, b1, b2, b3, b4⟩ := h
  cases hn : (if fromTmp then s.tmp else s.succ) with
  | none => rw [hn] at hslot; cases hslot
  | some n =>
    have hne : ObjE a p n := by
      cases fromTmp
      · exact b3 n (by simpa using hn)
      · exact b4 n (by simpa using hn)
    have hme : (handOver fromTmp s).2.me = { (s.me.setKids []) with core := { (s.me.setKids []).core with st := stREKEYED } } := rfl
    have hsucc : (handOver fromTmp s).2.succ =
        some { (n.setKids s.me.ext.kids) with core := { (n.setKids s.me.ext.kids).core with st := stESTABLISHED } } := by
      show (Option.map _ (if fromTmp then s.tmp else s.succ)) = _
      rw [hn]; rfl
    have hsad : (handOver fromTmp s).2.sad = s.sad := rfl
    have hkeys : keysXo (handOver fromTmp s).2.succ = keysX s.me := by
      rw [hsucc]
      show keysX _ = keysX s.me
      apply keysX_congr
      · simp [XSa.setKids, hne.1, a1]
      · simp [XSa.setKids, hne.2.1, a2]
      · simp [XSa.setKids]
    have hkme : keysX (handOver fromTmp s).2.me = [] := by rw [hme]; simp [keysX, XSa.setKids]
    refine ⟨⟨⟨?_, ?_, ?_, ?_, ?_⟩, ?_, ?_⟩, ?_⟩
    · rw [hme]; simpa [XSa.setKids] using a1
    · rw [hme]; simpa [XSa.setKids] using a2
    · intro e; rw [hsad, hkeys, hkme, a3 e]; simp
    · rw [hkeys, hkme, List.append_nil]; exact a4
    · rw [hme]; simp [XSa.setKids]
    · intro m hm
      rw [hsucc] at hm
      cases hm
      exact ⟨by simp [XSa.setKids, hne.1], by simp [XSa.setKids, hne.2.1], by simp [XSa.setKids]⟩
    · intro _; rw [hme]; exact Or.inl rfl
    · rw [hme]

/-- `generate_delete_ike_sa_request` right after the hand-over: cannot raise, leaves DEL_AFTER_REKEY_IKE_SA_REQ_SENT -/
theorem generateDeleteIkeSaRequest_after (base : List Key) (a p : Bytes) :
    Hoare (fun s => FullI base a p s ∧ s.me.core.st = stREKEYED) generateDeleteIkeSaRequest
      (fun _ s => FullI base a p s ∧ s.me.core.st = stDEL_AFTER_REKEY_IKE_SA_REQ_SENT) (fun _ => False) := by
  constructor
  · intro s x t ⟨hf, hst⟩ hm
    unfold generateDeleteIkeSaRequest assertState at hm
    simp only [HM.bind_def, getMe, hst, modCore, HM.modify, HM.pure_def] at hm
    simp only [stREKEYED, stESTABLISHED, List.contains_cons, List.contains_nil] at hm
    simp only [show ((20 : Nat) == 10 || (20 == 20 || false)) = true from by decide, ↓reduceIte] at hm
    cases hm
    obtain ⟨f1, f2, f3⟩ := hf
    refine ⟨⟨f1.of_safe rfl rfl rfl rfl rfl, f2, ?_⟩, ?_⟩
    · intro _
      simp only [hst]
      right; left
      decide
    · simp only [hst]
      decide
  · intro s e t ⟨hf, hst⟩ hm
    unfold generateDeleteIkeSaRequest assertState at hm
    simp only [HM.bind_def, getMe, hst, modCore, HM.modify, HM.pure_def] at hm
    simp only [stREKEYED, stESTABLISHED, List.contains_cons, List.contains_nil] at hm
    simp only [show ((20 : Nat) == 10 || (20 == 20 || false)) = true from by decide, ↓reduceIte] at hm
    cases hm

/-! ### regime 1: before the hand-over (`G`) -/

theorem newXSa_post (conf : Conf) (now : Nat) (isInit : Bool) (peerSpi a' p' : Bytes) (s : HSt) (x : XSa) (s' : HSt)
    (h : newXSa conf now isInit peerSpi a' p' s = (.ok x, s')) : ObjE a' p' x := by
  unfold newXSa at h
  rw [HM.bind_def] at h
  split at h
  · rw [HM.bind_def] at h
    split at h
    · rw [HM.pure_def] at h
      cases h
      exact ⟨rfl, rfl, rfl, rfl⟩
    · cases h
  · cases h

section regime1
variable (base : List Key) (a p : Bytes)

@[keepsSucc] theorem generateRekeyIkeSaRequest_so (now) : Keeps (SO a p) (generateRekeyIkeSaRequest now) := by
  unfold generateRekeyIkeSaRequest
  apply Keeps.bind (assertState_so a p _)
  intro _
  apply Keeps.bind_getMe (fun x => x.core.myAddr = a ∧ x.core.peerAddr = p) (fun s h => ⟨h.1, h.2.1⟩)
  intro me hme
  apply Keeps.bind_post (fun x => ObjE a p x)
    (fun s x s' h => by have := newXSa_post _ _ _ _ _ _ s x s' h; rw [hme.1, hme.2] at this; exact this) (newXSa_so a p ..)
  intro new hnew
  apply Keeps.bind
  · apply Keeps.modify; intro s h
    exact ⟨h.1, h.2.1, by intro n hn; cases hn; exact hnew, h.2.2.2⟩
  · intro _
    apply Keeps.bind (generateIkeNegotiation_so a p _)
    intro payloads
    dsimp only
    apply Keeps.bind
    · unfold modCore; apply Keeps.modify; intro s h; exact h
    · intro _; exact Keeps.pure _

theorem G.keeps {m : HM α} (h1 : Keeps (SadI base a p) m) (h2 : Keeps (SO a p) m) : Keeps (G base a p) m :=
  ⟨fun s h => ⟨h1.keep s h.1, h2.keep s h.2⟩⟩

/-- a computation that keeps `G` meets the rekey contract trivially: nothing was handed over -/
theorem Hoare.of_G {m : HM α} (h1 : Keeps (SadI base a p) m) (h2 : Keeps (SO a p) m) :
    Hoare (G base a p) m (fun _ => FullH base a p) (G base a p) :=
  (Hoare.of_keeps (G.keeps base a p h1 h2)).conseq (fun _ h => h) (fun _ _ h => h.fullH) (fun _ h => h)

theorem handOver_hoare (fromTmp : Bool) :
    Hoare (fun s => G base a p s ∧ (if fromTmp then s.tmp else s.succ).isSome = true) (handOver fromTmp)
      (fun _ s => FullI base a p s ∧ s.me.core.st = stREKEYED) (G base a p) where
  ok := by
    intro s x t hs hm
    have ht : t = (handOver fromTmp s).2 := by rw [hm]
    rw [ht]
    exact handOver_full base a p fromTmp s hs.1 hs.2
  err := by
    intro s e t _ hm
    have : (handOver fromTmp s).1 = .ok () := rfl
    rw [hm] at this
    cases this

/-- reading the object and returning cannot raise and changes nothing -/
theorem Hoare.read_pure {P : HSt → Prop} {E : HSt → Prop} (f : XSa → β) :
    Hoare P (getMe >>= fun me => (Pure.pure (f me) : HM β)) (fun _ => P) E where
  ok := by intro s x t hs hm; rw [HM.bind_def] at hm; simp only [getMe, HM.pure_def] at hm; cases hm; exact hs
  err := by intro s e t _ hm; rw [HM.bind_def] at hm; simp only [getMe, HM.pure_def] at hm; cases hm

/-- **IKE_SA rekey, responder**: either nothing changes (busy, or the negotiation failed: the candidate is dropped), or the
    CHILD_SAs are handed to the new successor — never a raise after the hand-over -/
theorem ikeRekeyRequest_full (now : Nat) (m : Msg) (p0 : Proposal) :
    Hoare (G base a p) (ikeRekeyRequest now m p0) (fun _ => FullH base a p) (G base a p) := by
  unfold ikeRekeyRequest
  apply Hoare.bind (Q := fun me s => G base a p s ∧ me.core.myAddr = a ∧ me.core.peerAddr = p)
  · constructor
    · intro s x t hs hm; cases hm; exact ⟨hs, hs.2.1, hs.2.2.1⟩
    · intro s e t _ hm; cases hm
  · intro me
    split
    · exact Hoare.pure _ (fun s h => h.1.fullH)
    · apply Hoare.bind (Q := fun new s => G base a p s ∧ ObjE a p new)
      · constructor
        · intro s x t hs hm
          have hk := (G.keeps base a p (newXSa_s base a p me.ext.conf now false p0.spi me.core.myAddr me.core.peerAddr)
            (newXSa_so a p me.ext.conf now false p0.spi me.core.myAddr me.core.peerAddr)).keep s hs.1
          rw [hm] at hk
          have := newXSa_post _ _ _ _ _ _ s x t hm
          rw [hs.2.1, hs.2.2] at this
          exact ⟨hk, this⟩
        · intro s e t hs hm
          have hk := (G.keeps base a p (newXSa_s base a p me.ext.conf now false p0.spi me.core.myAddr me.core.peerAddr)
            (newXSa_so a p me.ext.conf now false p0.spi me.core.myAddr me.core.peerAddr)).keep s hs.1
          rw [hm] at hk
          exact hk
      · intro new
        apply Hoare.bind (Q := fun _ s => G base a p s ∧ s.tmp.isSome = true)
        · apply Hoare.modify
          intro s hs
          refine ⟨⟨hs.1.1.of_safe rfl rfl rfl rfl rfl, hs.1.2.1, hs.1.2.2.1, hs.1.2.2.2.1, ?_⟩, rfl⟩
          intro n hn; cases hn; exact hs.2
        · intro _
          apply Hoare.tryCatch (E1 := G base a p)
          · apply Hoare.bind (Q := fun _ s => G base a p s ∧ s.tmp.isSome = true)
            · exact (Hoare.of_keeps (Keeps.and (G.keeps base a p (negotiateIkeRequest_s base a p ..) (negotiateIkeRequest_so a p ..))
                (negotiateIkeRequest_hs .tmp ..))).conseq (fun _ h => h) (fun _ _ h => h) (fun _ h => h.1)
            · intro payloads
              apply Hoare.bind (Q := fun _ s => FullI base a p s ∧ s.me.core.st = stREKEYED)
              · exact (handOver_hoare base a p true).conseq (fun _ h => h) (fun _ _ h => h) (fun _ h => h)
              · intro _; exact Hoare.pure _ (fun s h => ⟨h.1, fun _ => Or.inl h.2⟩)
          · intro e k hk
            split at hk
            · split at hk
              · split at hk
                · cases hk
                  apply Hoare.bind (Q := fun _ => G base a p)
                  · apply Hoare.modify
                    intro s hs
                    exact ⟨hs.1.of_safe rfl rfl rfl rfl rfl, hs.2.1, hs.2.2.1, hs.2.2.2.1, by intro n hn; cases hn⟩
                  · intro _; exact Hoare.pure _ (fun s h => h.fullH)
                · cases hk
              · cases hk
            · cases hk
          · exact fun _ h => h

/-- **CREATE_CHILD_SA request**, whatever it asks for -/
theorem processCreateChildSaRequest_full (now : Nat) (m : Msg) :
    Hoare (G base a p) (processCreateChildSaRequest now m) (fun _ => FullH base a p) (G base a p) := by
  unfold processCreateChildSaRequest
  apply Hoare.bind (Hoare.of_keeps (G.keeps base a p (checkInStates_s base a p _) (checkInStates_so a p _)))
  intro _
  apply Hoare.bind (Hoare.of_keeps (Keeps.liftE _))
  intro sa
  split
  · exact Hoare.raise _ (fun _ h => h)
  · dsimp only
    split
    · apply Hoare.bind (ikeRekeyRequest_full base a p now m _)
      intro payloads
      exact Hoare.read_pure _
    · apply Hoare.bind (Hoare.of_G base a p (childNegotiationReq_s base a p m) (childNegotiationReq_so a p m))
      intro payloads
      exact Hoare.read_pure _

/-- the answer to our own IKE_SA rekey request, once it is known to be one: negotiate on the successor, hand over, start the
    delete exchange for this IKE_SA -/
theorem rekeyTail_full (m : Msg) :
    Hoare (G base a p) (do negotiateIkeResponse Slot.succ m true true; handOver false; let r ← generateDeleteIkeSaRequest; pure (HRes.request r))
      (fun _ => FullH base a p) (G base a p) := by
  apply Hoare.bind (Q := fun _ s => G base a p s ∧ s.succ.isSome = true)
  · exact Hoare.of_needs (G.keeps base a p (negotiateIkeResponse_s base a p ..) (negotiateIkeResponse_so a p ..))
      (negotiateIkeResponse_hs .succ ..)
      (fun s hs => negotiateIkeResponse_needs_succ m true true s (by
        cases h : s.succ with
        | none => rfl
        | some n => exact absurd (by simp [HasSlot, h]) hs))
  · intro _
    apply Hoare.bind (Q := fun _ s => FullI base a p s ∧ s.me.core.st = stREKEYED)
    · exact (handOver_hoare base a p false).conseq (fun _ h => h) (fun _ _ h => h) (fun _ h => h)
    · intro _
      apply Hoare.bind (Q := fun _ s => FullI base a p s ∧ s.me.core.st = stDEL_AFTER_REKEY_IKE_SA_REQ_SENT)
      · exact (generateDeleteIkeSaRequest_after base a p).conseq (fun _ h => h) (fun _ _ h => h) (fun _ h => h.elim)
      · intro r; exact Hoare.pure _ (fun _ h => ⟨h.1, fun _ => Or.inr h.2⟩)

/-- **IKE_SA rekey, initiator** -/
theorem ikeRekeyResponse_full (now : Nat) (m : Msg) (me : XSa) :
    Hoare (G base a p) (ikeRekeyResponse now m me) (fun _ => FullH base a p) (G base a p) := by
  unfold ikeRekeyResponse
  split
  · -- INVALID_KE_PAYLOAD: retry
    apply Hoare.of_G base a p
    · keeps_s
    · keeps_so2
  · split
    · apply Hoare.of_G base a p
      · keeps_s
      · keeps_so2
    · split
      · apply Hoare.of_G base a p
        · keeps_s
        · keeps_so2
      · -- the answer to our rekey request
        dsimp only
        split
        · apply Hoare.bind (Q := fun _ => G base a p) (Hoare.raise _ (fun _ h => h))
          intro _
          exact rekeyTail_full base a p m
        · apply Hoare.bind (Q := fun _ => G base a p) (Hoare.of_keeps (Keeps.liftE _))
          intro _
          exact rekeyTail_full base a p m

/-- **CREATE_CHILD_SA response**, whichever request it answers -/
theorem processCreateChildSaResponse_full (now : Nat) (m : Msg) :
    Hoare (G base a p) (processCreateChildSaResponse now m) (fun _ => FullH base a p) (G base a p) := by
  unfold processCreateChildSaResponse
  apply Hoare.bind (Hoare.of_keeps (G.keeps base a p (checkInStates_s base a p _) (checkInStates_so a p _)))
  intro _
  apply Hoare.bind (Hoare.of_keeps (G.keeps base a p (abortOnErrorNotifies_s base a p ..) (abortOnErrorNotifies_so a p ..)))
  intro _
  apply Hoare.bind (Hoare.of_keeps (G.keeps base a p (getMe_s base a p) (getMe_so a p)))
  intro me
  split
  · exact ikeRekeyResponse_full base a p now m me
  · exact Hoare.of_G base a p (childSaResponse_s base a p _ m) (childSaResponse_so a p _ m)

end regime1

/-! ### regime 2: after the hand-over (`P2`: the state stays REKEYED / DEL_AFTER_REKEY_IKE_SA_REQ_SENT / DELETED, the successor is
    not touched) -/

def P2 (c0 : Option XSa) (s : HSt) : Prop := inPost s.me.core.st ∧ s.succ = c0

macro "keeps_p2" : tactic => `(tactic| repeat' (first
  | exact Keeps.pure _
  | exact Keeps.raise _
  | exact Keeps.read _
  | exact Keeps.liftE _
  | exact KeepsOpt.none
  | apply KeepsOpt.some
  | (simp only [keepsKernel2]; done)
  | (apply Keeps.bind_liftE; intro _ _)
  | apply Keeps.bind
  | apply Keeps.tryCatch
  | intro _
  | split
  | (simp only [modCore, modExt, modMe, setState, markBad]; apply Keeps.modify; intro s h;
     simp_all [P2, inPost, XSa.setKids, stREKEYED, stDELETED, stDEL_AFTER_REKEY_IKE_SA_REQ_SENT]; done)
  | (apply Keeps.modify; intro s h; simp_all [P2, inPost]; done)
  | dsimp only))

section regime2
variable (c0 : Option XSa)

@[keepsKernel2] theorem trackChild_p2 (k) : Keeps (P2 c0) (trackChild k) := by
  constructor; intro s h
  refine ⟨?_, by rw [trackChild_succ]; exact h.2⟩
  rcases trackChild_me k s with h1 | h1 <;> (rw [h1]; simpa [XSa.setKids] using h.1)
@[keepsKernel2] theorem untrackChild_p2 (k) : Keeps (P2 c0) (untrackChild k) := by
  constructor; intro s h
  refine ⟨?_, by rw [untrackChild_succ]; exact h.2⟩
  rcases untrackChild_me k s with h1 | h1 <;> (rw [h1]; simpa [XSa.setKids] using h.1)
@[keepsKernel2] theorem popVal_p2 : Keeps (P2 c0) popVal := by
  constructor; intro s h; unfold popVal; split <;> exact h
@[keepsKernel2] theorem getSlot_p2 (sl) : Keeps (P2 c0) (getSlot sl) := by
  cases sl
  · simp only [getSlot, getMe]; exact Keeps.read _
  · constructor; intro s h; simp only [getSlot]; split <;> exact h
  · constructor; intro s h; simp only [getSlot]; split <;> exact h
@[keepsKernel2] theorem getPayload_p2 (m pt e) : Keeps (P2 c0) (getPayload m pt e) := Keeps.liftE _
@[keepsKernel2] theorem markBad_p2 : Keeps (P2 c0) markBad := by unfold markBad; keeps_p2
@[keepsKernel2] theorem popBytes_p2 : Keeps (P2 c0) popBytes := by unfold popBytes; keeps_p2
@[keepsKernel2] theorem popBytesOrFail_p2 : Keeps (P2 c0) popBytesOrFail := by unfold popBytesOrFail; keeps_p2
@[keepsKernel2] theorem popOk_p2 : Keeps (P2 c0) popOk := by unfold popOk; keeps_p2
@[keepsKernel2] theorem popNum_p2 : Keeps (P2 c0) popNum := by unfold popNum; keeps_p2
@[keepsKernel2] theorem popAuthGen_p2 : Keeps (P2 c0) popAuthGen := by unfold popAuthGen; keeps_p2
@[keepsKernel2] theorem popAuthVerify_p2 : Keeps (P2 c0) popAuthVerify := by unfold popAuthVerify; keeps_p2
@[keepsKernel2] theorem getMe_p2 : Keeps (P2 c0) getMe := by unfold getMe; keeps_p2
@[keepsKernel2] theorem abortOnErrorNotifies_p2 (m e i) : Keeps (P2 c0) (abortOnErrorNotifies m e i) := by unfold abortOnErrorNotifies; keeps_p2
@[keepsKernel2] theorem checkInStates_p2 (l) : Keeps (P2 c0) (checkInStates l) := by unfold checkInStates; keeps_p2
@[keepsKernel2] theorem assertState_p2 (l) : Keeps (P2 c0) (assertState l) := by unfold assertState; keeps_p2
@[keepsKernel2] theorem childRekeyPrelude_p2 (m sa x y) : Keeps (P2 c0) (childRekeyPrelude m sa x y) := by unfold childRekeyPrelude; keeps_p2
@[keepsKernel2] theorem childNonce_p2 (m) : Keeps (P2 c0) (childNonce m) := by unfold childNonce; keeps_p2
@[keepsKernel2] theorem childKe_p2 (m q) : Keeps (P2 c0) (childKe m q) := by unfold childKe; keeps_p2
@[keepsKernel2] theorem childCreateResponder_p2 (q x y m pol) : Keeps (P2 c0) (childCreateResponder q x y m pol) := by unfold childCreateResponder; keeps_p2
@[keepsKernel2] theorem childNegotiationReqBody_p2 (m) : Keeps (P2 c0) (childNegotiationReqBody m) := by unfold childNegotiationReqBody; keeps_p2
@[keepsKernel2] theorem childNegotiationReq_p2 (m) : Keeps (P2 c0) (childNegotiationReq m) := by unfold childNegotiationReq; keeps_p2
@[keepsKernel2] theorem deleteSpis_p2 (proto) (l acc) : Keeps (P2 c0) (deleteSpis proto l acc) := by
  induction l generalizing acc with
  | nil => unfold deleteSpis; keeps_p2
  | cons spi rest ih =>
    unfold deleteSpis
    keeps_p2
    all_goals exact ih _
@[keepsKernel2] theorem deleteLoop_p2 (l acc) : Keeps (P2 c0) (deleteLoop l acc) := by
  induction l generalizing acc with
  | nil => unfold deleteLoop; keeps_p2
  | cons q rest ih =>
    unfold deleteLoop
    keeps_p2
    all_goals exact ih _
@[keepsKernel2] theorem processInformationalRequest_p2 (m) : Keeps (P2 c0) (processInformationalRequest m) := by unfold processInformationalRequest; keeps_p2


theorem checkInStates_fails_p2 (l : List Nat) (hl : ∀ x ∈ l, ¬ inPost x) : Fails (P2 c0) (checkInStates l) := by
  constructor
  intro s h
  have hm : ¬ s.me.core.st ∈ l := fun hm => hl _ hm h.1
  refine ⟨excStateError, ?_⟩
  show ((getMe >>= fun me => if l.contains me.core.st = true then pure () else HM.raise excStateError) s).1 = _
  rw [HM.bind_def]
  simp [getMe, hm, HM.raise]

theorem assertState_fails_p2 (l : List Nat) (hl : ∀ x ∈ l, ¬ inPost x) : Fails (P2 c0) (assertState l) := by
  constructor
  intro s h
  have hm : ¬ s.me.core.st ∈ l := fun hm => hl _ hm h.1
  refine ⟨excPython, ?_⟩
  show ((getMe >>= fun me => if l.contains me.core.st = true then pure () else HM.raise excPython) s).1 = _
  rw [HM.bind_def]
  simp [getMe, hm, HM.raise]

theorem cut_check {f : Unit → HM β} (l : List Nat) (hl : ∀ x ∈ l, ¬ inPost x) : Keeps (P2 c0) (checkInStates l >>= f) :=
  Keeps.bind_fails (checkInStates_p2 c0 l) (checkInStates_fails_p2 c0 l hl)
theorem cut_assert {f : Unit → HM β} (l : List Nat) (hl : ∀ x ∈ l, ¬ inPost x) : Keeps (P2 c0) (assertState l >>= f) :=
  Keeps.bind_fails (assertState_p2 c0 l) (assertState_fails_p2 c0 l hl)

@[keepsKernel2] theorem processIkeSaInitRequest_p2 (m) : Keeps (P2 c0) (processIkeSaInitRequest m) := by
  unfold processIkeSaInitRequest; exact cut_check c0 _ (by decide)
@[keepsKernel2] theorem processIkeAuthRequest_p2 (m) : Keeps (P2 c0) (processIkeAuthRequest m) := by
  unfold processIkeAuthRequest; exact cut_check c0 _ (by decide)
@[keepsKernel2] theorem generateIkeSaInitRequest_p2 (k) : Keeps (P2 c0) (generateIkeSaInitRequest k) := by
  unfold generateIkeSaInitRequest; exact cut_assert c0 _ (by decide)
@[keepsKernel2] theorem generateCreateChildSaRequest_p2 (k r) : Keeps (P2 c0) (generateCreateChildSaRequest k r) := by
  unfold generateCreateChildSaRequest; exact cut_assert c0 _ (by decide)
@[keepsKernel2] theorem generateDeleteChildSaRequest_p2 (k) : Keeps (P2 c0) (generateDeleteChildSaRequest k) := by
  unfold generateDeleteChildSaRequest; exact cut_assert c0 _ (by decide)
@[keepsKernel2] theorem generateDpdRequest_p2 : Keeps (P2 c0) generateDpdRequest := by
  unfold generateDpdRequest; exact cut_assert c0 _ (by decide)
@[keepsKernel2] theorem generateRekeyIkeSaRequest_p2 (now) : Keeps (P2 c0) (generateRekeyIkeSaRequest now) := by
  unfold generateRekeyIkeSaRequest; exact cut_assert c0 _ (by decide)
@[keepsKernel2] theorem generateIkeAuthRequest_p2 : Keeps (P2 c0) generateIkeAuthRequest := by
  unfold generateIkeAuthRequest; exact cut_assert c0 _ (by decide)
@[keepsKernel2] theorem processIkeSaInitResponse_p2 (m) : Keeps (P2 c0) (processIkeSaInitResponse m) := by
  unfold processIkeSaInitResponse; exact cut_check c0 _ (by decide)
@[keepsKernel2] theorem processIkeAuthResponse_p2 (m) : Keeps (P2 c0) (processIkeAuthResponse m) := by
  unfold processIkeAuthResponse; exact cut_check c0 _ (by decide)
@[keepsKernel2] theorem processCreateChildSaResponse_p2 (now m) : Keeps (P2 c0) (processCreateChildSaResponse now m) := by
  unfold processCreateChildSaResponse; exact cut_check c0 _ (by decide)
@[keepsKernel2] theorem genAcquireH_p2 (x y i) : Keeps (P2 c0) (genAcquireH x y i) := by unfold genAcquireH; keeps_p2
@[keepsKernel2] theorem genExpireH_p2 (k h) : Keeps (P2 c0) (genExpireH k h) := by unfold genExpireH; keeps_p2
@[keepsKernel2] theorem generateDeleteIkeSaRequest_p2 : Keeps (P2 c0) generateDeleteIkeSaRequest := by
  unfold generateDeleteIkeSaRequest
  apply Keeps.bind (assertState_p2 c0 _)
  intro _
  apply Keeps.bind (getMe_p2 c0)
  intro x
  apply Keeps.bind
  · unfold modCore; apply Keeps.modify; intro s hs
    refine ⟨?_, hs.2⟩
    have h1 := hs.1
    simp only
    split
    · rename_i h10; rw [h10] at h1; exact absurd h1 (by decide)
    · right; left; rfl
  · intro _; exact Keeps.pure _

theorem ikeRekeyRequest_p2 (now m q) : Keeps (P2 c0) (ikeRekeyRequest now m q) := by
  unfold ikeRekeyRequest
  apply Keeps.bind_getMe (fun x => inPost x.core.st) (fun s h => h.1)
  intro x hx
  split
  · exact Keeps.pure _
  · rename_i h10
    have : x.core.st = stESTABLISHED := by simpa using h10
    rw [this] at hx
    exact absurd hx (by decide)

@[keepsKernel2] theorem processCreateChildSaRequest_p2 (now m) : Keeps (P2 c0) (processCreateChildSaRequest now m) := by
  unfold processCreateChildSaRequest
  apply Keeps.bind (checkInStates_p2 c0 _)
  intro _
  apply Keeps.bind_liftE
  intro sa _
  split
  · exact Keeps.raise _
  · dsimp only
    split
    · apply Keeps.bind (ikeRekeyRequest_p2 c0 now m _)
      intro _; keeps_p2
    · apply Keeps.bind (childNegotiationReq_p2 c0 m)
      intro _; keeps_p2

theorem abortOnErrorNotifies_any (I : HSt → Prop) (m e i) : Keeps I (abortOnErrorNotifies m e i) := by
  unfold abortOnErrorNotifies
  split
  · exact Keeps.raise _
  · exact Keeps.pure _

/-- the only response an IKE_SA still waits for after the hand-over is the one to its own DELETE -/
@[keepsKernel2] theorem processInformationalResponse_p2 (m) : Keeps (P2 c0) (processInformationalResponse m) := by
  apply Hoare.to_keeps
  unfold processInformationalResponse
  apply Hoare.bind (Q := fun _ s => P2 c0 s ∧ s.me.core.st = stDEL_AFTER_REKEY_IKE_SA_REQ_SENT)
  · constructor
    · intro s x t hs hm
      unfold checkInStates at hm
      rw [HM.bind_def] at hm
      simp only [getMe] at hm
      split at hm
      · rename_i hc
        rw [HM.pure_def] at hm; cases hm
        refine ⟨hs, ?_⟩
        have h1 := hs.1
        simp only [List.contains_cons, List.contains_nil, Bool.or_false, Bool.or_eq_true, beq_iff_eq] at hc
        rcases hc with hc | hc | hc | hc
        · rw [hc] at h1; exact absurd h1 (by decide)
        · rw [hc] at h1; exact absurd h1 (by decide)
        · rw [hc] at h1; exact absurd h1 (by decide)
        · exact hc
      · cases hm
    · intro s e t hs hm
      have := (checkInStates_p2 c0 [stDEL_CHILD_REQ_SENT, stDEL_IKE_SA_REQ_SENT, stDPD_REQ_SENT, stDEL_AFTER_REKEY_IKE_SA_REQ_SENT]).keep s hs
      rw [hm] at this; exact this
  · intro _
    apply Hoare.bind (Q := fun _ s => P2 c0 s ∧ s.me.core.st = stDEL_AFTER_REKEY_IKE_SA_REQ_SENT)
      ((Hoare.of_keeps (abortOnErrorNotifies_any _ m true [])).conseq (fun _ h => h) (fun _ _ h => h) (fun _ h => h.1))
    intro _
    apply Hoare.bind (Q := fun me s => P2 c0 s ∧ me.core.st = stDEL_AFTER_REKEY_IKE_SA_REQ_SENT)
    · constructor
      · intro s x t hs hm; cases hm; exact ⟨hs.1, hs.2⟩
      · intro s e t _ hm; cases hm
    · intro me
      split
      · rename_i h14
        constructor
        · intro s x t hs _; rw [hs.2] at h14; exact absurd h14 (by decide)
        · intro s e t hs _; rw [hs.2] at h14; exact absurd h14 (by decide)
      · split
        · apply Hoare.bind (Q := fun _ => P2 c0)
          · apply Hoare.modify; intro s hs; exact ⟨Or.inr (Or.inr rfl), hs.1.2⟩
          · intro _; exact Hoare.pure _ (fun _ h => h)
        · rename_i h2
          constructor
          · intro s x t hs _; exact absurd (Or.inr hs.2) h2
          · intro s e t hs _; exact absurd (Or.inr hs.2) h2

end regime2

/-! ### the contract of every delegated call, through IKE_SA rekeys -/

theorem keysX_eq_nil (n : XSa) (h : keysX n = []) : n.ext.kids = [] := by
  unfold keysX at h
  cases hk : n.ext.kids with
  | nil => rfl
  | cons k r => rw [hk] at h; simp [List.flatMap_cons, kidKeys] at h

/-- **what a call delivers, seen from its caller**: from a state that satisfies the per-object invariant (and has no left-over local
    candidate), a call that returns leaves one that does; a call that raises leaves one that does, and either has not touched the
    successor or leaves it empty — it never raises after a hand-over -/
def CallOk (base : List Key) (a p : Bytes) (h : HM α) : Prop :=
  ∀ s, FullI base a p s → s.tmp = none →
    (∀ x t, h s = (.ok x, t) → FullI base a p t) ∧
    (∀ e t, h s = (.error e, t) → FullI base a p t ∧ (t.succ = s.succ ∨ keysXo t.succ = []))

section contract
variable (base : List Key) (a p : Bytes)

theorem callOk_of {h : HM α} (h1 : Hoare (G base a p) h (fun _ => FullH base a p) (G base a p))
    (h2 : ∀ B c0, Keeps (fun s => SadI B a p s ∧ P2 c0 s) h) : CallOk base a p h := by
  intro s hs htmp
  by_cases hp : inPost s.me.core.st
  · have hk := (h2 (base ++ keysXo s.succ) s.succ).keep s ⟨hs.1, hp, rfl⟩
    constructor
    · intro x t hm
      rw [hm] at hk
      obtain ⟨k1, k2, k3⟩ := hk
      exact ⟨by rw [k3]; exact k1, by rw [k3]; exact hs.2.1, fun _ => k2⟩
    · intro e t hm
      rw [hm] at hk
      obtain ⟨k1, k2, k3⟩ := hk
      exact ⟨⟨by rw [k3]; exact k1, by rw [k3]; exact hs.2.1, fun _ => k2⟩, Or.inl k3⟩
  · have hk0 : keysXo s.succ = [] := Classical.byContradiction fun hne => hp (hs.2.2 hne)
    have hg : G base a p s := by
      refine ⟨by have := hs.1; rwa [hk0, List.append_nil] at this, hs.1.1, hs.1.2.1, ?_, by intro n hn; rw [htmp] at hn; cases hn⟩
      intro n hn
      obtain ⟨w1, w2, w3⟩ := hs.2.1 n hn
      have hkids : n.ext.kids = [] := keysX_eq_nil n (by simpa [keysXo, hn] using hk0)
      exact ⟨w1, w2, hkids, by rw [w3, hkids]; rfl⟩
    constructor
    · intro x t hm; exact (h1.ok s x t hg hm).1
    · intro e t hm
      have := h1.err s e t hg hm
      exact ⟨this.full, Or.inr this.2.keysXo_nil⟩

theorem Fails.mono {I J : HSt → Prop} {m : HM α} (h : ∀ s, I s → J s) (hf : Fails J m) : Fails I m :=
  ⟨fun s hs => hf.fail s (h s hs)⟩

theorem r2 {m : HM α} (B : List Key) (c0 : Option XSa) (h1 : Keeps (SadI B a p) m) (h2 : Keeps (P2 c0) m) :
    Keeps (fun s => SadI B a p s ∧ P2 c0 s) m := Keeps.and h1 h2

theorem processCreateChildSaRequest_r2 (B : List Key) (c0 : Option XSa) (now : Nat) (m : Msg) :
    Keeps (fun s => SadI B a p s ∧ P2 c0 s) (processCreateChildSaRequest now m) := by
  unfold processCreateChildSaRequest
  apply Keeps.bind (r2 a p B c0 (checkInStates_s B a p _) (checkInStates_p2 c0 _))
  intro _
  apply Keeps.bind_liftE
  intro sa _
  split
  · exact Keeps.raise _
  · dsimp only
    split
    · apply Keeps.bind
      · unfold ikeRekeyRequest
        apply Keeps.bind_getMe (fun x => inPost x.core.st) (fun s h => h.2.1)
        intro x hx
        split
        · exact Keeps.pure _
        · rename_i h10
          have : x.core.st = stESTABLISHED := by simpa using h10
          rw [this] at hx
          exact absurd hx (by decide)
      · intro _
        apply Keeps.bind (Keeps.read _)
        intro _; exact Keeps.pure _
    · apply Keeps.bind (r2 a p B c0 (childNegotiationReq_s B a p m) (childNegotiationReq_p2 c0 m))
      intro _
      apply Keeps.bind (Keeps.read _)
      intro _; exact Keeps.pure _

theorem processCreateChildSaResponse_r2 (B : List Key) (c0 : Option XSa) (now : Nat) (m : Msg) :
    Keeps (fun s => SadI B a p s ∧ P2 c0 s) (processCreateChildSaResponse now m) := by
  unfold processCreateChildSaResponse
  exact Keeps.bind_fails (r2 a p B c0 (checkInStates_s B a p _) (checkInStates_p2 c0 _))
    (Fails.mono (fun _ h => h.2) (checkInStates_fails_p2 c0 _ (by decide)))

/-- **every request handler** -/
theorem request_callOk (now : Nat) (m : Msg) (h : HM HRes) (hh : requestHandler now m = some h) : CallOk base a p h := by
  unfold requestHandler at hh
  split at hh
  · cases hh
    exact callOk_of base a p (Hoare.of_G base a p (processIkeSaInitRequest_s base a p m) (processIkeSaInitRequest_so a p m))
      (fun B c0 => r2 a p B c0 (processIkeSaInitRequest_s B a p m) (processIkeSaInitRequest_p2 c0 m))
  · split at hh
    · cases hh
      exact callOk_of base a p (Hoare.of_G base a p (processIkeAuthRequest_s base a p m) (processIkeAuthRequest_so a p m))
        (fun B c0 => r2 a p B c0 (processIkeAuthRequest_s B a p m) (processIkeAuthRequest_p2 c0 m))
    · split at hh
      · cases hh
        exact callOk_of base a p (processCreateChildSaRequest_full base a p now m)
          (fun B c0 => processCreateChildSaRequest_r2 a p B c0 now m)
      · split at hh
        · cases hh
          exact callOk_of base a p (Hoare.of_G base a p (processInformationalRequest_s base a p m) (processInformationalRequest_so a p m))
            (fun B c0 => r2 a p B c0 (processInformationalRequest_s B a p m) (processInformationalRequest_p2 c0 m))
        · cases hh

/-- **every response handler** -/
theorem response_callOk (now : Nat) (m : Msg) (h : HM HRes) (hh : responseHandler now m = some h) : CallOk base a p h := by
  unfold responseHandler at hh
  split at hh
  · cases hh
    exact callOk_of base a p (Hoare.of_G base a p (processIkeSaInitResponse_s base a p m) (processIkeSaInitResponse_so a p m))
      (fun B c0 => r2 a p B c0 (processIkeSaInitResponse_s B a p m) (processIkeSaInitResponse_p2 c0 m))
  · split at hh
    · cases hh
      exact callOk_of base a p (Hoare.of_G base a p (processIkeAuthResponse_s base a p m) (processIkeAuthResponse_so a p m))
        (fun B c0 => r2 a p B c0 (processIkeAuthResponse_s B a p m) (processIkeAuthResponse_p2 c0 m))
    · split at hh
      · cases hh
        exact callOk_of base a p (processCreateChildSaResponse_full base a p now m)
          (fun B c0 => processCreateChildSaResponse_r2 a p B c0 now m)
      · split at hh
        · cases hh
          exact callOk_of base a p (Hoare.of_G base a p (processInformationalResponse_s base a p m) (processInformationalResponse_so a p m))
            (fun B c0 => r2 a p B c0 (processInformationalResponse_s B a p m) (processInformationalResponse_p2 c0 m))
        · cases hh

/-- **every request generator** -/
theorem generator_callOk (g : HM Msg) (h1 : ∀ B, Keeps (SadI B a p) g) (h2 : Keeps (SO a p) g) (h3 : ∀ c0, Keeps (P2 c0) g) :
    CallOk base a p (asRequest g) :=
  callOk_of base a p (Hoare.of_G base a p (asRequest_keeps (h1 base)) (asRequest_keeps h2))
    (fun B c0 => r2 a p B c0 (asRequest_keeps (h1 B)) (asRequest_keeps (h3 c0)))

theorem generators_callOk (x y : TS) (i now : Nat) (c : ChildRef) (hard : Bool) :
    CallOk base a p (asRequest (genAcquireH x y i)) ∧ CallOk base a p (asRequest (genExpireH c hard)) ∧
    CallOk base a p (asRequest generateDpdRequest) ∧ CallOk base a p (asRequest generateDeleteIkeSaRequest) ∧
    CallOk base a p (asRequest (generateRekeyIkeSaRequest now)) :=
  ⟨generator_callOk base a p _ (fun B => genAcquireH_s B a p x y i) (genAcquireH_so a p x y i) (fun c0 => genAcquireH_p2 c0 x y i),
   generator_callOk base a p _ (fun B => genExpireH_s B a p c hard) (genExpireH_so a p c hard) (fun c0 => genExpireH_p2 c0 c hard),
   generator_callOk base a p _ (fun B => generateDpdRequest_s B a p) (generateDpdRequest_so a p) (fun c0 => generateDpdRequest_p2 c0),
   generator_callOk base a p _ (fun B => generateDeleteIkeSaRequest_s B a p) (generateDeleteIkeSaRequest_so a p)
     (fun c0 => generateDeleteIkeSaRequest_p2 c0),
   generator_callOk base a p _ (fun B => generateRekeyIkeSaRequest_s B a p now) (generateRekeyIkeSaRequest_so a p now)
     (fun c0 => generateRekeyIkeSaRequest_p2 c0 now)⟩

/-- the same calls on an IKE_SA that is past its hand-over (`P2`): this IKE_SA's own SAs stay consistent against ANY rest of the
    SAD (`B`), the state stays in the three final states and the successor object is not touched -/
theorem request_frozen (B : List Key) (c0 : Option XSa) (now : Nat) (m : Msg) (h : HM HRes) (hh : requestHandler now m = some h) :
    Keeps (fun s => SadI B a p s ∧ P2 c0 s) h := by
  unfold requestHandler at hh
  split at hh
  · cases hh; exact r2 a p B c0 (processIkeSaInitRequest_s B a p m) (processIkeSaInitRequest_p2 c0 m)
  · split at hh
    · cases hh; exact r2 a p B c0 (processIkeAuthRequest_s B a p m) (processIkeAuthRequest_p2 c0 m)
    · split at hh
      · cases hh; exact processCreateChildSaRequest_r2 a p B c0 now m
      · split at hh
        · cases hh; exact r2 a p B c0 (processInformationalRequest_s B a p m) (processInformationalRequest_p2 c0 m)
        · cases hh

theorem response_frozen (B : List Key) (c0 : Option XSa) (now : Nat) (m : Msg) (h : HM HRes) (hh : responseHandler now m = some h) :
    Keeps (fun s => SadI B a p s ∧ P2 c0 s) h := by
  unfold responseHandler at hh
  split at hh
  · cases hh; exact r2 a p B c0 (processIkeSaInitResponse_s B a p m) (processIkeSaInitResponse_p2 c0 m)
  · split at hh
    · cases hh; exact r2 a p B c0 (processIkeAuthResponse_s B a p m) (processIkeAuthResponse_p2 c0 m)
    · split at hh
      · cases hh; exact processCreateChildSaResponse_r2 a p B c0 now m
      · split at hh
        · cases hh; exact r2 a p B c0 (processInformationalResponse_s B a p m) (processInformationalResponse_p2 c0 m)
        · cases hh

theorem generators_frozen (B : List Key) (c0 : Option XSa) (x y : TS) (i now : Nat) (c : ChildRef) (hard : Bool) :
    Keeps (fun s => SadI B a p s ∧ P2 c0 s) (asRequest (genAcquireH x y i)) ∧
    Keeps (fun s => SadI B a p s ∧ P2 c0 s) (asRequest (genExpireH c hard)) ∧
    Keeps (fun s => SadI B a p s ∧ P2 c0 s) (asRequest generateDpdRequest) ∧
    Keeps (fun s => SadI B a p s ∧ P2 c0 s) (asRequest generateDeleteIkeSaRequest) ∧
    Keeps (fun s => SadI B a p s ∧ P2 c0 s) (asRequest (generateRekeyIkeSaRequest now)) :=
  ⟨r2 a p B c0 (asRequest_keeps (genAcquireH_s B a p x y i)) (asRequest_keeps (genAcquireH_p2 c0 x y i)),
   r2 a p B c0 (asRequest_keeps (genExpireH_s B a p c hard)) (asRequest_keeps (genExpireH_p2 c0 c hard)),
   r2 a p B c0 (asRequest_keeps (generateDpdRequest_s B a p)) (asRequest_keeps (generateDpdRequest_p2 c0)),
   r2 a p B c0 (asRequest_keeps (generateDeleteIkeSaRequest_s B a p)) (asRequest_keeps (generateDeleteIkeSaRequest_p2 c0)),
   r2 a p B c0 (asRequest_keeps (generateRekeyIkeSaRequest_s B a p now)) (asRequest_keeps (generateRekeyIkeSaRequest_p2 c0 now))⟩

/-- before the hand-over (`G`): a call that returns leaves the invariant with a successor that is empty or about to be
    registered; a call that raises leaves everything as before the hand-over -/
theorem request_regime1 (now : Nat) (m : Msg) (h : HM HRes) (hh : requestHandler now m = some h) :
    Hoare (G base a p) h (fun _ => FullH base a p) (G base a p) := by
  unfold requestHandler at hh
  split at hh
  · cases hh; exact Hoare.of_G base a p (processIkeSaInitRequest_s base a p m) (processIkeSaInitRequest_so a p m)
  · split at hh
    · cases hh; exact Hoare.of_G base a p (processIkeAuthRequest_s base a p m) (processIkeAuthRequest_so a p m)
    · split at hh
      · cases hh; exact processCreateChildSaRequest_full base a p now m
      · split at hh
        · cases hh; exact Hoare.of_G base a p (processInformationalRequest_s base a p m) (processInformationalRequest_so a p m)
        · cases hh

theorem response_regime1 (now : Nat) (m : Msg) (h : HM HRes) (hh : responseHandler now m = some h) :
    Hoare (G base a p) h (fun _ => FullH base a p) (G base a p) := by
  unfold responseHandler at hh
  split at hh
  · cases hh; exact Hoare.of_G base a p (processIkeSaInitResponse_s base a p m) (processIkeSaInitResponse_so a p m)
  · split at hh
    · cases hh; exact Hoare.of_G base a p (processIkeAuthResponse_s base a p m) (processIkeAuthResponse_so a p m)
    · split at hh
      · cases hh; exact processCreateChildSaResponse_full base a p now m
      · split at hh
        · cases hh; exact Hoare.of_G base a p (processInformationalResponse_s base a p m) (processInformationalResponse_so a p m)
        · cases hh

/-- the generators never hand anything over: before the hand-over they keep `G` -/
theorem generators_regime1 (x y : TS) (i now : Nat) (c : ChildRef) (hard : Bool) :
    Keeps (G base a p) (asRequest (genAcquireH x y i)) ∧ Keeps (G base a p) (asRequest (genExpireH c hard)) ∧
    Keeps (G base a p) (asRequest generateDpdRequest) ∧ Keeps (G base a p) (asRequest generateDeleteIkeSaRequest) ∧
    Keeps (G base a p) (asRequest (generateRekeyIkeSaRequest now)) :=
  ⟨G.keeps base a p (asRequest_keeps (genAcquireH_s base a p x y i)) (asRequest_keeps (genAcquireH_so a p x y i)),
   G.keeps base a p (asRequest_keeps (genExpireH_s base a p c hard)) (asRequest_keeps (genExpireH_so a p c hard)),
   G.keeps base a p (asRequest_keeps (generateDpdRequest_s base a p)) (asRequest_keeps (generateDpdRequest_so a p)),
   G.keeps base a p (asRequest_keeps (generateDeleteIkeSaRequest_s base a p)) (asRequest_keeps (generateDeleteIkeSaRequest_so a p)),
   G.keeps base a p (asRequest_keeps (generateRekeyIkeSaRequest_s base a p now)) (asRequest_keeps (generateRekeyIkeSaRequest_so a p now))⟩

end contract

/-! ### two small facts the controller-level lifting needs -/

/-- the generators behind ACQUIRE and EXPIRE never leave the IKE_SA in a state in which the controller would register a successor -/
def NH (s : HSt) : Prop := ¬ handed s.me.core.st

theorem modSlot_nh (sl) (f : XSa → XSa) (hf : ∀ x, (f x).core.st = x.core.st) : Keeps NH (modSlot sl f) := by
  unfold modSlot; apply Keeps.modify; intro s h
  cases sl
  · simp only [NH] at h ⊢; rw [hf]; exact h
  · exact h
  · exact h

macro "keeps_nh" : tactic => `(tactic| repeat' (first
  | exact Keeps.pure _
  | exact Keeps.raise _
  | exact Keeps.read _
  | exact Keeps.liftE _
  | exact KeepsOpt.none
  | apply KeepsOpt.some
  | (simp only [keepsPost]; done)
  | (apply modSlot_nh; intro x; simp; done)
  | (apply Keeps.bind_liftE; intro _ _)
  | apply Keeps.bind
  | apply Keeps.tryCatch
  | intro _
  | split
  | (simp only [modCore, modExt, modMe, setState, markBad]; apply Keeps.modify; intro s h;
     simp_all [NH, handed, XSa.setKids, stREK_IKE_SA_REQ_SENT, stESTABLISHED, stREKEYED, stDELETED, stINIT_RES_SENT, stINIT_REQ_SENT,
       stAUTH_REQ_SENT, stNEW_CHILD_REQ_SENT, stREK_CHILD_REQ_SENT, stDEL_CHILD_REQ_SENT, stDPD_REQ_SENT, stDEL_IKE_SA_REQ_SENT,
       stDEL_AFTER_REKEY_IKE_SA_REQ_SENT]; done)
  | (apply Keeps.modify; intro s h; simp_all [NH]; done)
  | dsimp only))

@[keepsPost] theorem popVal_nh : Keeps NH popVal := by
  constructor; intro s h; unfold popVal; split <;> exact h
@[keepsPost] theorem getSlot_nh (sl) : Keeps NH (getSlot sl) := by
  cases sl
  · simp only [getSlot, getMe]; exact Keeps.read _
  · constructor; intro s h; simp only [getSlot]; split <;> exact h
  · constructor; intro s h; simp only [getSlot]; split <;> exact h
@[keepsPost] theorem getPayload_nh (m pt e) : Keeps NH (getPayload m pt e) := Keeps.liftE _
@[keepsPost] theorem markBad_nh : Keeps NH markBad := by unfold markBad; keeps_nh
@[keepsPost] theorem popBytes_nh : Keeps NH popBytes := by unfold popBytes; keeps_nh
@[keepsPost] theorem popBytesOrFail_nh : Keeps NH popBytesOrFail := by unfold popBytesOrFail; keeps_nh
@[keepsPost] theorem popOk_nh : Keeps NH popOk := by unfold popOk; keeps_nh
@[keepsPost] theorem popNum_nh : Keeps NH popNum := by unfold popNum; keeps_nh
@[keepsPost] theorem getMe_nh : Keeps NH getMe := by unfold getMe; keeps_nh
@[keepsPost] theorem assertState_nh (l) : Keeps NH (assertState l) := by unfold assertState; keeps_nh
@[keepsPost] theorem generateIkeNegotiation_nh (sl) : Keeps NH (generateIkeNegotiation sl) := by unfold generateIkeNegotiation; keeps_nh
@[keepsPost] theorem generateChildNegotiation_nh (k) : Keeps NH (generateChildNegotiation k) := by unfold generateChildNegotiation; keeps_nh
@[keepsPost] theorem generateIkeSaInitRequest_nh (k) : Keeps NH (generateIkeSaInitRequest k) := by unfold generateIkeSaInitRequest; keeps_nh
@[keepsPost] theorem generateCreateChildSaRequest_nh (k r) : Keeps NH (generateCreateChildSaRequest k r) := by unfold generateCreateChildSaRequest; keeps_nh
@[keepsPost] theorem generateDeleteChildSaRequest_nh (k) : Keeps NH (generateDeleteChildSaRequest k) := by unfold generateDeleteChildSaRequest; keeps_nh
@[keepsPost] theorem genAcquireH_nh (x y i) : Keeps NH (genAcquireH x y i) := by unfold genAcquireH; keeps_nh
@[keepsPost] theorem genExpireH_nh (k h) : Keeps NH (genExpireH k h) := by unfold genExpireH; keeps_nh

/-- a handler that returns returns a reply, a request or nothing — never an error value -/
def isErr : HRes → Bool
  | .ikeError _ => true
  | .otherError _ => true
  | _ => false

theorem Hoare.triv (m : HM α) : Hoare (fun _ => True) m (fun _ _ => True) (fun _ => True) :=
  ⟨fun _ _ _ _ _ => trivial, fun _ _ _ _ _ => trivial⟩

abbrev RetOK (h : HM HRes) : Prop := Hoare (fun _ => True) h (fun x _ => isErr x = false) (fun _ => True)

macro "ret_ok" : tactic => `(tactic| repeat' (first
  | exact Hoare.pure _ (fun _ _ => rfl)
  | exact Hoare.raise _ (fun _ _ => trivial)
  | (simp only [keepsRet]; done)
  | (apply Hoare.bind (Hoare.triv _); intro _)
  | split
  | dsimp only))

@[keepsRet] theorem processIkeSaInitRequest_ret (m) : RetOK (processIkeSaInitRequest m) := by unfold processIkeSaInitRequest; ret_ok
@[keepsRet] theorem processIkeAuthRequest_ret (m) : RetOK (processIkeAuthRequest m) := by unfold processIkeAuthRequest; ret_ok
@[keepsRet] theorem processCreateChildSaRequest_ret (now m) : RetOK (processCreateChildSaRequest now m) := by
  unfold processCreateChildSaRequest; ret_ok
@[keepsRet] theorem processInformationalRequest_ret (m) : RetOK (processInformationalRequest m) := by
  unfold processInformationalRequest; ret_ok
@[keepsRet] theorem processIkeSaInitResponse_ret (m) : RetOK (processIkeSaInitResponse m) := by unfold processIkeSaInitResponse; ret_ok
@[keepsRet] theorem processIkeAuthResponse_ret (m) : RetOK (processIkeAuthResponse m) := by unfold processIkeAuthResponse; ret_ok
@[keepsRet] theorem ikeRekeyResponse_ret (now m me) : RetOK (ikeRekeyResponse now m me) := by unfold ikeRekeyResponse; ret_ok
@[keepsRet] theorem childSaResponse_ret (prev m) : RetOK (childSaResponse prev m) := by unfold childSaResponse; ret_ok
@[keepsRet] theorem processCreateChildSaResponse_ret (now m) : RetOK (processCreateChildSaResponse now m) := by
  unfold processCreateChildSaResponse; ret_ok
@[keepsRet] theorem processInformationalResponse_ret (m) : RetOK (processInformationalResponse m) := by
  unfold processInformationalResponse; ret_ok

theorem requestHandler_ret (now m h) (hh : requestHandler now m = some h) : RetOK h := by
  unfold requestHandler at hh
  repeat' split at hh
  all_goals first | (cases hh; simp only [keepsRet]) | (simp at hh)

theorem responseHandler_ret (now m h) (hh : responseHandler now m = some h) : RetOK h := by
  unfold responseHandler at hh
  repeat' split at hh
  all_goals first | (cases hh; simp only [keepsRet]) | (simp at hh)

end PyIkev2.Impl
