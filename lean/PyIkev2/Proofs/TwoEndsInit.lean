/-
  Two ends, the beginning: IKE_SA_INIT and IKE_AUTH between an initiator and a responder object that hold nothing yet.  At the
  end both are ESTABLISHED, know each other's SPI, and hold the first CHILD_SA as mirror images — or none, when the responder
  refused it.  (The retries of IKE_SA_INIT — COOKIE, INVALID_KE_PAYLOAD — make the controller create a new responder object per
  request; they are the shell's business and end this conversation.)
-/
import PyIkev2.Proofs.TwoEndsRekey

namespace PyIkev2.Impl
open PyIkev2

variable {α β : Type}

/-! ### reading a reply that carries more payloads after the ones described -/

theorem find_append_some {p : Payload → Bool} (l1 l2 : List Payload) (x : Payload) (h : l1.find? p = some x) :
    (l1 ++ l2).find? p = some x := by
  rw [List.find?_append, h]; rfl

theorem paySA_append (m m' : Msg) (extra : List Payload) (he : m'.enc = m.enc ++ extra) (l : List Proposal)
    (hl : paySA m true = .ok l) : paySA m' true = .ok l := by
  simp only [paySA, findPayload, payloadsOf, if_true] at hl ⊢
  cases hf : m.enc.find? (fun p => p.ptype = ptSA) with
  | none => rw [hf] at hl; cases hl
  | some x => rw [hf] at hl; rw [he, find_append_some _ _ x hf]; exact hl

theorem payTS_append (m m' : Msg) (extra : List Payload) (he : m'.enc = m.enc ++ extra) (pt : Nat) (l : List TS)
    (hl : payTS m pt true = .ok l) : payTS m' pt true = .ok l := by
  simp only [payTS, findPayload, payloadsOf, if_true] at hl ⊢
  cases hf : m.enc.find? (fun p => p.ptype = pt) with
  | none => rw [hf] at hl; cases hl
  | some x => rw [hf] at hl; rw [he, find_append_some _ _ x hf]; exact hl

theorem getNotifies_append (m m' : Msg) (extra : List Payload) (he : m'.enc = m.enc ++ extra)
    (hx : ∀ q ∈ extra, q.ptype ≠ ptNOTIFY) (t : Nat) : getNotifies m' t true = getNotifies m t true := by
  rw [getNotifies_eq, getNotifies_eq]
  simp only [payloadsOf, if_true, he, List.filterMap_append]
  have : extra.filterMap (notifyPick t) = [] :=
    List.filterMap_eq_nil_iff.mpr (fun q hq => by unfold notifyPick; rw [if_neg (hx q hq)])
  rw [this, List.append_nil]

theorem respMode_append (m m' : Msg) (extra : List Payload) (he : m'.enc = m.enc ++ extra)
    (hx : ∀ q ∈ extra, q.ptype ≠ ptNOTIFY) : respMode m' = respMode m := by
  unfold respMode; rw [getNotifies_append m m' extra he hx]

theorem hasErr_append (m m' : Msg) (extra : List Payload) (he : m'.enc = m.enc ++ extra)
    (hx : ∀ q ∈ extra, q.ptype ≠ ptNOTIFY) : HasErr m' = HasErr m := by
  unfold HasErr
  simp only [List.any_cons, List.any_nil, getNotifies_append m m' extra he hx]

/-- the two payloads that close an IKE_AUTH message -/
def authTail (idp : Payload) (method : Nat) (data : Bytes) : List Payload := [idp, mkP ptAUTH (.auth method data)]

theorem authTail_inert (pt it : Nat) (idd : Bytes) (method : Nat) (data : Bytes) (hpt : pt = ptIDi ∨ pt = ptIDr) :
    ∀ q ∈ authTail (mkP pt (.ident it idd)) method data, q.ptype ≠ ptNOTIFY ∧ q.ptype ≠ ptSA := by
  intro q hq
  simp only [authTail, List.mem_cons, List.mem_nil_iff, or_false] at hq
  rcases hq with rfl | rfl
  · rcases hpt with rfl | rfl <;> simp [mkP, ptIDi, ptIDr, ptNOTIFY, ptSA]
  · simp [mkP, ptAUTH, ptNOTIFY, ptSA]

theorem enc_mkResponse35 (core : SaCore) (l : List Payload) : (mkResponse core 35 l).enc = l := rfl
theorem enc_mkResponse36 (core : SaCore) (l : List Payload) : (mkResponse core 36 l).enc = l := rfl

theorem TapeOnly.keepsMe {m : HM α} (h : TapeOnly m) (x : XSa) : Keeps (MeIs x) m :=
  ⟨fun s h1 => (h.keep s).1.trans h1⟩

theorem popAuthVerify_to : TapeOnly popAuthVerify := by unfold popAuthVerify; tape_only
theorem popAuthGen_to : TapeOnly popAuthGen := by unfold popAuthGen; tape_only

/-! ### IKE_AUTH: the responder -/

/-- what the responder of IKE_AUTH is afterwards (`z`, before it becomes ESTABLISHED) and what it replied about the CHILD_SA -/
def AuthGranted (request : Msg) (x z : XSa) (payloads : List Payload) : Prop :=
  (∃ cb, z = x.setKids (x.ext.kids ++ [cb]) ∧
      (∃ sa p, paySA request true = .ok sa ∧ p ∈ sa ∧ cb.outSpi = p.spi ∧ cb.proposal.proto = p.proto) ∧
      GoodReply payloads cb.inSpi cb.proposal.proto ∧ ReplyShape payloads cb) ∨
  (z = x ∧ ErrReply payloads)

theorem processIkeAuthRequest_tri (request : Msg) (x : XSa) :
    Tri (MeIs x) (processIkeAuthRequest request)
      (fun res s => ∃ payloads z method data,
        res = .reply (mkResponse z.core 35 (payloads ++ authTail (mkP ptIDr (.ident z.ext.conf.myIdType z.ext.conf.myIdData)) method data)) ∧
        s.me = setSt z stESTABLISHED ∧ AuthGranted request x z payloads)
      (fun _ _ => True) := by
  unfold processIkeAuthRequest
  refine Tri.bind_quiet (fun _ => True) (checkInStates_me x _) (ret_true _) ?_ (fun _ _ _ => trivial); intro _ _
  refine Tri.bind_liftE ?_ (fun _ _ _ _ => trivial); intro idp _
  refine Tri.bind_quiet (fun _ => True) (by unfold getPayload; exact Keeps.liftE _) (ret_true _) ?_ (fun _ _ _ => trivial); intro _ _
  apply Tri.bind_getMe
  dsimp only
  have tail : Tri (MeIs x)
      (do popAuthVerify
          let payloads ← childNegotiationReq request
          let me ← getMe
          let idr := mkP ptIDr (.ident me.ext.conf.myIdType me.ext.conf.myIdData)
          let (method, data) ← popAuthGen
          let response := mkResponse me.core 35 (payloads ++ [idr, mkP ptAUTH (.auth method data)])
          setState stESTABLISHED
          pure (HRes.reply response))
      (fun res s => ∃ payloads z method data,
        res = .reply (mkResponse z.core 35 (payloads ++ authTail (mkP ptIDr (.ident z.ext.conf.myIdType z.ext.conf.myIdData)) method data)) ∧
        s.me = setSt z stESTABLISHED ∧ AuthGranted request x z payloads)
      (fun _ _ => True) := by
    refine Tri.bind_quiet (fun _ => True) (popAuthVerify_to.keepsMe x) (ret_true _) ?_ (fun _ _ _ => trivial); intro _ _
    apply Tri.bind ((childNegotiationReq_tri request x).conseq (fun _ h => h) (fun _ _ h => h) (fun _ _ _ => trivial)); intro payloads
    constructor
    · intro s res t hs hm
      rw [HM.bind_def] at hm
      simp only [getMe] at hm
      rw [HM.bind_def] at hm
      cases hp : popAuthGen s with
      | mk rg s1 =>
        have hk := (popAuthGen_to.keep s).1; rw [hp] at hk
        rw [hp] at hm
        cases rg with
        | error e => cases hm
        | ok md =>
          obtain ⟨method, data⟩ := md
          simp only [HM.bind_def, setState, modCore, HM.modify, HM.pure_def] at hm
          cases hm
          refine ⟨payloads, s.me, method, data, rfl, by simp only [setSt]; rw [hk], ?_⟩
          rcases hs with ⟨cb, h1, h2, h3, h4⟩ | ⟨h1, h2⟩
          · exact Or.inl ⟨cb, h1, h2, h3, h4⟩
          · exact Or.inr ⟨h1, h2⟩
    · intro _ _ _ _ _; trivial
  split
  · exact Tri.raise_bind _ (fun _ _ => trivial)
  · split
    · exact Tri.raise_bind _ (fun _ _ => trivial)
    · exact tail

/-! ### IKE_AUTH: the initiator -/

theorem processIkeAuthResponse_tri (response : Msg) (y : XSa) (c0 : Child) (hc : y.ext.creating = some c0)
    (hst : y.core.st = stAUTH_REQ_SENT) :
    Tri (MeIs y) (processIkeAuthResponse response)
      (fun res s => res = .nothing ∧
        ((s.me = setSt y stESTABLISHED ∧ HasErr response = true) ∨
         (HasErr response = false ∧ ∃ z, CreatedX y c0 response z ∧ s.me = setSt z stESTABLISHED)))
      (fun _ _ => True) := by
  unfold processIkeAuthResponse
  refine Tri.bind_quiet (fun _ => True) (checkInStates_me y _) (ret_true _) ?_ (fun _ _ _ => trivial); intro _ _
  refine Tri.bind_quiet (fun _ => True) (abortOnErrorNotifies_me y _ _ _) (ret_true _) ?_ (fun _ _ _ => trivial); intro _ _
  refine Tri.bind_liftE ?_ (fun _ _ _ _ => trivial); intro idp _
  refine Tri.bind_quiet (fun _ => True) (by unfold getPayload; exact Keeps.liftE _) (ret_true _) ?_ (fun _ _ _ => trivial); intro _ _
  apply Tri.bind_getMe
  dsimp only
  have tail : Tri (MeIs y)
      (do popAuthVerify
          match ← childNegotiationRes response with
          | .invalid => do
            let me ← getMe
            match me.ext.creating with
            | none => HM.raise excPython
            | some c => let r ← generateDeleteChildSaRequest c; pure (HRes.request r)
          | _ => do
            setState stESTABLISHED
            pure HRes.nothing)
      (fun res s => res = .nothing ∧
        ((s.me = setSt y stESTABLISHED ∧ HasErr response = true) ∨
         (HasErr response = false ∧ ∃ z, CreatedX y c0 response z ∧ s.me = setSt z stESTABLISHED)))
      (fun _ _ => True) := by
    refine Tri.bind_quiet (fun _ => True) (popAuthVerify_to.keepsMe y) (ret_true _) ?_ (fun _ _ _ => trivial); intro _ _
    apply Tri.bind (childNegotiationRes_tri response y c0 hc); intro r
    cases r with
    | rejected =>
      dsimp only
      constructor
      · intro s res t hs hm
        simp only [HM.bind_def, setState, modCore, HM.modify, HM.pure_def] at hm
        cases hm
        rcases hs with ⟨_, h2, h3⟩ | ⟨h1, _⟩ | ⟨h1, _⟩
        · exact ⟨rfl, Or.inl ⟨by simp only [setSt]; rw [h2], h3⟩⟩
        · cases h1
        · cases h1
      · intro _ _ _ _ _; trivial
    | created =>
      dsimp only
      constructor
      · intro s res t hs hm
        simp only [HM.bind_def, setState, modCore, HM.modify, HM.pure_def] at hm
        cases hm
        rcases hs with ⟨h1, _⟩ | ⟨h1, _⟩ | ⟨_, h2, h3⟩
        · cases h1
        · cases h1
        · exact ⟨rfl, Or.inr ⟨h2, s.me, h3, rfl⟩⟩
      · intro _ _ _ _ _; trivial
    | invalid =>
      dsimp only
      constructor
      · intro s res t hs hm
        rcases hs with ⟨h1, _⟩ | ⟨_, h2, _⟩ | ⟨h1, _⟩
        · cases h1
        · -- the delete request cannot be generated in AUTH_REQ_SENT: the assertion fails
          rw [HM.bind_def] at hm
          simp only [getMe] at hm
          rw [h2, hc] at hm
          simp only [generateDeleteChildSaRequest, assertState, HM.bind_def, getMe, h2, hst] at hm
          simp [stAUTH_REQ_SENT, stESTABLISHED, HM.raise] at hm
        · cases h1
      · intro _ _ _ _ _; trivial
  split
  · exact Tri.raise_bind _ (fun _ _ => trivial)
  · split
    · exact Tri.raise_bind _ (fun _ _ => trivial)
    · exact tail

/-! ### IKE_AUTH: the conversation -/

/-- the record the initiator tracks for a reply of the described shape is the image of the record the responder tracked -/
theorem created_is_image (y : XSa) (c0 : Child) (response : Msg) (z : XSa) (cb : Child) (p' : Proposal)
    (hsa : paySA response true = .ok [p']) (hspi : p'.spi = cb.inSpi) (hproto : p'.proto = cb.proposal.proto)
    (htr : p'.transforms = cb.proposal.transforms)
    (htsi : payTS response ptTSi true = .ok cb.tsr) (htsr : payTS response ptTSr true = .ok cb.tsi)
    (hmode : respMode response = cb.mode) (hout : cb.outSpi = c0.inSpi)
    (htsr1 : ∃ t, cb.tsr = [t]) (htsi1 : ∃ t, cb.tsi = [t])
    (hcre : CreatedX y c0 response z) :
    ∃ child, z = ({ y with ext := { y.ext with creating := some child } } : XSa).setKids (y.ext.kids ++ [child]) ∧
      child.inSpi = c0.inSpi ∧ child.view = cb.peerView ∧ child.rich = cb.peerRich := by
  obtain ⟨p'', rest, child, hp''sa, hcin, hcout, hcprop, ⟨t1, r1, t2, r2, ht1, ht2, hctsi, hctsr, hcmode⟩, hz⟩ := hcre
  rw [hsa] at hp''sa; cases hp''sa
  refine ⟨child, hz, hcin, ?_, ?_⟩
  · simp only [Child.view, Child.peerView, Prod.mk.injEq]
    exact ⟨by rw [hcin, hout], by rw [hcout, hspi], by rw [hcprop, hproto]⟩
  · obtain ⟨ta, hta⟩ := htsr1
    obtain ⟨tb, htb⟩ := htsi1
    rw [htsi, hta] at ht1; rw [htsr, htb] at ht2
    cases ht1; cases ht2
    simp only [Child.rich, Child.peerRich, Prod.mk.injEq]
    exact ⟨by rw [hcprop, htr], by rw [hcmode, hmode], by rw [hctsi, hta], by rw [hctsr, htb]⟩

theorem replyShape_singletons {payloads : List Payload} {cb : Child} (h : ReplyShape payloads cb) :
    (∃ t, cb.tsr = [t]) ∧ (∃ t, cb.tsi = [t]) := by
  obtain ⟨_, _, _, _, t1, t2, _, _, _, _, _, _, _, _, h4, h5⟩ := h
  exact ⟨⟨t1, h5⟩, ⟨t2, h4⟩⟩

theorem requestHandler_35 (now : Nat) (r : Msg) (hx : r.hdr.exch = 35) : requestHandler now r = some (processIkeAuthRequest r) := by
  simp [requestHandler, hx]

theorem responseHandler_35 (now : Nat) (core : SaCore) (l : List Payload) :
    responseHandler now (mkResponse core 35 l) = some (processIkeAuthResponse (mkResponse core 35 l)) := by
  simp [responseHandler, mkResponse]

theorem errReply_paySA_ext (core : SaCore) (payloads : List Payload) (h : ErrReply payloads) (idp : Payload) (method : Nat) (data : Bytes)
    (hid : idp.ptype ≠ ptSA) (l : List Proposal) :
    paySA (mkResponse core 35 (payloads ++ authTail idp method data)) true ≠ .ok l := by
  obtain ⟨n, a, t, b, c, rfl, hb⟩ := h
  simp only [paySA, findPayload, payloadsOf, if_true, enc_mkResponse35, authTail, List.cons_append, List.nil_append,
    List.find?_cons, List.find?_nil]
  have hauth : ¬ (mkP ptAUTH (Body.auth method data)).ptype = ptSA := by simp [mkP, ptAUTH, ptSA]
  by_cases hpt : n.ptype = ptSA
  · simp only [hpt, decide_true, hb]; intro h2; cases h2
  · simp only [hpt, decide_false, hid, hauth]; intro h2; cases h2

/-- the IKE SPIs, the role and the addresses of an object are those of another -/
def SameSpis (x y : XSa) : Prop :=
  y.core.mySpi = x.core.mySpi ∧ y.core.peerSpi = x.core.peerSpi ∧ y.core.isInit = x.core.isInit

/-- **the IKE_AUTH step**: the initiator waits (AUTH_REQ_SENT) for the answer to a request whose CHILD_SA proposal carries the SPI of the
    record it is creating; the responder is in INIT_RES_SENT.  If no handler raises: both are ESTABLISHED and agree — with the first
    CHILD_SA as mirror images, or without one when the responder refused it. -/
theorem authStep (now fuel : Nat) (a b : HSt) (r : Msg) (c0 : Child) (p : Proposal)
    (sta : a.me.core.st = stAUTH_REQ_SENT) (hcr : a.me.ext.creating = some c0) (hx : r.hdr.exch = 35)
    (hsa : paySA r true = .ok [p]) (hspi : p.spi = c0.inSpi) (hproto : p.proto = c0.proposal.proto) (hp23 : p.proto = 2 ∨ p.proto = 3)
    (hfresh : c0.inSpi ∉ a.me.ext.kids.map Child.inSpi) (half : Half a.me.ext.kids b.me.ext.kids)
    (a' b' : HSt) (hconv : converse now (fuel + 1) r a b = some (a', b')) :
    Done a' b' ∧ SameSpis a.me a'.me ∧ SameSpis b.me b'.me ∧ a'.me.ext.kids.length ≤ a.me.ext.kids.length + 1 := by
  unfold converse at hconv
  rw [requestHandler_35 now r hx] at hconv; dsimp only at hconv
  have hB := processIkeAuthRequest_tri r b.me
  cases hb : processIkeAuthRequest r b with
  | mk resB b1 =>
    rw [hb] at hconv
    cases resB with
    | error e => cases hconv
    | ok resB =>
      obtain ⟨payloads, z, method, data, hres, hb1, hgr⟩ := hB.ok b resB b1 rfl hb
      subst hres
      dsimp only at hconv
      rw [responseHandler_35] at hconv; dsimp only at hconv
      have hA := processIkeAuthResponse_tri (mkResponse z.core 35 (payloads ++ authTail (mkP ptIDr (.ident z.ext.conf.myIdType z.ext.conf.myIdData)) method data))
        a.me c0 hcr sta
      cases ha : processIkeAuthResponse (mkResponse z.core 35 (payloads ++ authTail (mkP ptIDr (.ident z.ext.conf.myIdType z.ext.conf.myIdData)) method data)) a with
      | mk resA a2 =>
        rw [ha] at hconv
        cases resA with
        | error e => cases hconv
        | ok resA =>
          obtain ⟨hnothing, hout⟩ := hA.ok a resA a2 rfl ha
          subst hnothing
          dsimp only at hconv; cases hconv
          have hinert := authTail_inert ptIDr z.ext.conf.myIdType z.ext.conf.myIdData method data (Or.inr rfl)
          have he : (mkResponse z.core 35 (payloads ++ authTail (mkP ptIDr (.ident z.ext.conf.myIdType z.ext.conf.myIdData)) method data)).enc
              = (mkResponse z.core 36 payloads).enc ++ authTail (mkP ptIDr (.ident z.ext.conf.myIdType z.ext.conf.myIdData)) method data := rfl
          have hbs : b'.me.core.st = stESTABLISHED := by rw [hb1]; rfl
          rcases hgr with ⟨cb, hz, ⟨sa, q, hsa', hq, hcbout, hcbproto⟩, hgood, hshape⟩ | ⟨hz, herr⟩
          · rw [hsa] at hsa'; cases hsa'
            simp only [List.mem_singleton] at hq; subst hq
            obtain ⟨p', hp'sa, hp'spi, hp'proto⟩ := goodReply_paySA z.core payloads _ _ hgood
            obtain ⟨⟨pt, hptsa, hpttr⟩, hrtsi, hrtsr, hrmode⟩ := replyShape_read z.core payloads cb hshape
            rw [hp'sa] at hptsa; cases hptsa
            have hnoerr : HasErr (mkResponse z.core 35 (payloads ++ authTail (mkP ptIDr (.ident z.ext.conf.myIdType z.ext.conf.myIdData)) method data)) = false := by
              rw [hasErr_append _ _ _ he (fun q hq => (hinert q hq).1)]; exact goodReply_hasErr z.core payloads _ _ hgood
            rcases hout with ⟨_, h3⟩ | ⟨_, z', hcre, ha2⟩
            · rw [hnoerr] at h3; cases h3
            · obtain ⟨hs1, hs2⟩ := replyShape_singletons hshape
              obtain ⟨child, hz', hcin, hv, hrich⟩ := created_is_image a.me c0 _ z' cb p'
                (paySA_append _ _ _ he _ hp'sa) hp'spi hp'proto hpttr (payTS_append _ _ _ he _ _ hrtsi) (payTS_append _ _ _ he _ _ hrtsr)
                (by rw [respMode_append _ _ _ he (fun q hq => (hinert q hq).1)]; exact hrmode) (by rw [hcbout, hspi]) hs1 hs2 hcre
              refine ⟨⟨by rw [ha2]; rfl, hbs, ?_⟩, by rw [ha2, hz']; exact ⟨rfl, rfl, rfl⟩, by rw [hb1, hz]; exact ⟨rfl, rfl, rfl⟩,
                by rw [ha2, hz']; simp [setSt, XSa.setKids]⟩
              rw [ha2, hb1, hz, hz']
              exact half.append child cb hv (by rw [hcin]; exact hfresh)
                (by have := hv; simp only [Child.view, Child.peerView, Prod.mk.injEq] at this; rw [this.2.2, hcbproto]; exact hp23) hrich
          · rcases hout with ⟨h2, _⟩ | ⟨_, z', hcre, _⟩
            · exact ⟨⟨by rw [h2]; rfl, hbs, by rw [h2, hb1, hz]; exact half⟩, by rw [h2]; exact ⟨rfl, rfl, rfl⟩,
                by rw [hb1, hz]; exact ⟨rfl, rfl, rfl⟩, by rw [h2]; simp [setSt]⟩
            · obtain ⟨p'', rest, _, hp''sa, _⟩ := hcre
              exact absurd hp''sa (errReply_paySA_ext _ _ herr _ _ _ (by simp [mkP, ptIDr, ptSA]) _)

/-! ### IKE_SA_INIT: the responder -/

theorem modSlot_me_tri (x : XSa) (f : XSa → XSa) (E : Exc → HSt → Prop) :
    Tri (MeIs x) (modSlot .me f) (fun _ => MeIs (f x)) E := by
  unfold modSlot
  apply Tri.modify
  intro s h
  simp only [MeIs]; rw [show s.me = x from h]

theorem negotiateIkeRequest_me_tri (request : Msg) (x : XSa) (hcookie : x.core.cookie = false) :
    Tri (MeIs x) (negotiateIkeRequest .me request false)
      (fun payloads s => ∃ chosen, s.me = keyedWith x chosen ∧ IkeReply payloads chosen)
      (fun _ _ => True) := by
  unfold negotiateIkeRequest
  refine Tri.bind_liftE ?_ (fun _ _ _ _ => trivial); intro sa hsa
  refine Tri.bind_liftE ?_ (fun _ _ _ _ => trivial); intro _ _
  refine Tri.bind_liftE ?_ (fun _ _ _ _ => trivial); intro kg hkg
  simp only [getSlot]
  apply Tri.bind_getMe
  unfold cookieGate
  rw [if_neg (by rw [hcookie]; decide)]
  apply Tri.pure_bind
  split
  · exact Tri.raise _ (fun _ _ => trivial)
  · rename_i chosen0 hsel
    generalize hch : (if chosen0.spi ≠ [] then ({ chosen0 with spi := x.core.mySpi } : Proposal) else chosen0) = chosen
    apply Tri.bind (modSlot_me_tri x _ _); intro _
    refine Tri.bind_quiet (fun _ => True) (popBytes_me _) (ret_true _) ?_ (fun _ _ _ => trivial); intro nonce _
    split
    · exact Tri.raise _ (fun _ _ => trivial)
    · rename_i g _
      have tail : Tri (MeIs ({ x with ext := { x.ext with chosen := some chosen } } : XSa))
          (do let pub ← popBytesOrFail
              popOk
              modSlot Slot.me fun x => { x with core := { x.core with keyed := true } }
              pure [mkP ptSA (.sa [chosen]), mkP ptNONCE (.nonce nonce), mkP ptKE (.ke g pub)])
          (fun payloads s => ∃ chosen, s.me = keyedWith x chosen ∧ IkeReply payloads chosen)
          (fun _ _ => True) := by
        refine Tri.bind_quiet (fun _ => True) (popBytesOrFail_me _) (ret_true _) ?_ (fun _ _ _ => trivial); intro pub _
        refine Tri.bind_quiet (fun _ => True) (popOk_me _) (ret_true _) ?_ (fun _ _ _ => trivial); intro _ _
        apply Tri.bind (modSlot_me_tri _ _ _); intro _
        exact Tri.pure _ (fun s h => ⟨chosen, h, nonce, g, pub, rfl⟩)
      split
      · exact Tri.raise_bind _ (fun _ _ => trivial)
      · exact tail

theorem processIkeSaInitRequest_tri (request : Msg) (x : XSa) (hcookie : x.core.cookie = false) :
    Tri (MeIs x) (processIkeSaInitRequest request)
      (fun res s => ∃ chosen payloads, IkeReply payloads chosen ∧
        res = .reply (mkResponse (keyedWith x chosen).core 34 (payloads ++ [mkP ptVENDOR (.vendor vendorId)])) ∧
        s.me = setSt (keyedWith x chosen) stINIT_RES_SENT)
      (fun _ _ => True) := by
  unfold processIkeSaInitRequest
  refine Tri.bind_quiet (fun _ => True) (checkInStates_me x _) (ret_true _) ?_ (fun _ _ _ => trivial); intro _ _
  apply Tri.bind (negotiateIkeRequest_me_tri request x hcookie); intro payloads
  constructor
  · intro s res t ⟨chosen, hs, hrep⟩ hm
    simp only [HM.bind_def, getMe, setState, modCore, HM.modify, HM.pure_def] at hm
    cases hm
    exact ⟨chosen, payloads, hrep, by rw [hs], by simp only [setSt]; rw [hs]⟩
  · intro _ _ _ _ _; trivial

/-! ### IKE_SA_INIT: the initiator -/

/-- the initiator after it accepted the IKE_SA_INIT response: the responder's SPI, the chosen proposal, keys -/
def respondedMe (y : XSa) (p0 : Proposal) (spiR : Bytes) : XSa :=
  { core := { y.core with peerSpi := spiR, keyed := true }, ext := { y.ext with chosen := some p0 } }

theorem negotiateIkeResponse_me_tri (response : Msg) (y : XSa) :
    Tri (MeIs y) (negotiateIkeResponse .me response false false)
      (fun _ s => ∃ p0, MeIs (respondedMe y p0 response.hdr.spiR) s)
      (fun _ _ => True) := by
  unfold negotiateIkeResponse
  refine Tri.bind_liftE ?_ (fun _ _ _ _ => trivial); intro sa hsa
  refine Tri.bind_liftE ?_ (fun _ _ _ _ => trivial); intro _ _
  refine Tri.bind_liftE ?_ (fun _ _ _ _ => trivial); intro _ _
  simp only [getSlot]
  apply Tri.bind_getMe
  repeat' (first
    | (exfalso; exact absurd ‹false = true› (by decide))
    | exact Tri.raise _ (fun _ _ => trivial)
    | exact Tri.raise_bind _ (fun _ _ => trivial)
    | (refine Tri.bind_quiet (fun _ => True) (popOk_me _) (ret_true _) ?_ (fun _ _ _ => trivial); intro _ _)
    | (refine (modSlot_me_tri _ _ _).conseq (fun _ h => h) ?_ (fun _ _ h => h); intro _ s hs; exact ⟨_, hs⟩)
    | (apply Tri.bind (modSlot_me_tri _ _ _); intro _)
    | extract_lets
    | split
    | simp -zeta +zetaDelta only [])

theorem generateIkeAuthRequest_tri (y : XSa) (c : Child) (hc : y.ext.creating = some c) :
    Tri (MeIs y) generateIkeAuthRequest
      (fun r s => s.me = { y with core := { y.core with request := some r, st := stAUTH_REQ_SENT } } ∧ r.hdr.exch = 35 ∧
        paySA r true = .ok [offerOf c])
      (fun _ _ => True) := by
  unfold generateIkeAuthRequest
  refine Tri.bind_quiet (fun _ => True) ((assertState_to _).keepsMe y) (ret_true _) ?_ (fun _ _ _ => trivial); intro _ _
  apply Tri.bind_getMe
  rw [hc]; dsimp only
  refine Tri.bind_quiet _ (generateChildNegotiation_me y c) (generateChildNegotiation_ret c) ?_ (fun _ _ _ => trivial)
  rintro payloads ⟨tail, rfl⟩
  constructor
  · intro s r t hs hm
    rw [HM.bind_def] at hm
    cases hp : popAuthGen s with
    | mk rg s1 =>
      have hk := (popAuthGen_to.keep s).1; rw [hp] at hk
      rw [hp] at hm
      cases rg with
      | error e => cases hm
      | ok md =>
        obtain ⟨method, data⟩ := md
        simp only [HM.bind_def, getMe, modCore, HM.modify, HM.pure_def] at hm
        cases hm
        have hme : s1.me = y := hk.trans hs
        refine ⟨by rw [hme], rfl, ?_⟩
        rw [hme]
        have h36 := paySA_of_prefix y.core [] (by intro q hq; cases hq) c tail
        refine paySA_append (mkRequest y.core 36 ([] ++ ([mkP ptTSi (.ts c.tsi), mkP ptTSr (.ts c.tsr), mkP ptSA (.sa [offerOf c])] ++ tail)))
          _ [mkP ptIDi (.ident y.ext.conf.myIdType y.ext.conf.myIdData), mkP ptAUTH (.auth method data)] ?_ _ h36
        simp [mkRequest]
  · intro _ _ _ _ _; trivial

/-- the initiator goes on to IKE_AUTH: what it is then, and what it sends -/
def Proceeds (y : XSa) (c : Child) (response : Msg) (r' : Msg) (z : XSa) : Prop :=
  r'.hdr.exch = 35 ∧ paySA r' true = .ok [offerOf c] ∧ z.core.st = stAUTH_REQ_SENT ∧ z.ext.creating = some c ∧
  z.ext.kids = y.ext.kids ∧ z.core.peerSpi = response.hdr.spiR ∧ z.core.mySpi = y.core.mySpi ∧ z.core.isInit = y.core.isInit ∧
  z.core.myAddr = y.core.myAddr ∧ z.core.peerAddr = y.core.peerAddr ∧ z.ext.conf = y.ext.conf

theorem processIkeSaInitResponse_tri (response : Msg) (y : XSa) (c : Child) (req : Msg) (hc : y.ext.creating = some c)
    (hreq : y.core.request = some req) (hx : req.hdr.exch = 34) :
    Tri (MeIs y) (processIkeSaInitResponse response)
      (fun res s => ∃ r', res = .request r' ∧ (r'.hdr.exch = 34 ∨ Proceeds y c response r' s.me))
      (fun _ _ => True) := by
  unfold processIkeSaInitResponse
  refine Tri.bind_quiet (fun _ => True) (checkInStates_me y _) (ret_true _) ?_ (fun _ _ _ => trivial); intro _ _
  split
  · -- INVALID_KE_PAYLOAD: the same request with another group, Message ID 0 again
    rename_i data _ _
    apply Tri.bind (Q := fun _ => MeIs ({ y with core := { y.core with myId := 0 } } : XSa))
    · unfold modCore; apply Tri.modify; intro s h; simp only [MeIs]; rw [show s.me = y from h]
    · intro _
      apply Tri.bind ((handleInvalidKe_tri _ data).conseq (fun _ h => h) (fun _ _ h => h) (fun _ _ _ => trivial)); intro r2
      constructor
      · intro s res t ⟨_, rq, g, pub, hrq, hr2⟩ hm
        simp only [HM.bind_def, modCore, HM.modify, HM.pure_def] at hm
        cases hm
        simp only at hrq; rw [hreq] at hrq; cases hrq
        exact ⟨r2, rfl, Or.inl (by rw [hr2]; simp [mkRequest, hx])⟩
      · intro _ _ _ _ _; trivial
  · split
    · -- COOKIE: the same request with the cookie in front
      apply Tri.bind_getMe
      rw [hreq]; dsimp only
      constructor
      · intro s res t _ hm
        simp only [HM.bind_def, modCore, HM.modify, HM.pure_def] at hm
        cases hm
        exact ⟨_, rfl, Or.inl hx⟩
      · intro _ _ _ _ _; trivial
    · refine Tri.bind_quiet (fun _ => True) (abortOnErrorNotifies_me y _ _ _) (ret_true _) ?_ (fun _ _ _ => trivial); intro _ _
      apply Tri.bind_getMe
      rw [hreq]; dsimp only
      refine Tri.bind_liftE ?_ (fun _ _ _ _ => trivial); intro _ _
      apply Tri.bind ((negotiateIkeResponse_me_tri response y)); intro _
      constructor
      · intro s res t ⟨p0, hs⟩ hm
        rw [HM.bind_def] at hm
        have hg := generateIkeAuthRequest_tri (respondedMe y p0 response.hdr.spiR) c hc
        cases hgr : generateIkeAuthRequest s with
        | mk rr s2 =>
          rw [hgr] at hm
          cases rr with
          | error e => cases hm
          | ok r' =>
            obtain ⟨h1, h2, h3⟩ := hg.ok s r' s2 hs hgr
            simp only [HM.pure_def] at hm; cases hm
            exact ⟨r', rfl, Or.inr ⟨h2, h3, by rw [h1], by rw [h1]; exact hc, by rw [h1]; rfl, by rw [h1]; rfl, by rw [h1]; rfl,
              by rw [h1]; rfl, by rw [h1]; rfl, by rw [h1]; rfl, by rw [h1]; rfl⟩⟩
      · intro _ _ _ _ _; trivial

theorem requestHandler_34 (now : Nat) (r : Msg) (hx : r.hdr.exch = 34) : requestHandler now r = some (processIkeSaInitRequest r) := by
  simp [requestHandler, hx]

theorem responseHandler_34 (now : Nat) (core : SaCore) (l : List Payload) :
    responseHandler now (mkResponse core 34 l) = some (processIkeSaInitResponse (mkResponse core 34 l)) := by
  simp [responseHandler, mkResponse]

/-- a second IKE_SA_INIT request finds the responder object past INITIAL: the handler raises (the controller makes a new object) -/
theorem processIkeSaInitRequest_not_initial (r : Msg) (s : HSt) (hst : s.me.core.st ≠ stINITIAL) :
    ∃ e t, processIkeSaInitRequest r s = (.error e, t) := by
  have : ¬ s.me.core.st = 0 := hst
  refine ⟨excStateError, s, ?_⟩
  simp [processIkeSaInitRequest, checkInStates, HM.bind_def, getMe, stINITIAL, this, HM.raise]

/-! ### the initial exchanges -/

theorem half_nil : Half ([] : List Child) [] :=
  ⟨List.Perm.nil, List.nodup_nil, fun _ h => (by cases h), fun _ h => (by cases h), fun _ h _ _ _ => (by cases h)⟩

/-- **IKE_SA_INIT and IKE_AUTH between two objects that hold nothing yet**: if no handler raises, both are ESTABLISHED, agree (on the
    first CHILD_SA, or on none when the responder refused it), and the initiator's peer SPI is the responder's own SPI -/
theorem initConverse (now fuel : Nat) (a b : HSt) (r : Msg) (c : Child)
    (hcr : a.me.ext.creating = some c) (hreq : a.me.core.request = some r) (hx : r.hdr.exch = 34)
    (hak : a.me.ext.kids = []) (hbk : b.me.ext.kids = []) (hcookie : b.me.core.cookie = false) (hbi : b.me.core.isInit = false)
    (hp23 : c.proposal.proto = 2 ∨ c.proposal.proto = 3)
    (a' b' : HSt) (hconv : converse now (fuel + 2) r a b = some (a', b')) :
    Done a' b' ∧ a'.me.core.peerSpi = b'.me.core.mySpi ∧ a'.me.core.mySpi = a.me.core.mySpi ∧
      b'.me.core.peerSpi = b.me.core.peerSpi ∧ b'.me.core.mySpi = b.me.core.mySpi ∧ a'.me.ext.kids.length ≤ 1 := by
  unfold converse at hconv
  rw [requestHandler_34 now r hx] at hconv; dsimp only at hconv
  have hB := processIkeSaInitRequest_tri r b.me hcookie
  cases hb : processIkeSaInitRequest r b with
  | mk resB b1 =>
    rw [hb] at hconv
    cases resB with
    | error e => cases hconv
    | ok resB =>
      obtain ⟨chosen, payloads, _, hres, hb1⟩ := hB.ok b resB b1 rfl hb
      subst hres
      dsimp only at hconv
      rw [responseHandler_34] at hconv; dsimp only at hconv
      have hA := processIkeSaInitResponse_tri (mkResponse (keyedWith b.me chosen).core 34 (payloads ++ [mkP ptVENDOR (.vendor vendorId)]))
        a.me c r hcr hreq hx
      cases ha : processIkeSaInitResponse (mkResponse (keyedWith b.me chosen).core 34 (payloads ++ [mkP ptVENDOR (.vendor vendorId)])) a with
      | mk resA a2 =>
        rw [ha] at hconv
        cases resA with
        | error e => cases hconv
        | ok resA =>
          obtain ⟨r', hr', hcase⟩ := hA.ok a resA a2 rfl ha
          subst hr'
          dsimp only at hconv
          rcases hcase with h34 | ⟨h35, hsa, hst, hcr2, hk2, hps, hms, _⟩
          · -- a retry of IKE_SA_INIT would need a new responder object: this one refuses
            unfold converse at hconv
            rw [requestHandler_34 now r' h34] at hconv; dsimp only at hconv
            obtain ⟨e, t, he⟩ := processIkeSaInitRequest_not_initial r' b1 (by rw [hb1]; simp [setSt, stINIT_RES_SENT, stINITIAL])
            rw [he] at hconv; cases hconv
          · have hstep := authStep now fuel a2 b1 r' c (offerOf c) hst hcr2 h35 hsa rfl rfl hp23
              (by rw [hk2, hak]; simp) (by rw [hk2, hak, hb1]; simp only [setSt, keyedWith, hbk]; exact half_nil) a' b' hconv
            obtain ⟨hdone, ⟨ha1, ha2', _⟩, ⟨hb1', hb2', _⟩, hlen⟩ := hstep
            refine ⟨hdone, ?_, by rw [ha1, hms], ?_, ?_, by rw [hk2, hak] at hlen; simpa using hlen⟩
            · rw [ha2', hps, hb1', hb1]
              simp only [mkResponse, SaCore.spiR, setSt, keyedWith, hbi]
              rfl
            · rw [hb2', hb1]; rfl
            · rw [hb1', hb1]; rfl

theorem generateIkeSaInitRequest_tri (x : XSa) (c : Child) :
    Tri (MeIs x) (generateIkeSaInitRequest c)
      (fun r s => s.me.ext.creating = some c ∧ s.me.core.request = some r ∧ r.hdr.exch = 34 ∧ s.me.ext.kids = x.ext.kids ∧
        s.me.core.mySpi = x.core.mySpi ∧ s.me.core.isInit = x.core.isInit)
      (fun _ _ => True) := by
  unfold generateIkeSaInitRequest
  refine Tri.bind_quiet (fun _ => True) ((assertState_to _).keepsMe x) (ret_true _) ?_ (fun _ _ _ => trivial); intro _ _
  apply Tri.bind (Q := fun _ s => s.me.ext.kids = x.ext.kids ∧ s.me.core.mySpi = x.core.mySpi ∧ s.me.core.isInit = x.core.isInit)
  · unfold generateIkeNegotiation
    simp only [getSlot]
    apply Tri.bind_getMe
    apply Tri.bind (modSlot_me_tri x _ _); intro _
    refine Tri.bind_quiet (fun _ => True) (popBytes_me _) (ret_true _) ?_ (fun _ _ _ => trivial); intro _ _
    split
    · exact Tri.raise _ (fun _ _ => trivial)
    · refine Tri.bind_quiet (fun _ => True) (popBytesOrFail_me _) (ret_true _) ?_ (fun _ _ _ => trivial); intro _ _
      exact Tri.pure _ (fun s h => by rw [show s.me = _ from h]; exact ⟨rfl, rfl, rfl⟩)
  · intro payloads
    constructor
    · intro s r t ⟨h1, h2, h3⟩ hm
      simp only [HM.bind_def, getMe, modCore, modExt, HM.modify, HM.pure_def] at hm
      cases hm
      exact ⟨rfl, rfl, rfl, h1, h2, h3⟩
    · intro _ _ _ _ _; trivial

/-- the initial exchanges, from the initiator's generator to the last answer -/
def initExchange (now fuel : Nat) (c : Child) (a b : HSt) : Option (HSt × HSt) :=
  match generateIkeSaInitRequest c a with
  | (.ok r, a1) => converse now fuel r a1 b
  | _ => none

/-- **from nothing to agreement**: an initiator object and a responder object (as the controller creates it for the request:
    no cookie secret, the initiator's SPI as its peer SPI) that hold no CHILD_SA; if no handler raises, they are ESTABLISHED, agree,
    and have each other's SPI as peer SPI.  (`hnd`: the responder's kernel accepted its inbound SA — one SA, nothing to collide with.) -/
theorem initExchange_agree (now fuel : Nat) (c : Child) (a b a' b' : HSt)
    (hak : a.me.ext.kids = []) (hbk : b.me.ext.kids = []) (hcookie : b.me.core.cookie = false) (hbi : b.me.core.isInit = false)
    (hbp : b.me.core.peerSpi = a.me.core.mySpi) (hp23 : c.proposal.proto = 2 ∨ c.proposal.proto = 3)
    (hx : initExchange now (fuel + 2) c a b = some (a', b')) :
    Agree a' b' ∧ a'.me.core.peerSpi = b'.me.core.mySpi ∧ b'.me.core.peerSpi = a'.me.core.mySpi := by
  unfold initExchange at hx
  cases hg : generateIkeSaInitRequest c a with
  | mk res a1 =>
    rw [hg] at hx
    cases res with
    | error e => cases hx
    | ok r =>
      dsimp only at hx
      obtain ⟨h1, h2, h3, h4, h5, _⟩ := (generateIkeSaInitRequest_tri a.me c).ok a r a1 rfl hg
      obtain ⟨hdone, hp1, hp2, hp3, _, hle⟩ := initConverse now fuel a1 b r c h1 h2 h3 (by rw [h4, hak]) hbk hcookie hbi hp23 a' b' hx
      refine ⟨hdone.agree ?_, hp1, by rw [hp3, hbp, hp2, h5]⟩
      -- the responder holds at most one CHILD_SA (the mirror of at most one): nothing to collide with
      have hlen : b'.me.ext.kids.length = a'.me.ext.kids.length := by
        have := hdone.half.mirror.length_eq; simpa using this.symm
      have hb1 : (b'.me.ext.kids.map Child.inSpi).length ≤ 1 := by rw [List.length_map, hlen]; exact hle
      match hl : b'.me.ext.kids.map Child.inSpi, hb1 with
      | [], _ => exact List.nodup_nil
      | [x], _ => simp
      | _ :: _ :: _, h => simp at h

end PyIkev2.Impl
