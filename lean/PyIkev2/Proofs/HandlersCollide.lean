/-
  Collisions (RFC 7296 section 2.25) in the concrete handler model: what a handler answers when the request it receives crosses
  something this end is doing itself — exact results: the reply payloads and "nothing else changes".
-/
import PyIkev2.Proofs.HandlersCookie

namespace PyIkev2.Impl
open PyIkev2

theorem liftE_ok {α} (x : Except Exc α) (a : α) (s : HSt) (h : x = .ok a) : liftE x s = (.ok a, s) := by rw [h]; rfl

/-- RFC 7296 2.25.2: an IKE_SA rekey request while this end is doing anything else is answered TEMPORARY_FAILURE; nothing changes -/
theorem ikeRekeyRequest_busy (now : Nat) (request : Msg) (p0 : Proposal) (s : HSt) (h : s.me.core.st ≠ stESTABLISHED) :
    ikeRekeyRequest now request p0 s = (.ok [mkNotify 0 nTEMPORARY_FAILURE [] []], s) := by
  unfold ikeRekeyRequest
  simp only [HM.bind_def, getMe, h, ne_eq, not_false_eq_true, if_true, HM.pure_def]

/-- RFC 7296 2.25: a CHILD_SA request while this end is rekeying or deleting the IKE_SA is answered TEMPORARY_FAILURE -/
theorem childNegotiationReq_ike_busy (request : Msg) (s : HSt) (sa : List Proposal) (tsi tsr : List TS)
    (h1 : paySA request true = .ok sa) (h2 : payTS request ptTSi true = .ok tsi) (h3 : payTS request ptTSr true = .ok tsr)
    (hst : s.me.core.st = stREK_IKE_SA_REQ_SENT ∨ s.me.core.st = stDEL_IKE_SA_REQ_SENT) :
    childNegotiationReq request s = (.ok [mkNotify 0 nTEMPORARY_FAILURE [] []], s) := by
  unfold childNegotiationReq HM.tryCatch childNegotiationReqBody
  simp only [HM.bind_def, liftE_ok _ _ _ h1, liftE_ok _ _ _ h2, liftE_ok _ _ _ h3, getMe, hst, if_true, HM.raise, excTemporaryFailure]
  simp [mkNotify, nTEMPORARY_FAILURE, nTS_UNACCEPTABLE, nNO_PROPOSAL_CHOSEN, nCHILD_SA_NOT_FOUND, nINVALID_KE_PAYLOAD, HM.pure_def]

theorem childRekeyPrelude_unknown (request : Msg) (sa : List Proposal) (tsi tsr : List TS) (s : HSt) (proto : Nat) (spi d : Bytes)
    (tl : List (Nat × Bytes × Bytes)) (hn : getNotifies request nREKEY_SA true = (proto, spi, d) :: tl)
    (hk : getKidOut s.me.ext.kids spi = none) :
    childRekeyPrelude request sa tsi tsr s = (.error (excChildNotFound proto spi), s) := by
  unfold childRekeyPrelude
  simp only [HM.bind_def, getMe, hn, hk, HM.raise]

theorem childRekeyPrelude_busy (request : Msg) (sa : List Proposal) (tsi tsr : List TS) (s : HSt) (proto : Nat) (spi d : Bytes)
    (tl : List (Nat × Bytes × Bytes)) (old : Child) (hn : getNotifies request nREKEY_SA true = (proto, spi, d) :: tl)
    (hk : getKidOut s.me.ext.kids spi = some old)
    (hb : (s.me.core.st = stDEL_CHILD_REQ_SENT ∧ s.me.ext.deleting.map (childEq old) = some true) ∨
          (s.me.core.st = stREK_CHILD_REQ_SENT ∧ s.me.ext.rekeying.map (childEq old) = some true)) :
    childRekeyPrelude request sa tsi tsr s = (.error excTemporaryFailure, s) := by
  unfold childRekeyPrelude
  simp only [HM.bind_def, getMe, hn, hk]
  rcases hb with ⟨h1, h2⟩ | ⟨h1, h2⟩
  · simp [h1, h2, HM.raise, HM.bind_def]
  · have hne : ¬ (s.me.core.st = stDEL_CHILD_REQ_SENT) := by rw [h1]; decide
    simp [h1, h2, hne, HM.raise, HM.bind_def, stREK_CHILD_REQ_SENT, stDEL_CHILD_REQ_SENT]

/-- the whole CHILD_SA request routine on such a request: the error notification, nothing else -/
theorem childNegotiationReq_of_prelude_error (request : Msg) (s : HSt) (sa : List Proposal) (tsi tsr : List TS) (n : Payload)
    (h1 : paySA request true = .ok sa) (h2 : payTS request ptTSi true = .ok tsi) (h3 : payTS request ptTSr true = .ok tsr)
    (hst : ¬ (s.me.core.st = stREK_IKE_SA_REQ_SENT ∨ s.me.core.st = stDEL_IKE_SA_REQ_SENT))
    (hp : childRekeyPrelude request sa tsi tsr s = (.error (.ike n), s))
    (hn : ∃ pr t sp dd, n.body = .notify pr t sp dd ∧ (t = nCHILD_SA_NOT_FOUND ∨ t = nTEMPORARY_FAILURE)) :
    childNegotiationReq request s = (.ok [n], s) := by
  obtain ⟨pr, t, sp, dd, hb, ht⟩ := hn
  unfold childNegotiationReq HM.tryCatch childNegotiationReqBody
  simp only [HM.bind_def, liftE_ok _ _ _ h1, liftE_ok _ _ _ h2, liftE_ok _ _ _ h3, getMe, hst, if_false, HM.pure_def, hp, hb]
  rcases ht with rfl | rfl <;> simp [nTEMPORARY_FAILURE, nTS_UNACCEPTABLE, nNO_PROPOSAL_CHOSEN, nCHILD_SA_NOT_FOUND, nINVALID_KE_PAYLOAD, HM.pure_def]

end PyIkev2.Impl
