/- Helper lemmas for C14: the generic record codec round-trips. -/
import PyIkev2.Model.Netlink

namespace PyIkev2.Impl
open PyIkev2

/-- what a field can carry without truncation -/
def ValOk : FT → Val → Prop
  | .int s _, .n v => v < 256 ^ s
  | .raw n, .b bs => bs.length = n
  | .pad _, .z => True
  | _, _ => False

theorem encField_length (t : FT) (v : Val) : (encField t v).length = t.size := by
  cases t with
  | int s be => cases be <;> cases v <;> simp [encField, FT.size, wrLE]
  | raw n => cases v <;> simp [encField, FT.size]
  | pad n => simp [encField, FT.size]

theorem rdLE_wrLE (s v : Nat) (h : v < 256 ^ s) : rdLE (wrLE s v) = v := by
  simp [rdLE, wrLE, rdBE_wrBE_of_lt s v h]

theorem decField_encField (t : FT) (v : Val) (h : ValOk t v) : decField t (encField t v) = v := by
  cases t with
  | int s be =>
    cases v with
    | n x =>
      cases be
      · simp [encField, decField, rdLE_wrLE s x h]
      · simp [encField, decField, rdBE_wrBE_of_lt s x h]
    | b _ => exact h.elim
    | z => exact h.elim
  | raw n =>
    cases v with
    | b bs =>
      have hl : bs.length = n := h
      simp [encField, decField, ← hl]
    | n _ => exact h.elim
    | z => exact h.elim
  | pad n =>
    cases v with
    | z => simp [decField]
    | n _ => exact h.elim
    | b _ => exact h.elim

/-- decoding what was encoded returns the values, whatever follows (attributes, next message) -/
theorem decFields_encFields (fs : List (FT × Val)) (h : ∀ p ∈ fs, ValOk p.1 p.2) (tail : Bytes) :
    decFields (fs.map (·.1)) (encFields fs ++ tail) = fs.map (·.2) := by
  induction fs with
  | nil => rfl
  | cons p rest ih =>
    obtain ⟨t, v⟩ := p
    have hl := encField_length t v
    simp only [List.map_cons, decFields, encFields, List.append_assoc]
    have h1 : (encField t v ++ (encFields rest ++ (tail ++ List.replicate t.size 0))).take t.size = encField t v := by
      rw [List.take_append_of_le_length (by omega), List.take_of_length_le (by omega)]
    have h2 : (encField t v ++ (encFields rest ++ tail)).drop t.size = encFields rest ++ tail := by
      rw [← hl]; simp
    rw [h1, h2, decField_encField t v (h (t, v) (by simp)), ih (fun p hp => h p (by simp [hp]))]

theorem encFields_length (fs : List (FT × Val)) : (encFields fs).length = totalSize (fs.map (·.1)) := by
  induction fs with
  | nil => rfl
  | cons p rest ih =>
    simp only [encFields, List.length_append, encField_length, List.map_cons, totalSize, List.sum_cons] at *
    omega

end PyIkev2.Impl
