/- Helper lemmas about the shell model (Model/Machine.lean). -/
import PyIkev2.Model.Machine

namespace PyIkev2.Impl
open PyIkev2

variable {τ : Type}

/-- frame conditions on the delegated handlers that the window theorems need: a handler never
    touches the peer's counter or the response cache (the shell owns them) -/
structure ReqFrame (H : Handlers τ) : Prop where
  peerId : ∀ t s now m t' o, H.req t s now m = (t', some o) → o.sa.core.peerId = s.core.peerId

/-- one incoming message, as the history theorems see it: time and parse outcome -/
abbrev Input := Nat × Option Msg

/-- feed a history of datagrams to one IKE_SA; collect the Message IDs of the requests that were
    *executed* (a handler ran), in order -/
def runHistory (H : Handlers τ) : τ → Sa → List Input → List Nat → τ × Sa × List Nat
  | t, s, [], acc => (t, s, acc)
  | t, s, (now, p) :: rest, acc =>
    let (t', o) := processMessage H t s now p
    let acc' := match p with
      | some m => if ¬ m.hdr.isResp ∧ o.ran ≥ 1 then acc ++ [m.hdr.msgId] else acc
      | none => acc
    runHistory H t' o.sa rest acc'

theorem processRequest_ran_pos (H : Handlers τ) (t : τ) (s : Sa) (now : Nat) (m : Msg)
    (h : (processRequest H t s now m).2.ran ≥ 1) : m.hdr.msgId = s.core.peerId := by
  unfold processRequest at h
  split at h
  · simp at h
  · split at h
    · simp at h
    · rename_i h1 h2; simpa using h2

theorem processRequest_peerId_mono (H : Handlers τ) (hf : ReqFrame H) (t : τ) (s : Sa) (now : Nat) (m : Msg) :
    s.core.peerId ≤ (processRequest H t s now m).2.sa.core.peerId ∧
    ((processRequest H t s now m).2.ran ≥ 1 → (processRequest H t s now m).2.sa.core.peerId = s.core.peerId + 1) := by
  unfold processRequest
  split
  · simp
  · split
    · simp
    · cases hq : H.req t s now m with
      | mk t' oo =>
        cases oo with
        | none => simp
        | some o =>
          have := hf.peerId t s now m t' o hq
          cases hr : o.res <;> simp [hr, this]

end PyIkev2.Impl

namespace PyIkev2.Impl
open PyIkev2
variable {τ : Type}

/-- no delegated part touches the peer's counter -/
structure PeerFrame (H : Handlers τ) : Prop where
  req : ∀ t s now m t' o, H.req t s now m = (t', some o) → o.sa.core.peerId = s.core.peerId
  resp : ∀ t s now m t' o, H.resp t s now m = (t', some o) → o.sa.core.peerId = s.core.peerId
  genAcquire : ∀ t s now a b i, (H.genAcquire t s now a b i).2.sa.core.peerId = s.core.peerId
  genExpire : ∀ t s now c h, (H.genExpire t s now c h).2.sa.core.peerId = s.core.peerId

theorem PeerFrame.toReq {H : Handlers τ} (h : PeerFrame H) : ReqFrame H := ⟨h.req⟩

theorem processAcquire_peerId (H : Handlers τ) (hf : PeerFrame H) (t : τ) (s : Sa) (now : Nat) (a b : TS) (i : Nat) :
    (processAcquire H t s now a b i).2.sa.core.peerId = s.core.peerId := by
  unfold processAcquire
  split
  · rfl
  · split
    · rfl
    · have := hf.genAcquire t s now a b i
      cases hr : (H.genAcquire t s now a b i).2.res <;> simp [hr, sendRequest, this]

theorem processExpire_peerId (H : Handlers τ) (hf : PeerFrame H) (t : τ) (s : Sa) (now : Nat) (spi : Bytes) (hard : Bool) :
    (processExpire H t s now spi hard).2.sa.core.peerId = s.core.peerId := by
  unfold processExpire
  split
  · rfl
  · split
    · rfl
    · rename_i c _
      have := hf.genExpire t s now c hard
      cases hr : (H.genExpire t s now c hard).2.res <;> simp [hr, sendRequest, this]

theorem pendingLoop_peerId (H : Handlers τ) (hf : PeerFrame H) (now : Nat) (ps : List Pend) :
    ∀ (t : τ) (s : Sa) (nl : List NlOp), (pendingLoop H t now ps s nl).2.sa.core.peerId = s.core.peerId := by
  induction ps with
  | nil => intro t s nl; rfl
  | cons p rest ih =>
    intro t s nl
    unfold pendingLoop
    cases p with
    | acquire a b i =>
      simp only
      have h1 := processAcquire_peerId H hf t
        { s with core := { s.core with pending := s.core.pending.erase (.acquire a b i) } } now a b i
      split
      · simpa using h1
      · split
        · simpa using h1
        · rw [ih]; simpa using h1
    | expire spi hard =>
      simp only
      have h1 := processExpire_peerId H hf t
        { s with core := { s.core with pending := s.core.pending.erase (.expire spi hard) } } now spi hard
      split
      · simpa using h1
      · split
        · simpa using h1
        · rw [ih]; simpa using h1

theorem processResponse_peerId (H : Handlers τ) (hf : PeerFrame H) (t : τ) (s : Sa) (now : Nat) (m : Msg) :
    (processResponse H t s now m).2.sa.core.peerId = s.core.peerId := by
  unfold processResponse
  split
  · rfl
  · cases hq : H.resp t (bumpMyId s) now m with
    | mk t' oo =>
      cases oo with
      | none => rfl
      | some o =>
        have h1 : o.sa.core.peerId = s.core.peerId := hf.resp _ (bumpMyId s) _ _ _ _ hq
        cases hr : o.res with
        | request r => simp [hr, sendRequest, h1]
        | reply r => simp [hr, sendRequest, h1]
        | ikeError n => simp [hr, h1]
        | otherError n => simp [hr, h1]
        | nothing =>
          simp only [hr]
          split
          · have h2 := pendingLoop_peerId H hf now o.sa.core.pending t' o.sa o.nl
            split <;> simp [h2, h1]
          · simp [h1]

end PyIkev2.Impl
