/- Helper lemmas for C04: the prf+ loop computes the RFC stream. -/
import PyIkev2.Model.Keys

namespace PyIkev2.Impl
open PyIkev2

variable (prf : PrfFn) (key seed : Bytes)

theorem stream_length (h : Nat) (hl : ∀ k d, (prf k d).length = h) (n : Nat) :
    (Spec.stream prf key seed n).length = n * h := by
  induction n with
  | zero => simp [Spec.stream]
  | succ n ih =>
    simp only [Spec.stream, List.length_append, ih, Spec.T, hl]
    rw [Nat.succ_mul]

theorem stream_prefix (n m : Nat) (hnm : n ≤ m) :
    ∃ suf, Spec.stream prf key seed m = Spec.stream prf key seed n ++ suf := by
  induction m with
  | zero => have : n = 0 := by omega
            subst this; exact ⟨[], by simp⟩
  | succ m ih =>
    by_cases h : n = m + 1
    · subst h; exact ⟨[], by simp⟩
    · obtain ⟨suf, hs⟩ := ih (by omega)
      exact ⟨suf ++ Spec.T prf key seed (m + 1), by simp [Spec.stream, hs]⟩

theorem take_stream (h : Nat) (hl : ∀ k d, (prf k d).length = h) (n m size : Nat) (hnm : n ≤ m)
    (hs : size ≤ n * h) :
    (Spec.stream prf key seed n).take size = (Spec.stream prf key seed m).take size := by
  obtain ⟨suf, hsuf⟩ := stream_prefix prf key seed n m hnm
  rw [hsuf, List.take_append_of_le_length]
  rw [stream_length prf key seed h hl]; exact hs

theorem prfplusLoop_spec (h : Nat) (hl : ∀ k d, (prf k d).length = h) (size : Nat)
    (hsz : size ≤ 255 * h) (fuel n : Nat) (hn : n ≤ 255) (hf : 257 - n ≤ fuel) :
    prfplusLoop prf key seed size fuel (n + 1) (Spec.T prf key seed n) (Spec.stream prf key seed n) =
      .ok ((Spec.stream prf key seed 255).take size) := by
  induction fuel generalizing n with
  | zero => omega
  | succ f ih =>
    unfold prfplusLoop
    rw [stream_length prf key seed h hl]
    by_cases hlt : n * h < size
    · have hn' : n < 255 := by
        apply Classical.byContradiction; intro hc
        have : n = 255 := by omega
        subst this; omega
      have hi : ¬ (n + 1 ≥ 256) := by omega
      rw [if_pos hlt, if_neg hi]
      have := ih (n + 1) (by omega) (by omega)
      exact this
    · rw [if_neg hlt]
      rw [take_stream prf key seed h hl n 255 size hn (by omega)]

theorem prfplusLoop_overflow (h : Nat) (hl : ∀ k d, (prf k d).length = h) (size : Nat)
    (hsz : 255 * h < size) (fuel n : Nat) (hn : n ≤ 255) (hf : 257 - n ≤ fuel) :
    prfplusLoop prf key seed size fuel (n + 1) (Spec.T prf key seed n) (Spec.stream prf key seed n) =
      .py .overflowError := by
  induction fuel generalizing n with
  | zero => omega
  | succ f ih =>
    unfold prfplusLoop
    rw [stream_length prf key seed h hl]
    have hlt : n * h < size := by
      have : n * h ≤ 255 * h := Nat.mul_le_mul_right h hn
      omega
    rw [if_pos hlt]
    by_cases hi : n + 1 ≥ 256
    · rw [if_pos hi]
    · rw [if_neg hi]
      have := ih (n + 1) (by omega) (by omega)
      exact this

end PyIkev2.Impl
