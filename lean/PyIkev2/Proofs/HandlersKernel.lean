/-
  C10 at the level of the concrete handlers: the kernel's SAD and the CHILD_SA records of an IKE_SA object move together.

  `SadI base a p`: the SAD is, as a set, `base` (everything that belongs to somebody else: other IKE_SAs, a successor) together
  with the two keys of every CHILD_SA record of this object; all of these keys are pairwise different; the shell's view of the
  records is their projection; the addresses are what they were.
-/
import PyIkev2.Proofs.Handlers

namespace PyIkev2.Impl
open PyIkev2


def kidKeys (x : XSa) (c : Child) : List Key := [outKey x c, inKey x c]
def keysX (x : XSa) : List Key := x.ext.kids.flatMap (kidKeys x)

def SadI (base : List Key) (a p : Bytes) (s : HSt) : Prop :=
  s.me.core.myAddr = a ∧ s.me.core.peerAddr = p ∧
  (∀ e, e ∈ s.sad ↔ e ∈ base ∨ e ∈ keysX s.me) ∧ (base ++ keysX s.me).Nodup ∧
  s.me.core.children = s.me.ext.kids.map Child.ref

/-- keys depend on the object only through its two addresses -/
theorem kidKeys_congr (x y : XSa) (c : Child) (h1 : x.core.myAddr = y.core.myAddr) (h2 : x.core.peerAddr = y.core.peerAddr) :
    kidKeys x c = kidKeys y c := by
  simp [kidKeys, outKey, inKey, h1, h2]

theorem keysX_setKids (x : XSa) (kids : List Child) : keysX (x.setKids kids) = kids.flatMap (kidKeys x) := by
  unfold keysX
  simp only [XSa.setKids]
  have : kidKeys { core := { x.core with children := kids.map Child.ref }, ext := { x.ext with kids := kids } } = kidKeys x := by
    funext c; exact kidKeys_congr _ _ _ rfl rfl
  rw [this]

/-- `childEq` records have the same kernel keys -/
theorem childEq_keys (x : XSa) (c k : Child) (h : childEq c k = true) : kidKeys x c = kidKeys x k := by
  simp only [childEq, propEq, decide_eq_true_eq] at h
  obtain ⟨h1, h2, _, ⟨h4, _⟩, _⟩ := h
  simp [kidKeys, outKey, inKey, h1, h2, h4]

/-! ### the two primitives that touch the kernel -/

theorem trackChild_sad (base : List Key) (a p : Bytes) (c : Child) : Keeps (SadI base a p) (trackChild c) := by
  constructor
  intro s h
  obtain ⟨h1, h2, h3, h4, h5⟩ := h
  unfold trackChild
  simp only
  split
  · exact ⟨h1, h2, h3, h4, h5⟩
  split
  · exact ⟨h1, h2, h3, h4, h5⟩
  · split
    · exact ⟨h1, h2, h3, h4, h5⟩
    · rename_i hno hni
      simp only [not_or, Bool.not_eq_true, List.contains_eq_mem, decide_eq_false_iff_not] at hno hni
      have hok : outKey s.me c ∉ base ++ keysX s.me := by
        intro hm; exact hno.1 ((h3 _).2 (List.mem_append.mp hm))
      have hik : inKey s.me c ∉ base ++ keysX s.me := by
        intro hm; exact hni.1 ((h3 _).2 (List.mem_append.mp hm))
      refine ⟨by simpa [XSa.setKids] using h1, by simpa [XSa.setKids] using h2, ?_, ?_, by simp [XSa.setKids]⟩
      · intro e
        rw [keysX_setKids, List.flatMap_append]
        simp only [List.mem_append, List.flatMap_cons, List.flatMap_nil, List.append_nil, kidKeys, List.mem_cons, List.not_mem_nil,
          or_false, h3 e]
        unfold keysX
        constructor
        · rintro (h | h | h)
          · rcases h with h | h
            · exact Or.inl h
            · exact Or.inr (Or.inl h)
          · exact Or.inr (Or.inr (Or.inl h))
          · exact Or.inr (Or.inr (Or.inr h))
        · rintro (h | h | h | h)
          · exact Or.inl (Or.inl h)
          · exact Or.inl (Or.inr h)
          · exact Or.inr (Or.inl h)
          · exact Or.inr (Or.inr h)
      · rw [keysX_setKids, List.flatMap_append]
        simp only [List.flatMap_cons, List.flatMap_nil, List.append_nil, kidKeys]
        rw [← List.append_assoc]
        rw [List.nodup_append]
        refine ⟨h4, ?_, ?_⟩
        · simp only [List.nodup_cons, List.mem_singleton, List.not_mem_nil, not_false_eq_true, List.nodup_nil, and_true]
          exact fun h => hni.2.1 h.symm
        · intro x hx y hy
          simp only [List.mem_cons, List.not_mem_nil, or_false] at hy
          rcases hy with rfl | rfl
          · intro he; subst he; exact hok hx
          · intro he; subst he; exact hik hx

theorem untrackChild_sad (base : List Key) (a p : Bytes) (c : Child) : Keeps (SadI base a p) (untrackChild c) := by
  constructor
  intro s h
  obtain ⟨h1, h2, h3, h4, h5⟩ := h
  unfold untrackChild
  split
  · rename_i hany
    -- the first record equal to `c` (namedtuple equality) is the one that goes; it has `c`'s keys
    obtain ⟨k, l1, l2, _, hk, hl, her⟩ := List.exists_of_eraseP (p := childEq c) (List.any_eq_true.mp hany).choose_spec.1
      (List.any_eq_true.mp hany).choose_spec.2
    have hkeys : kidKeys s.me c = kidKeys s.me k := childEq_keys s.me c k hk
    have hko : outKey s.me c = outKey s.me k := by have := hkeys; simp only [kidKeys, List.cons.injEq] at this; exact this.1
    have hki : inKey s.me c = inKey s.me k := by have := hkeys; simp only [kidKeys, List.cons.injEq] at this; exact this.2.1
    have hkx : keysX s.me = l1.flatMap (kidKeys s.me) ++ [outKey s.me k, inKey s.me k] ++ l2.flatMap (kidKeys s.me) := by
      unfold keysX; rw [hl]; simp [List.flatMap_append, kidKeys]
    have hnd := h4
    rw [hkx] at hnd
    refine ⟨by simpa [XSa.setKids] using h1, by simpa [XSa.setKids] using h2, ?_, ?_, by simp [XSa.setKids]⟩
    · intro e
      rw [keysX_setKids]
      simp only [removeKid, her, List.flatMap_append, List.mem_filter, h3 e, hkx, hko, hki, List.mem_append, List.mem_cons,
        List.not_mem_nil, or_false, decide_eq_true_eq, ne_eq, Bool.decide_and, Bool.and_eq_true, decide_not, Bool.not_eq_true',
        decide_eq_false_iff_not]
      -- the two keys occur nowhere else
      have hndo : ∀ x, x ∈ base ∨ x ∈ l1.flatMap (kidKeys s.me) ∨ x ∈ l2.flatMap (kidKeys s.me) → x ≠ outKey s.me k ∧ x ≠ inKey s.me k := by
        intro x hx
        have hnd' := hnd
        simp only [List.nodup_append, List.nodup_cons, List.mem_cons, List.mem_append, List.not_mem_nil, or_false] at hnd'
        constructor
        · rintro rfl
          rcases hx with hx | hx | hx
          · exact hnd'.2.2 _ hx _ (Or.inl (Or.inr (Or.inl rfl))) rfl
          · exact hnd'.2.1.1.2.2 _ hx _ (Or.inl rfl) rfl
          · exact hnd'.2.1.2.2 _ (Or.inr (Or.inl rfl)) _ hx rfl
        · rintro rfl
          rcases hx with hx | hx | hx
          · exact hnd'.2.2 _ hx _ (Or.inl (Or.inr (Or.inr rfl))) rfl
          · exact hnd'.2.1.1.2.2 _ hx _ (Or.inr rfl) rfl
          · exact hnd'.2.1.2.2 _ (Or.inr (Or.inr rfl)) _ hx rfl
      constructor
      · rintro ⟨hm, hne⟩
        rcases hm with hm | (hm | hm | hm) | hm
        · exact Or.inl hm
        · exact Or.inr (Or.inl hm)
        · exact absurd hm hne.1
        · exact absurd hm hne.2
        · exact Or.inr (Or.inr hm)
      · intro hm
        rcases hm with hm | hm | hm
        · exact ⟨Or.inl hm, hndo e (Or.inl hm)⟩
        · exact ⟨Or.inr (Or.inl (Or.inl hm)), hndo e (Or.inr (Or.inl hm))⟩
        · exact ⟨Or.inr (Or.inr hm), hndo e (Or.inr (Or.inr hm))⟩
    · rw [keysX_setKids]
      simp only [removeKid, her, List.flatMap_append]
      refine List.Nodup.sublist ?_ hnd
      apply List.Sublist.append (List.Sublist.refl _)
      apply List.Sublist.append _ (List.Sublist.refl _)
      exact List.sublist_append_left _ _
  · exact ⟨h1, h2, h3, h4, h5⟩

/-! ### everything else leaves both alone -/

/-- a modification of an object that leaves its addresses, its CHILD_SA records and their projection alone -/
def SadSafe (f : XSa → XSa) : Prop :=
  ∀ x, (f x).core.myAddr = x.core.myAddr ∧ (f x).core.peerAddr = x.core.peerAddr ∧ (f x).ext.kids = x.ext.kids ∧
       (f x).core.children = x.core.children

theorem keysX_congr (x y : XSa) (h1 : y.core.myAddr = x.core.myAddr) (h2 : y.core.peerAddr = x.core.peerAddr) (h3 : y.ext.kids = x.ext.kids) :
    keysX y = keysX x := by
  unfold keysX
  rw [h3]
  have : kidKeys y = kidKeys x := by funext c; exact kidKeys_congr _ _ _ h1 h2
  rw [this]

/-- any change of the object of that kind, with the SAD untouched, keeps the invariant -/
theorem SadI.of_safe {base : List Key} {a p : Bytes} {s t : HSt} (h : SadI base a p s) (hs : t.sad = s.sad)
    (h1 : t.me.core.myAddr = s.me.core.myAddr) (h2 : t.me.core.peerAddr = s.me.core.peerAddr) (h3 : t.me.ext.kids = s.me.ext.kids)
    (h4 : t.me.core.children = s.me.core.children) : SadI base a p t := by
  obtain ⟨a1, a2, a3, a4, a5⟩ := h
  have hk := keysX_congr s.me t.me h1 h2 h3
  exact ⟨by rw [h1]; exact a1, by rw [h2]; exact a2, by intro e; rw [hs, hk]; exact a3 e, by rw [hk]; exact a4, by rw [h4, h3]; exact a5⟩

macro "keeps_s" : tactic => `(tactic| repeat' (first
  | exact Keeps.pure _
  | exact Keeps.raise _
  | exact Keeps.read _
  | exact Keeps.liftE _
  | exact KeepsOpt.none
  | apply KeepsOpt.some
  | (simp only [keepsSad]; done)
  | (apply Keeps.bind_liftE; intro _ _)
  | apply Keeps.bind
  | apply Keeps.tryCatch
  | intro _
  | split
  | (simp only [modCore, modExt, modMe, setState, emitNl, markBad]; apply Keeps.modify; intro s h;
     exact h.of_safe rfl rfl rfl rfl rfl)
  | (apply Keeps.modify; intro s h; exact h.of_safe rfl rfl rfl rfl rfl)
  | dsimp only))

section sad
variable (base : List Key) (a p : Bytes)

attribute [keepsSad] trackChild_sad untrackChild_sad

@[keepsSad] theorem popVal_s : Keeps (SadI base a p) popVal := by
  constructor; intro s h; unfold popVal; split <;> exact h.of_safe rfl rfl rfl rfl rfl
@[keepsSad] theorem markBad_s : Keeps (SadI base a p) markBad := by unfold markBad; keeps_s
@[keepsSad] theorem popBytes_s : Keeps (SadI base a p) popBytes := by unfold popBytes; keeps_s
@[keepsSad] theorem popBytesOrFail_s : Keeps (SadI base a p) popBytesOrFail := by unfold popBytesOrFail; keeps_s
@[keepsSad] theorem popOk_s : Keeps (SadI base a p) popOk := by unfold popOk; keeps_s
@[keepsSad] theorem popNum_s : Keeps (SadI base a p) popNum := by unfold popNum; keeps_s
@[keepsSad] theorem popAuthGen_s : Keeps (SadI base a p) popAuthGen := by unfold popAuthGen; keeps_s
@[keepsSad] theorem popAuthVerify_s : Keeps (SadI base a p) popAuthVerify := by unfold popAuthVerify; keeps_s
@[keepsSad] theorem getMe_s : Keeps (SadI base a p) getMe := by unfold getMe; keeps_s
@[keepsSad] theorem getPayload_s (m pt e) : Keeps (SadI base a p) (getPayload m pt e) := Keeps.liftE _
@[keepsSad] theorem setState_s (st) : Keeps (SadI base a p) (setState st) := by keeps_s
@[keepsSad] theorem abortOnErrorNotifies_s (m e i) : Keeps (SadI base a p) (abortOnErrorNotifies m e i) := by
  unfold abortOnErrorNotifies; keeps_s
@[keepsSad] theorem checkInStates_s (l) : Keeps (SadI base a p) (checkInStates l) := by unfold checkInStates; keeps_s
@[keepsSad] theorem assertState_s (l) : Keeps (SadI base a p) (assertState l) := by unfold assertState; keeps_s
@[keepsSad] theorem getSlot_s (sl) : Keeps (SadI base a p) (getSlot sl) := by
  cases sl
  · simp only [getSlot]; keeps_s
  · constructor; intro s h; simp only [getSlot]; split <;> exact h
  · constructor; intro s h; simp only [getSlot]; split <;> exact h

theorem modSlot_s (sl) (f : XSa → XSa) (hf : SadSafe f) : Keeps (SadI base a p) (modSlot sl f) := by
  unfold modSlot; apply Keeps.modify; intro s h
  cases sl
  · have := hf s.me
    exact h.of_safe rfl this.1 this.2.1 this.2.2.1 this.2.2.2
  · exact h.of_safe rfl rfl rfl rfl rfl
  · exact h.of_safe rfl rfl rfl rfl rfl

@[keepsSad] theorem newXSa_s (cf now i q x y) : Keeps (SadI base a p) (newXSa cf now i q x y) := by unfold newXSa; keeps_s

macro "keeps_s2" : tactic => `(tactic| repeat' (first
  | exact Keeps.pure _
  | exact Keeps.raise _
  | exact Keeps.read _
  | exact Keeps.liftE _
  | exact KeepsOpt.none
  | apply KeepsOpt.some
  | (simp only [keepsSad]; done)
  | (apply modSlot_s; intro x; simp; done)
  | (apply Keeps.bind_liftE; intro _ _)
  | apply Keeps.bind
  | apply Keeps.tryCatch
  | intro _
  | split
  | (simp only [modCore, modExt, modMe, setState, emitNl, markBad]; apply Keeps.modify; intro s h;
     exact h.of_safe rfl rfl rfl rfl rfl)
  | (apply Keeps.modify; intro s h; exact h.of_safe rfl rfl rfl rfl rfl)
  | dsimp only))

@[keepsSad] theorem cookieGate_s (x m) : Keeps (SadI base a p) (cookieGate x m) := by unfold cookieGate; keeps_s2
@[keepsSad] theorem negotiateIkeRequest_s (sl m e) : Keeps (SadI base a p) (negotiateIkeRequest sl m e) := by
  unfold negotiateIkeRequest; keeps_s2
@[keepsSad] theorem processIkeSaInitRequest_s (m) : Keeps (SadI base a p) (processIkeSaInitRequest m) := by
  unfold processIkeSaInitRequest; keeps_s2
@[keepsSad] theorem generateIkeNegotiation_s (sl) : Keeps (SadI base a p) (generateIkeNegotiation sl) := by
  unfold generateIkeNegotiation; keeps_s2
@[keepsSad] theorem generateChildNegotiation_s (k) : Keeps (SadI base a p) (generateChildNegotiation k) := by
  unfold generateChildNegotiation; keeps_s2
@[keepsSad] theorem generateIkeSaInitRequest_s (k) : Keeps (SadI base a p) (generateIkeSaInitRequest k) := by
  unfold generateIkeSaInitRequest; keeps_s2
@[keepsSad] theorem generateCreateChildSaRequest_s (k r) : Keeps (SadI base a p) (generateCreateChildSaRequest k r) := by
  unfold generateCreateChildSaRequest; keeps_s2
@[keepsSad] theorem generateDeleteChildSaRequest_s (k) : Keeps (SadI base a p) (generateDeleteChildSaRequest k) := by
  unfold generateDeleteChildSaRequest; keeps_s2
@[keepsSad] theorem generateDpdRequest_s : Keeps (SadI base a p) generateDpdRequest := by
  unfold generateDpdRequest; keeps_s2
@[keepsSad] theorem generateDeleteIkeSaRequest_s : Keeps (SadI base a p) generateDeleteIkeSaRequest := by
  unfold generateDeleteIkeSaRequest; keeps_s2
@[keepsSad] theorem generateRekeyIkeSaRequest_s (now) : Keeps (SadI base a p) (generateRekeyIkeSaRequest now) := by
  unfold generateRekeyIkeSaRequest; keeps_s2
@[keepsSad] theorem genAcquireH_s (x y i) : Keeps (SadI base a p) (genAcquireH x y i) := by
  unfold genAcquireH; keeps_s2
@[keepsSad] theorem genExpireH_s (k h) : Keeps (SadI base a p) (genExpireH k h) := by
  unfold genExpireH; keeps_s2
@[keepsSad] theorem childRekeyPrelude_s (m sa x y) : Keeps (SadI base a p) (childRekeyPrelude m sa x y) := by
  unfold childRekeyPrelude; keeps_s2
@[keepsSad] theorem childNonce_s (m) : Keeps (SadI base a p) (childNonce m) := by unfold childNonce; keeps_s2
@[keepsSad] theorem childKe_s (m q) : Keeps (SadI base a p) (childKe m q) := by unfold childKe; keeps_s2
@[keepsSad] theorem childCreateResponder_s (q x y m pol) : Keeps (SadI base a p) (childCreateResponder q x y m pol) := by
  unfold childCreateResponder; keeps_s2
@[keepsSad] theorem childNegotiationReqBody_s (m) : Keeps (SadI base a p) (childNegotiationReqBody m) := by
  unfold childNegotiationReqBody; keeps_s2
@[keepsSad] theorem childNegotiationReq_s (m) : Keeps (SadI base a p) (childNegotiationReq m) := by
  unfold childNegotiationReq; keeps_s2
@[keepsSad] theorem processIkeAuthRequest_s (m) : Keeps (SadI base a p) (processIkeAuthRequest m) := by
  unfold processIkeAuthRequest; keeps_s2
@[keepsSad] theorem deleteSpis_s (proto) (l acc) : Keeps (SadI base a p) (deleteSpis proto l acc) := by
  induction l generalizing acc with
  | nil => unfold deleteSpis; keeps_s2
  | cons spi rest ih =>
    unfold deleteSpis
    keeps_s2
    all_goals exact ih _
@[keepsSad] theorem deleteLoop_s (l acc) : Keeps (SadI base a p) (deleteLoop l acc) := by
  induction l generalizing acc with
  | nil => unfold deleteLoop; keeps_s2
  | cons q rest ih =>
    unfold deleteLoop
    keeps_s2
    all_goals exact ih _
@[keepsSad] theorem processInformationalRequest_s (m) : Keeps (SadI base a p) (processInformationalRequest m) := by
  unfold processInformationalRequest; keeps_s2
@[keepsSad] theorem handleInvalidKe_s (d) : Keeps (SadI base a p) (handleInvalidKe d) := by
  unfold handleInvalidKe; keeps_s2
@[keepsSad] theorem negotiateIkeResponse_s (sl m e r) : Keeps (SadI base a p) (negotiateIkeResponse sl m e r) := by
  unfold negotiateIkeResponse; keeps_s2
@[keepsSad] theorem generateIkeAuthRequest_s : Keeps (SadI base a p) generateIkeAuthRequest := by
  unfold generateIkeAuthRequest; keeps_s2
@[keepsSad] theorem processIkeSaInitResponse_s (m) : Keeps (SadI base a p) (processIkeSaInitResponse m) := by
  unfold processIkeSaInitResponse; keeps_s2
@[keepsSad] theorem childNegotiationResBody_s (m) : Keeps (SadI base a p) (childNegotiationResBody m) := by
  unfold childNegotiationResBody; keeps_s2
@[keepsSad] theorem childNegotiationRes_s (m) : Keeps (SadI base a p) (childNegotiationRes m) := by
  unfold childNegotiationRes; keeps_s2
@[keepsSad] theorem processIkeAuthResponse_s (m) : Keeps (SadI base a p) (processIkeAuthResponse m) := by
  unfold processIkeAuthResponse; keeps_s2
@[keepsSad] theorem childSaResponse_s (prev m) : Keeps (SadI base a p) (childSaResponse prev m) := by
  unfold childSaResponse; keeps_s2
@[keepsSad] theorem processInformationalResponse_s (m) : Keeps (SadI base a p) (processInformationalResponse m) := by
  unfold processInformationalResponse; keeps_s2

end sad

/-! ### the SAD the model keeps is what the emitted requests make of the SAD the call started with -/

def OpsI (sad0 : List Key) (s : HSt) : Prop := s.sad = s.nl.foldl applyNl sad0

theorem trackChild_ops (sad0 : List Key) (c : Child) : Keeps (OpsI sad0) (trackChild c) := by
  constructor
  intro s h
  unfold trackChild
  simp only
  split
  · exact h
  split
  · simp only [OpsI, List.foldl_append, List.foldl_cons, List.foldl_nil, applyNl] at h ⊢
    exact h
  · rename_i hno
    simp only [not_or, Bool.not_eq_true] at hno
    have hmem : outKey s.me c ∉ s.sad := by simpa using hno.1
    split
    · simp only [OpsI, List.foldl_append, List.foldl_cons, List.foldl_nil, applyNl, Prod.eta] at h ⊢
      rw [← h]
      simp only [hno.1, Bool.false_eq_true, if_false]
      rw [List.filter_append]
      have : List.filter (fun e => decide (e ≠ outKey s.me c)) s.sad = s.sad := by
        rw [List.filter_eq_self]
        intro x hx
        simp only [ne_eq, decide_not, Bool.not_eq_eq_eq_not, Bool.not_true, decide_eq_false_iff_not]
        rintro rfl
        exact hmem hx
      rw [this]
      simp
    · rename_i hni
      simp only [not_or, Bool.not_eq_true] at hni
      have hmi : inKey s.me c ∉ s.sad := by simpa using hni.1
      simp only [OpsI, List.foldl_append, List.foldl_cons, List.foldl_nil, applyNl, Prod.eta] at h ⊢
      rw [← h]
      simp only [hno.1, Bool.false_eq_true, if_false]
      have : (s.sad ++ [outKey s.me c]).contains (inKey s.me c) = false := by
        simp only [List.contains_eq_mem, List.mem_append, List.mem_singleton, decide_eq_false_iff_not, not_or]
        exact ⟨hmi, hni.2.1⟩
      rw [this]
      simp

theorem untrackChild_ops (sad0 : List Key) (c : Child) : Keeps (OpsI sad0) (untrackChild c) := by
  constructor
  intro s h
  unfold untrackChild
  split
  · simp only [OpsI, List.foldl_append, List.foldl_cons, List.foldl_nil, applyNl, Prod.eta] at h ⊢
    rw [← h, List.filter_filter]
    congr 1
    funext e
    simp [Bool.and_comm]
  · exact h


theorem OpsI.of_same {sad0 : List Key} {s t : HSt} (h : OpsI sad0 s) (h1 : t.sad = s.sad) (h2 : t.nl = s.nl) : OpsI sad0 t := by
  unfold OpsI at *; rw [h1, h2]; exact h

macro "keeps_o" : tactic => `(tactic| repeat' (first
  | exact Keeps.pure _
  | exact Keeps.raise _
  | exact Keeps.read _
  | exact Keeps.liftE _
  | exact KeepsOpt.none
  | apply KeepsOpt.some
  | (simp only [keepsOps]; done)
  | (apply Keeps.bind_liftE; intro _ _)
  | apply Keeps.bind
  | apply Keeps.tryCatch
  | intro _
  | split
  | (simp only [modCore, modExt, modMe, setState, markBad, handOver, modSlot]; apply Keeps.modify; intro s h;
     exact h.of_same rfl rfl)
  | (apply Keeps.modify; intro s h; exact h.of_same rfl rfl)
  | dsimp only))

section ops
variable (sad0 : List Key)

attribute [keepsOps] trackChild_ops untrackChild_ops

@[keepsOps] theorem popVal_o : Keeps (OpsI sad0) popVal := by
  constructor; intro s h; unfold popVal; split <;> exact h.of_same rfl rfl
@[keepsOps] theorem getSlot_o (sl) : Keeps (OpsI sad0) (getSlot sl) := by
  cases sl
  · simp only [getSlot, getMe]; exact Keeps.read _
  · constructor; intro s h; simp only [getSlot]; split <;> exact h
  · constructor; intro s h; simp only [getSlot]; split <;> exact h
@[keepsOps] theorem modSlot_o (sl f) : Keeps (OpsI sad0) (modSlot sl f) := by
  unfold modSlot; apply Keeps.modify; intro s h; cases sl <;> exact h.of_same rfl rfl
@[keepsOps] theorem handOver_o (b) : Keeps (OpsI sad0) (handOver b) := by
  unfold handOver; apply Keeps.modify; intro s h; exact h.of_same rfl rfl
@[keepsOps] theorem getPayload_o (m pt e) : Keeps (OpsI sad0) (getPayload m pt e) := Keeps.liftE _
@[keepsOps] theorem setState_o (st) : Keeps (OpsI sad0) (setState st) := by keeps_o
@[keepsOps] theorem markBad_o : Keeps (OpsI sad0) markBad := by unfold markBad; keeps_o
@[keepsOps] theorem popBytes_o : Keeps (OpsI sad0) popBytes := by unfold popBytes; keeps_o
@[keepsOps] theorem popBytesOrFail_o : Keeps (OpsI sad0) popBytesOrFail := by unfold popBytesOrFail; keeps_o
@[keepsOps] theorem popOk_o : Keeps (OpsI sad0) popOk := by unfold popOk; keeps_o
@[keepsOps] theorem popNum_o : Keeps (OpsI sad0) popNum := by unfold popNum; keeps_o
@[keepsOps] theorem popAuthGen_o : Keeps (OpsI sad0) popAuthGen := by unfold popAuthGen; keeps_o
@[keepsOps] theorem popAuthVerify_o : Keeps (OpsI sad0) popAuthVerify := by unfold popAuthVerify; keeps_o
@[keepsOps] theorem getMe_o : Keeps (OpsI sad0) getMe := by unfold getMe; keeps_o
@[keepsOps] theorem abortOnErrorNotifies_o (m e i) : Keeps (OpsI sad0) (abortOnErrorNotifies m e i) := by unfold abortOnErrorNotifies; keeps_o
@[keepsOps] theorem checkInStates_o (l) : Keeps (OpsI sad0) (checkInStates l) := by unfold checkInStates; keeps_o
@[keepsOps] theorem assertState_o (l) : Keeps (OpsI sad0) (assertState l) := by unfold assertState; keeps_o
@[keepsOps] theorem newXSa_o (cf now i q x y) : Keeps (OpsI sad0) (newXSa cf now i q x y) := by unfold newXSa; keeps_o
@[keepsOps] theorem cookieGate_o (x m) : Keeps (OpsI sad0) (cookieGate x m) := by unfold cookieGate; keeps_o
@[keepsOps] theorem negotiateIkeRequest_o (sl m e) : Keeps (OpsI sad0) (negotiateIkeRequest sl m e) := by unfold negotiateIkeRequest; keeps_o
@[keepsOps] theorem processIkeSaInitRequest_o (m) : Keeps (OpsI sad0) (processIkeSaInitRequest m) := by unfold processIkeSaInitRequest; keeps_o
@[keepsOps] theorem generateIkeNegotiation_o (sl) : Keeps (OpsI sad0) (generateIkeNegotiation sl) := by unfold generateIkeNegotiation; keeps_o
@[keepsOps] theorem generateChildNegotiation_o (k) : Keeps (OpsI sad0) (generateChildNegotiation k) := by unfold generateChildNegotiation; keeps_o
@[keepsOps] theorem generateIkeSaInitRequest_o (k) : Keeps (OpsI sad0) (generateIkeSaInitRequest k) := by unfold generateIkeSaInitRequest; keeps_o
@[keepsOps] theorem generateCreateChildSaRequest_o (k r) : Keeps (OpsI sad0) (generateCreateChildSaRequest k r) := by unfold generateCreateChildSaRequest; keeps_o
@[keepsOps] theorem generateDeleteChildSaRequest_o (k) : Keeps (OpsI sad0) (generateDeleteChildSaRequest k) := by unfold generateDeleteChildSaRequest; keeps_o
@[keepsOps] theorem generateDpdRequest_o : Keeps (OpsI sad0) (generateDpdRequest ) := by unfold generateDpdRequest; keeps_o
@[keepsOps] theorem generateDeleteIkeSaRequest_o : Keeps (OpsI sad0) (generateDeleteIkeSaRequest ) := by unfold generateDeleteIkeSaRequest; keeps_o
@[keepsOps] theorem generateRekeyIkeSaRequest_o (now) : Keeps (OpsI sad0) (generateRekeyIkeSaRequest now) := by unfold generateRekeyIkeSaRequest; keeps_o
@[keepsOps] theorem genAcquireH_o (x y i) : Keeps (OpsI sad0) (genAcquireH x y i) := by unfold genAcquireH; keeps_o
@[keepsOps] theorem genExpireH_o (k h) : Keeps (OpsI sad0) (genExpireH k h) := by unfold genExpireH; keeps_o
@[keepsOps] theorem childRekeyPrelude_o (m sa x y) : Keeps (OpsI sad0) (childRekeyPrelude m sa x y) := by unfold childRekeyPrelude; keeps_o
@[keepsOps] theorem childNonce_o (m) : Keeps (OpsI sad0) (childNonce m) := by unfold childNonce; keeps_o
@[keepsOps] theorem childKe_o (m q) : Keeps (OpsI sad0) (childKe m q) := by unfold childKe; keeps_o
@[keepsOps] theorem childCreateResponder_o (q x y m pol) : Keeps (OpsI sad0) (childCreateResponder q x y m pol) := by unfold childCreateResponder; keeps_o
@[keepsOps] theorem childNegotiationReqBody_o (m) : Keeps (OpsI sad0) (childNegotiationReqBody m) := by unfold childNegotiationReqBody; keeps_o
@[keepsOps] theorem childNegotiationReq_o (m) : Keeps (OpsI sad0) (childNegotiationReq m) := by unfold childNegotiationReq; keeps_o
@[keepsOps] theorem processIkeAuthRequest_o (m) : Keeps (OpsI sad0) (processIkeAuthRequest m) := by unfold processIkeAuthRequest; keeps_o
@[keepsOps] theorem deleteSpis_o (proto) (l acc) : Keeps (OpsI sad0) (deleteSpis proto l acc) := by
  induction l generalizing acc with
  | nil => unfold deleteSpis; keeps_o
  | cons spi rest ih =>
    unfold deleteSpis
    keeps_o
    all_goals exact ih _
@[keepsOps] theorem deleteLoop_o (l acc) : Keeps (OpsI sad0) (deleteLoop l acc) := by
  induction l generalizing acc with
  | nil => unfold deleteLoop; keeps_o
  | cons q rest ih =>
    unfold deleteLoop
    keeps_o
    all_goals exact ih _
@[keepsOps] theorem processInformationalRequest_o (m) : Keeps (OpsI sad0) (processInformationalRequest m) := by unfold processInformationalRequest; keeps_o
@[keepsOps] theorem ikeRekeyRequest_o (now m q) : Keeps (OpsI sad0) (ikeRekeyRequest now m q) := by unfold ikeRekeyRequest; keeps_o
@[keepsOps] theorem processCreateChildSaRequest_o (now m) : Keeps (OpsI sad0) (processCreateChildSaRequest now m) := by unfold processCreateChildSaRequest; keeps_o
@[keepsOps] theorem handleInvalidKe_o (d) : Keeps (OpsI sad0) (handleInvalidKe d) := by unfold handleInvalidKe; keeps_o
@[keepsOps] theorem negotiateIkeResponse_o (sl m e r) : Keeps (OpsI sad0) (negotiateIkeResponse sl m e r) := by unfold negotiateIkeResponse; keeps_o
@[keepsOps] theorem generateIkeAuthRequest_o : Keeps (OpsI sad0) (generateIkeAuthRequest ) := by unfold generateIkeAuthRequest; keeps_o
@[keepsOps] theorem processIkeSaInitResponse_o (m) : Keeps (OpsI sad0) (processIkeSaInitResponse m) := by unfold processIkeSaInitResponse; keeps_o
@[keepsOps] theorem childNegotiationResBody_o (m) : Keeps (OpsI sad0) (childNegotiationResBody m) := by unfold childNegotiationResBody; keeps_o
@[keepsOps] theorem childNegotiationRes_o (m) : Keeps (OpsI sad0) (childNegotiationRes m) := by unfold childNegotiationRes; keeps_o
@[keepsOps] theorem processIkeAuthResponse_o (m) : Keeps (OpsI sad0) (processIkeAuthResponse m) := by unfold processIkeAuthResponse; keeps_o
@[keepsOps] theorem ikeRekeyResponse_o (now m x) : Keeps (OpsI sad0) (ikeRekeyResponse now m x) := by unfold ikeRekeyResponse; keeps_o
@[keepsOps] theorem childSaResponse_o (prev m) : Keeps (OpsI sad0) (childSaResponse prev m) := by unfold childSaResponse; keeps_o
@[keepsOps] theorem processCreateChildSaResponse_o (now m) : Keeps (OpsI sad0) (processCreateChildSaResponse now m) := by unfold processCreateChildSaResponse; keeps_o
@[keepsOps] theorem processInformationalResponse_o (m) : Keeps (OpsI sad0) (processInformationalResponse m) := by unfold processInformationalResponse; keeps_o

theorem requestHandler_o (now m h) (hh : requestHandler now m = some h) : Keeps (OpsI sad0) h := by
  unfold requestHandler at hh
  repeat' split at hh
  all_goals first | (cases hh; simp only [keepsOps]) | (simp at hh)

theorem responseHandler_o (now m h) (hh : responseHandler now m = some h) : Keeps (OpsI sad0) h := by
  unfold responseHandler at hh
  repeat' split at hh
  all_goals first | (cases hh; simp only [keepsOps]) | (simp at hh)

end ops

/-! ### handlers, by exchange -/

/-- a CREATE_CHILD_SA request is about a CHILD_SA (not an IKE_SA rekey) when its first proposal is not for the IKE protocol -/
def notIkeRekey (m : Msg) : Prop := ∀ p0 rest, paySA m true = .ok (p0 :: rest) → p0.proto ≠ 1

theorem processCreateChildSaRequest_s (base : List Key) (a p : Bytes) (now : Nat) (m : Msg) (hn : notIkeRekey m) :
    Keeps (SadI base a p) (processCreateChildSaRequest now m) := by
  unfold processCreateChildSaRequest
  keeps_s2
  all_goals (
    exact absurd ‹Proposal.proto _ = 1› (hn _ _ ‹paySA m true = _›))

theorem requestHandler_s (base : List Key) (a p : Bytes) (now : Nat) (m : Msg) (h : HM HRes) (hh : requestHandler now m = some h)
    (hn : notIkeRekey m) : Keeps (SadI base a p) h := by
  unfold requestHandler at hh
  repeat' split at hh
  all_goals first
    | (cases hh; simp only [keepsSad])
    | (cases hh; exact processCreateChildSaRequest_s base a p now m hn)
    | (simp at hh)

/-- the kernel's SAD after a call, in terms of what the call started from and the requests it emitted; and the invariant -/
theorem runH_contract (base : List Key) (h : HM HRes) (hs : ∀ a p, Keeps (SadI base a p) h) (ho : ∀ sad0, Keeps (OpsI sad0) h)
    (me : XSa) (succ : Option XSa) (tape : Tape) (sad : List Key)
    (hinv : SadI base me.core.myAddr me.core.peerAddr { me := me, succ := succ, tape := tape, sad := sad }) :
    let o := runH h me succ tape sad
    o.sad = o.nl.foldl applyNl sad ∧
    (∀ e, e ∈ o.sad ↔ e ∈ base ∨ e ∈ keysX o.me) ∧ (base ++ keysX o.me).Nodup ∧ o.me.core.children = o.me.ext.kids.map Child.ref := by
  intro o
  have h1 := (hs _ _).keep _ hinv
  have h2 := (ho sad).keep { me := me, succ := succ, tape := tape, sad := sad } (by simp [OpsI])
  have hme : o.me = (h { me := me, succ := succ, tape := tape, sad := sad }).2.me := runH_me h me succ tape sad
  have hsad : o.sad = (h { me := me, succ := succ, tape := tape, sad := sad }).2.sad := by
    show (runH h me succ tape sad).sad = _
    unfold runH; split <;> simp_all
  have hnl : o.nl = (h { me := me, succ := succ, tape := tape, sad := sad }).2.nl := by
    show (runH h me succ tape sad).nl = _
    unfold runH; split <;> simp_all
  rw [hme, hsad, hnl]
  exact ⟨h2, h1.2.2.1, h1.2.2.2.1, h1.2.2.2.2⟩

/-! ### "not in the middle of an IKE_SA rekey of our own": only the rekey timer's generator ever enters that state -/

/-- … and no successor object exists (one is created only by that generator and by the responder side of an IKE_SA rekey) -/
def N13 (s : HSt) : Prop := s.me.core.st ≠ stREK_IKE_SA_REQ_SENT ∧ s.succ = none

macro "keeps_n" : tactic => `(tactic| repeat' (first
  | exact Keeps.pure _
  | exact Keeps.raise _
  | exact Keeps.read _
  | exact Keeps.liftE _
  | exact KeepsOpt.none
  | apply KeepsOpt.some
  | (simp only [keepsN13]; done)
  | (apply Keeps.bind_liftE; intro _ _)
  | apply Keeps.bind
  | apply Keeps.tryCatch
  | intro _
  | split
  | (simp only [modCore, modExt, modMe, setState, markBad, handOver]; apply Keeps.modify; intro s h;
     simp_all [N13, XSa.setKids, stREK_IKE_SA_REQ_SENT, stESTABLISHED, stREKEYED, stDELETED, stINIT_RES_SENT, stINIT_REQ_SENT,
       stAUTH_REQ_SENT, stNEW_CHILD_REQ_SENT, stREK_CHILD_REQ_SENT, stDEL_CHILD_REQ_SENT, stDPD_REQ_SENT, stDEL_IKE_SA_REQ_SENT,
       stDEL_AFTER_REKEY_IKE_SA_REQ_SENT]; done)
  | (apply Keeps.modify; intro s h; simp_all [N13]; done)
  | dsimp only))

section n13

@[keepsN13] theorem popVal_n : Keeps N13 popVal := by
  constructor; intro s h; unfold popVal; split <;> exact h
@[keepsN13] theorem getSlot_n (sl) : Keeps N13 (getSlot sl) := by
  cases sl
  · simp only [getSlot, getMe]; exact Keeps.read _
  · constructor; intro s h; simp only [getSlot]; split <;> exact h
  · constructor; intro s h; simp only [getSlot]; split <;> exact h
theorem modSlot_n (sl) (f : XSa → XSa) (hf : ∀ x, (f x).core.st = x.core.st) : Keeps N13 (modSlot sl f) := by
  unfold modSlot; apply Keeps.modify; intro s h
  cases sl
  · simp only [N13] at h ⊢; rw [hf]; exact h
  · simp only [N13] at h ⊢; simp [h.2]; exact h.1
  · exact h
@[keepsN13] theorem getPayload_n (m pt e) : Keeps N13 (getPayload m pt e) := Keeps.liftE _
theorem trackChild_succ (k : Child) (s : HSt) : (trackChild k s).2.succ = s.succ := by
  unfold trackChild; simp only; split
  · rfl
  · split
    · rfl
    · split <;> rfl
theorem untrackChild_succ (k : Child) (s : HSt) : (untrackChild k s).2.succ = s.succ := by
  unfold untrackChild; split <;> rfl
@[keepsN13] theorem trackChild_n (k) : Keeps N13 (trackChild k) := by
  constructor; intro s h
  refine ⟨?_, by rw [trackChild_succ]; exact h.2⟩
  rcases trackChild_me k s with h1 | h1 <;> (rw [h1]; simpa [XSa.setKids] using h.1)
@[keepsN13] theorem untrackChild_n (k) : Keeps N13 (untrackChild k) := by
  constructor; intro s h
  refine ⟨?_, by rw [untrackChild_succ]; exact h.2⟩
  rcases untrackChild_me k s with h1 | h1 <;> (rw [h1]; simpa [XSa.setKids] using h.1)
@[keepsN13] theorem markBad_n : Keeps N13 markBad := by unfold markBad; keeps_n
@[keepsN13] theorem popBytes_n : Keeps N13 popBytes := by unfold popBytes; keeps_n
@[keepsN13] theorem popBytesOrFail_n : Keeps N13 popBytesOrFail := by unfold popBytesOrFail; keeps_n
@[keepsN13] theorem popOk_n : Keeps N13 popOk := by unfold popOk; keeps_n
@[keepsN13] theorem popNum_n : Keeps N13 popNum := by unfold popNum; keeps_n
@[keepsN13] theorem popAuthGen_n : Keeps N13 popAuthGen := by unfold popAuthGen; keeps_n
@[keepsN13] theorem popAuthVerify_n : Keeps N13 popAuthVerify := by unfold popAuthVerify; keeps_n
@[keepsN13] theorem getMe_n : Keeps N13 getMe := by unfold getMe; keeps_n

macro "keeps_n2" : tactic => `(tactic| repeat' (first
  | exact Keeps.pure _
  | exact Keeps.raise _
  | exact Keeps.read _
  | exact Keeps.liftE _
  | exact KeepsOpt.none
  | apply KeepsOpt.some
  | (simp only [keepsN13]; done)
  | (apply modSlot_n; intro x; simp; done)
  | (apply Keeps.bind_liftE; intro _ _)
  | apply Keeps.bind
  | apply Keeps.tryCatch
  | intro _
  | split
  | (simp only [modCore, modExt, modMe, setState, markBad, handOver]; apply Keeps.modify; intro s h;
     simp_all [N13, XSa.setKids, stREK_IKE_SA_REQ_SENT, stESTABLISHED, stREKEYED, stDELETED, stINIT_RES_SENT, stINIT_REQ_SENT,
       stAUTH_REQ_SENT, stNEW_CHILD_REQ_SENT, stREK_CHILD_REQ_SENT, stDEL_CHILD_REQ_SENT, stDPD_REQ_SENT, stDEL_IKE_SA_REQ_SENT,
       stDEL_AFTER_REKEY_IKE_SA_REQ_SENT]; done)
  | (apply Keeps.modify; intro s h; simp_all [N13]; done)
  | dsimp only))

@[keepsN13] theorem setState_n (st) (h : st ≠ stREK_IKE_SA_REQ_SENT) : Keeps N13 (setState st) := by
  unfold setState modCore; apply Keeps.modify; intro s hs; exact ⟨by simpa using h, hs.2⟩
@[keepsN13] theorem abortOnErrorNotifies_n (m e i) : Keeps N13 (abortOnErrorNotifies m e i) := by unfold abortOnErrorNotifies; keeps_n2
@[keepsN13] theorem checkInStates_n (l) : Keeps N13 (checkInStates l) := by unfold checkInStates; keeps_n2
@[keepsN13] theorem assertState_n (l) : Keeps N13 (assertState l) := by unfold assertState; keeps_n2
@[keepsN13] theorem newXSa_n (cf now i q x y) : Keeps N13 (newXSa cf now i q x y) := by unfold newXSa; keeps_n2
@[keepsN13] theorem cookieGate_n (x m) : Keeps N13 (cookieGate x m) := by unfold cookieGate; keeps_n2
@[keepsN13] theorem negotiateIkeRequest_n (sl m e) : Keeps N13 (negotiateIkeRequest sl m e) := by unfold negotiateIkeRequest; keeps_n2
@[keepsN13] theorem processIkeSaInitRequest_n (m) : Keeps N13 (processIkeSaInitRequest m) := by unfold processIkeSaInitRequest; keeps_n2
@[keepsN13] theorem generateIkeNegotiation_n (sl) : Keeps N13 (generateIkeNegotiation sl) := by unfold generateIkeNegotiation; keeps_n2
@[keepsN13] theorem generateChildNegotiation_n (k) : Keeps N13 (generateChildNegotiation k) := by unfold generateChildNegotiation; keeps_n2
@[keepsN13] theorem generateIkeSaInitRequest_n (k) : Keeps N13 (generateIkeSaInitRequest k) := by unfold generateIkeSaInitRequest; keeps_n2
@[keepsN13] theorem generateCreateChildSaRequest_n (k r) : Keeps N13 (generateCreateChildSaRequest k r) := by unfold generateCreateChildSaRequest; keeps_n2
@[keepsN13] theorem generateDeleteChildSaRequest_n (k) : Keeps N13 (generateDeleteChildSaRequest k) := by unfold generateDeleteChildSaRequest; keeps_n2
@[keepsN13] theorem generateDpdRequest_n : Keeps N13 (generateDpdRequest ) := by unfold generateDpdRequest; keeps_n2
@[keepsN13] theorem generateDeleteIkeSaRequest_n : Keeps N13 generateDeleteIkeSaRequest := by
  unfold generateDeleteIkeSaRequest
  apply Keeps.bind (assertState_n _)
  intro _
  apply Keeps.bind getMe_n
  intro x
  apply Keeps.bind
  · unfold modCore; apply Keeps.modify; intro s hs
    refine ⟨?_, hs.2⟩
    simp only
    split <;> decide
  · intro _; exact Keeps.pure _
@[keepsN13] theorem genAcquireH_n (x y i) : Keeps N13 (genAcquireH x y i) := by unfold genAcquireH; keeps_n2
@[keepsN13] theorem genExpireH_n (k h) : Keeps N13 (genExpireH k h) := by unfold genExpireH; keeps_n2
@[keepsN13] theorem childRekeyPrelude_n (m sa x y) : Keeps N13 (childRekeyPrelude m sa x y) := by unfold childRekeyPrelude; keeps_n2
@[keepsN13] theorem childNonce_n (m) : Keeps N13 (childNonce m) := by unfold childNonce; keeps_n2
@[keepsN13] theorem childKe_n (m q) : Keeps N13 (childKe m q) := by unfold childKe; keeps_n2
@[keepsN13] theorem childCreateResponder_n (q x y m pol) : Keeps N13 (childCreateResponder q x y m pol) := by unfold childCreateResponder; keeps_n2
@[keepsN13] theorem childNegotiationReqBody_n (m) : Keeps N13 (childNegotiationReqBody m) := by unfold childNegotiationReqBody; keeps_n2
@[keepsN13] theorem childNegotiationReq_n (m) : Keeps N13 (childNegotiationReq m) := by unfold childNegotiationReq; keeps_n2
@[keepsN13] theorem processIkeAuthRequest_n (m) : Keeps N13 (processIkeAuthRequest m) := by unfold processIkeAuthRequest; keeps_n2
@[keepsN13] theorem deleteSpis_n (proto) (l acc) : Keeps N13 (deleteSpis proto l acc) := by
  induction l generalizing acc with
  | nil => unfold deleteSpis; keeps_n2
  | cons spi rest ih =>
    unfold deleteSpis
    keeps_n2
    all_goals exact ih _
@[keepsN13] theorem deleteLoop_n (l acc) : Keeps N13 (deleteLoop l acc) := by
  induction l generalizing acc with
  | nil => unfold deleteLoop; keeps_n2
  | cons q rest ih =>
    unfold deleteLoop
    keeps_n2
    all_goals exact ih _
@[keepsN13] theorem processInformationalRequest_n (m) : Keeps N13 (processInformationalRequest m) := by unfold processInformationalRequest; keeps_n2
theorem processCreateChildSaRequest_n (now m) (hn : notIkeRekey m) : Keeps N13 (processCreateChildSaRequest now m) := by
  unfold processCreateChildSaRequest
  keeps_n2
  all_goals (
    exact absurd ‹Proposal.proto _ = 1› (hn _ _ ‹paySA m true = _›))
@[keepsN13] theorem handleInvalidKe_n (d) : Keeps N13 (handleInvalidKe d) := by unfold handleInvalidKe; keeps_n2
@[keepsN13] theorem negotiateIkeResponse_n (sl m e r) : Keeps N13 (negotiateIkeResponse sl m e r) := by unfold negotiateIkeResponse; keeps_n2
@[keepsN13] theorem generateIkeAuthRequest_n : Keeps N13 (generateIkeAuthRequest ) := by unfold generateIkeAuthRequest; keeps_n2
@[keepsN13] theorem processIkeSaInitResponse_n (m) : Keeps N13 (processIkeSaInitResponse m) := by unfold processIkeSaInitResponse; keeps_n2
@[keepsN13] theorem childNegotiationResBody_n (m) : Keeps N13 (childNegotiationResBody m) := by unfold childNegotiationResBody; keeps_n2
@[keepsN13] theorem childNegotiationRes_n (m) : Keeps N13 (childNegotiationRes m) := by unfold childNegotiationRes; keeps_n2
@[keepsN13] theorem processIkeAuthResponse_n (m) : Keeps N13 (processIkeAuthResponse m) := by unfold processIkeAuthResponse; keeps_n2
@[keepsN13] theorem ikeRekeyResponse_n (now m x) : Keeps N13 (ikeRekeyResponse now m x) := by unfold ikeRekeyResponse; keeps_n2
@[keepsN13] theorem childSaResponse_n (prev m) : Keeps N13 (childSaResponse prev m) := by unfold childSaResponse; keeps_n2
@[keepsN13] theorem processCreateChildSaResponse_n (now m) : Keeps N13 (processCreateChildSaResponse now m) := by unfold processCreateChildSaResponse; keeps_n2
@[keepsN13] theorem processInformationalResponse_n (m) : Keeps N13 (processInformationalResponse m) := by unfold processInformationalResponse; keeps_n2

theorem requestHandler_n (now m h) (hh : requestHandler now m = some h) (hn : notIkeRekey m) : Keeps N13 h := by
  unfold requestHandler at hh
  repeat' split at hh
  all_goals first
    | (cases hh; simp only [keepsN13])
    | (cases hh; exact processCreateChildSaRequest_n now m hn)
    | (simp at hh)

end n13

/-! ### the two together: CHILD_SA traffic on an IKE_SA that is not rekeying itself -/

theorem Keeps.and {α} {I J : HSt → Prop} {m : HM α} (h1 : Keeps I m) (h2 : Keeps J m) : Keeps (fun s => I s ∧ J s) m :=
  ⟨fun s h => ⟨h1.keep s h.1, h2.keep s h.2⟩⟩

def SadN (base : List Key) (a p : Bytes) (s : HSt) : Prop := SadI base a p s ∧ N13 s

theorem requestHandler_sn (base : List Key) (a p : Bytes) (now : Nat) (m : Msg) (h : HM HRes) (hh : requestHandler now m = some h)
    (hn : notIkeRekey m) : Keeps (SadN base a p) h :=
  Keeps.and (requestHandler_s base a p now m h hh hn) (requestHandler_n now m h hh hn)

/-- the CREATE_CHILD_SA response handler reads the state to choose its branch; the invariant says which branch it is -/
theorem processCreateChildSaResponse_sn (base : List Key) (a p : Bytes) (now : Nat) (m : Msg) :
    Keeps (SadN base a p) (processCreateChildSaResponse now m) := by
  unfold processCreateChildSaResponse
  apply Keeps.bind (Keeps.and (checkInStates_s base a p _) (checkInStates_n _))
  intro _
  apply Keeps.bind (Keeps.and (abortOnErrorNotifies_s base a p _ _ _) (abortOnErrorNotifies_n _ _ _))
  intro _
  apply Keeps.bind_getMe (fun x => x.core.st ≠ stREK_IKE_SA_REQ_SENT) (fun s h => h.2.1)
  intro x hx
  split
  · rename_i h13; exact absurd h13 hx
  · exact Keeps.and (childSaResponse_s base a p _ m) (childSaResponse_n _ m)

theorem responseHandler_sn (base : List Key) (a p : Bytes) (now : Nat) (m : Msg) (h : HM HRes) (hh : responseHandler now m = some h) :
    Keeps (SadN base a p) h := by
  unfold responseHandler at hh
  repeat' split at hh
  all_goals first
    | (cases hh; exact Keeps.and (processIkeSaInitResponse_s base a p m) (processIkeSaInitResponse_n m))
    | (cases hh; exact Keeps.and (processIkeAuthResponse_s base a p m) (processIkeAuthResponse_n m))
    | (cases hh; exact processCreateChildSaResponse_sn base a p now m)
    | (cases hh; exact Keeps.and (processInformationalResponse_s base a p m) (processInformationalResponse_n m))
    | (simp at hh)

theorem genAcquireH_sn (base : List Key) (a p : Bytes) (x y : TS) (i : Nat) : Keeps (SadN base a p) (genAcquireH x y i) :=
  Keeps.and (genAcquireH_s base a p x y i) (genAcquireH_n x y i)
theorem genExpireH_sn (base : List Key) (a p : Bytes) (c : ChildRef) (hard : Bool) : Keeps (SadN base a p) (genExpireH c hard) :=
  Keeps.and (genExpireH_s base a p c hard) (genExpireH_n c hard)

end PyIkev2.Impl
