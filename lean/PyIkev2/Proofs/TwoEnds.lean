/-
  Two ends of one IKE_SA on the handler model: an exchange is the initiator's generator, the responder's request handler
  on the message the generator produced, and the initiator's response handler on the reply.  The messages of the model
  are the structured ones (what `Message.parse` returns after decryption), so the output of one end is the input of the
  other without any encoding in between; the codec round trip is C05's and the protection C07's.

  What the two ends know about their common CHILD_SAs is compared through `Mirror`: the (inbound SPI, outbound SPI,
  protocol) triples of one end are, as a multiset, the (outbound, inbound, protocol) triples of the other.
-/
import PyIkev2.Proofs.Handlers

namespace PyIkev2.Impl

/-- SPI pair and protocol of a CHILD_SA as its holder sees it -/
def Child.view (c : Child) : Bytes × Bytes × Nat := (c.inSpi, c.outSpi, c.proposal.proto)
/-- … and as the other end must see the same CHILD_SA -/
def Child.peerView (c : Child) : Bytes × Bytes × Nat := (c.outSpi, c.inSpi, c.proposal.proto)

/-- the CHILD_SAs of the two ends are mirror images of each other (as multisets) -/
def Mirror (ka kb : List Child) : Prop := (ka.map Child.view).Perm (kb.map Child.peerView)

/-- the rest of what a CHILD_SA is for the kernel: suite, mode, selectors — as its holder sees it, and as the other end must -/
def Child.rich (c : Child) : List Transform × Nat × List TS × List TS := (c.proposal.transforms, c.mode, c.tsi, c.tsr)
def Child.peerRich (c : Child) : List Transform × Nat × List TS × List TS := (c.proposal.transforms, c.mode, c.tsr, c.tsi)

/-- whenever two records are images of each other as to SPIs and protocol, they are as to suite, mode and selectors -/
def Paired (ka kb : List Child) : Prop := ∀ ca ∈ ka, ∀ cb ∈ kb, ca.view = cb.peerView → ca.rich = cb.peerRich

theorem rich_symm {x y : Child} (h : x.rich = y.peerRich) : y.rich = x.peerRich := by
  simp only [Child.rich, Child.peerRich, Prod.mk.injEq] at h ⊢
  exact ⟨h.1.symm, h.2.1.symm, h.2.2.2.symm, h.2.2.1.symm⟩

theorem Mirror.symm {ka kb : List Child} (h : Mirror ka kb) : Mirror kb ka := by
  unfold Mirror at *
  have h2 := (h.map (fun t : Bytes × Bytes × Nat => (t.2.1, t.1, t.2.2))).symm
  simp only [List.map_map] at h2
  exact h2

theorem propEq_refl (p : Proposal) : propEq p p = true := by
  unfold propEq
  simp

theorem childEq_refl (c : Child) : childEq c c = true := by
  unfold childEq; simp [propEq_refl]

theorem childEq_view {a b : Child} (h : childEq a b = true) : a.view = b.view := by
  unfold childEq at h
  simp only [Bool.decide_and, Bool.decide_eq_true, Bool.and_eq_true, decide_eq_true_eq] at h
  obtain ⟨h1, h2, _, h4, _⟩ := h
  have hp : a.proposal.proto = b.proposal.proto := by
    unfold propEq at h4
    simp only [Bool.decide_and, Bool.decide_eq_true, Bool.and_eq_true, decide_eq_true_eq] at h4
    exact h4.1
  simp [Child.view, h1, h2, hp]

theorem childEq_peerView {a b : Child} (h : childEq a b = true) : a.peerView = b.peerView := by
  have := childEq_view h
  simp only [Child.view, Prod.mk.injEq] at this
  simp [Child.peerView, this.1, this.2.1, this.2.2]

/-- `list.remove(x)` seen through an injective-on-the-list projection: the projected list loses exactly `f x` -/
theorem eq_of_nodup_map {α β : Type} (f : α → β) {a b : α} :
    ∀ (l : List α), (l.map f).Nodup → a ∈ l → b ∈ l → f a = f b → a = b
  | [], _, ha, _, _ => by cases ha
  | e :: l, hnd, ha, hb, hab => by
    rw [List.map_cons, List.nodup_cons] at hnd
    rcases List.mem_cons.mp ha with ha1 | ha1 <;> rcases List.mem_cons.mp hb with hb1 | hb1
    · rw [ha1, hb1]
    · subst ha1; exact absurd (hab ▸ List.mem_map_of_mem hb1) hnd.1
    · subst hb1; exact absurd (hab ▸ List.mem_map_of_mem ha1) hnd.1
    · exact eq_of_nodup_map f l hnd.2 ha1 hb1 hab

theorem map_eraseP_eq_erase {α β : Type} [BEq β] [LawfulBEq β] (f : α → β) (p : α → Bool) (x : α) :
    ∀ (l : List α), (l.map f).Nodup → x ∈ l → (∀ e, p e = true → f e = f x) → p x = true →
      (l.eraseP p).map f = (l.map f).erase (f x)
  | [], _, hx, _, _ => by cases hx
  | e :: l, hnd, hx, hp, hpx => by
    rw [List.map_cons, List.nodup_cons] at hnd
    by_cases hpe : p e = true
    · rw [List.eraseP_cons_of_pos hpe, List.map_cons, hp e hpe, List.erase_cons_head]
    · have hxe : x ≠ e := fun h => hpe (h ▸ hpx)
      have hxl : x ∈ l := by
        rcases List.mem_cons.mp hx with h | h
        · exact absurd h hxe
        · exact h
      have hne : f e ≠ f x := fun h => hnd.1 (h ▸ List.mem_map_of_mem hxl)
      rw [List.eraseP_cons_of_neg hpe, List.map_cons, List.map_cons, List.erase_cons_tail (by simpa using hne),
        map_eraseP_eq_erase f p x l hnd.2 hxl hp hpx]

theorem removeKid_view (ks : List Child) (c : Child) (hnd : (ks.map Child.view).Nodup) (hc : c ∈ ks) :
    (removeKid ks c).map Child.view = (ks.map Child.view).erase c.view :=
  map_eraseP_eq_erase Child.view (childEq c) c ks hnd hc (fun _ he => (childEq_view he).symm) (childEq_refl c)

theorem peerView_nodup_of_view {ks : List Child} (h : (ks.map Child.view).Nodup) : (ks.map Child.peerView).Nodup := by
  have : ks.map Child.peerView = (ks.map Child.view).map (fun t : Bytes × Bytes × Nat => (t.2.1, t.1, t.2.2)) := by
    simp [List.map_map, Function.comp_def, Child.view, Child.peerView]
  rw [this]
  refine List.Pairwise.map _ ?_ h
  intro a b hab hc
  apply hab
  simp only [Prod.mk.injEq] at hc
  ext <;> simp [hc.1, hc.2.1, hc.2.2]

theorem removeKid_peerView (ks : List Child) (c : Child) (hnd : (ks.map Child.peerView).Nodup) (hc : c ∈ ks) :
    (removeKid ks c).map Child.peerView = (ks.map Child.peerView).erase c.peerView :=
  map_eraseP_eq_erase Child.peerView (childEq c) c ks hnd hc (fun _ he => (childEq_peerView he).symm) (childEq_refl c)

/-- removing the two images of one CHILD_SA keeps the ends mirrored -/
theorem Mirror.remove {ka kb : List Child} (h : Mirror ka kb) (hnd : (ka.map Child.view).Nodup) (ca cb : Child)
    (ha : ca ∈ ka) (hb : cb ∈ kb) (hv : ca.view = cb.peerView) : Mirror (removeKid ka ca) (removeKid kb cb) := by
  unfold Mirror at *
  rw [removeKid_view ka ca hnd ha, removeKid_peerView kb cb (h.nodup_iff.mp hnd) hb, hv]
  exact h.erase _

/-- the CHILD_SA the other end finds when it looks up our inbound SPI among its outbound SPIs is the image of ours -/
theorem Mirror.lookup {ka kb : List Child} (h : Mirror ka kb) (hnd : (ka.map Child.inSpi).Nodup) (c : Child) (hc : c ∈ ka) :
    ∃ cb, getKidOut kb c.inSpi = some cb ∧ cb ∈ kb ∧ c.view = cb.peerView := by
  unfold Mirror at h
  have hm : c.view ∈ kb.map Child.peerView := h.mem_iff.mp (List.mem_map_of_mem hc)
  obtain ⟨c0, hc0, hv0⟩ := List.mem_map.mp hm
  have hex : ∃ e ∈ kb, (fun e : Child => decide (c.inSpi = e.outSpi)) e = true := by
    refine ⟨c0, hc0, ?_⟩
    simp only [Child.view, Child.peerView, Prod.mk.injEq] at hv0
    simp [hv0.1]
  cases hf : getKidOut kb c.inSpi with
  | none =>
    unfold getKidOut at hf
    rw [List.find?_eq_none] at hf
    obtain ⟨e, he, hpe⟩ := hex
    exact absurd hpe (hf e he)
  | some cb =>
    have hmem : cb ∈ kb := List.mem_of_find?_eq_some hf
    have hout : c.inSpi = cb.outSpi := by simpa using List.find?_some hf
    -- the image of `cb` at our end has inbound SPI `c.inSpi`, so it is `c`
    have hm2 : cb.peerView ∈ ka.map Child.view := h.mem_iff.mpr (List.mem_map_of_mem hmem)
    obtain ⟨c1, hc1, hv1⟩ := List.mem_map.mp hm2
    have h1 : c1.inSpi = c.inSpi := by
      simp only [Child.view, Child.peerView, Prod.mk.injEq] at hv1
      rw [hv1.1, hout]
    have : c1 = c := eq_of_nodup_map Child.inSpi ka hnd hc1 hc h1
    subst this
    exact ⟨cb, rfl, hmem, hv1⟩

theorem view_nodup_of_inSpi {ks : List Child} (h : (ks.map Child.inSpi).Nodup) : (ks.map Child.view).Nodup := by
  have : ks.map Child.inSpi = (ks.map Child.view).map (·.1) := by simp [List.map_map, Function.comp_def, Child.view]
  rw [this] at h
  exact List.Pairwise.of_map _ (fun a b hab hc => hab (by rw [hc])) h

/-! ### the three steps of a CHILD_SA delete exchange, as functions of the state -/

theorem untrackChild_mem (c : Child) (s : HSt) (hc : c ∈ s.me.ext.kids) :
    untrackChild c s = (.ok (), { s with nl := s.nl ++ [.delSa (outKey s.me c).1 (outKey s.me c).2.1 (outKey s.me c).2.2,
                                                         .delSa (inKey s.me c).1 (inKey s.me c).2.1 (inKey s.me c).2.2],
                                          sad := s.sad.filter fun e => e ≠ outKey s.me c ∧ e ≠ inKey s.me c,
                                          me := s.me.setKids (removeKid s.me.ext.kids c) }) := by
  have : s.me.ext.kids.any (childEq c) = true := List.any_eq_true.mpr ⟨c, hc, childEq_refl c⟩
  unfold untrackChild; rw [if_pos this]

theorem untrackChild_absent (c : Child) (s : HSt) (hc : s.me.ext.kids.any (childEq c) = false) :
    untrackChild c s = (.ok (), s) := by
  unfold untrackChild; rw [if_neg (by simp [hc])]

theorem generateDeleteChildSaRequest_eq (c : Child) (s : HSt) (hst : s.me.core.st = stESTABLISHED) :
    generateDeleteChildSaRequest c s =
      (.ok (mkRequest s.me.core 37 [mkP ptDELETE (.delete c.proposal.proto [c.inSpi])]),
       { s with me := { core := { s.me.core with request := some (mkRequest s.me.core 37 [mkP ptDELETE (.delete c.proposal.proto [c.inSpi])]),
                                                 st := stDEL_CHILD_REQ_SENT },
                        ext := { s.me.ext with deleting := some c } } }) := by
  simp [generateDeleteChildSaRequest, assertState, HM.bind_def, getMe, hst, HM.pure_def, modCore, modExt, HM.modify]

/-- the responder's side of a CHILD_SA delete: in every admitted state, the named CHILD_SA (found by OUR outbound SPI) goes,
    its kernel SAs go, the reply names our inbound SPI of it; the IKE_SA state does not change -/
theorem processInformationalRequest_delete (core : SaCore) (proto : Nat) (spi : Bytes) (s : HSt) (cb : Child)
    (hst : liveStatesAndRekeyed.contains s.me.core.st = true) (hproto : proto = 2 ∨ proto = 3)
    (hk : getKidOut s.me.ext.kids spi = some cb) (hp : cb.proposal.proto = proto) :
    processInformationalRequest (mkRequest core 37 [mkP ptDELETE (.delete proto [spi])]) s =
      (.ok (.reply (mkResponse (untrackChild cb s).2.me.core 37 [mkP ptDELETE (.delete proto [cb.inSpi])])), (untrackChild cb s).2) := by
  have hmem : cb ∈ s.me.ext.kids := List.mem_of_find?_eq_some hk
  have hne1 : proto ≠ 1 := by rcases hproto with h | h <;> omega
  have hst' : s.me.core.st ∈ liveStatesAndRekeyed := by simpa using hst
  rw [untrackChild_mem cb s hmem]
  simp [processInformationalRequest, checkInStates, HM.bind_def, getMe, hst', HM.pure_def, mkRequest, mkP, deleteLoop, deleteSpis,
    hne1, hproto, hk, hp, untrackChild_mem cb s hmem]

/-- the initiator's side: the reply to our CHILD_SA delete (whatever DELETE payloads it carries) makes us remove the CHILD_SA we
    asked to delete — if we still have it — and return to ESTABLISHED -/
theorem processInformationalResponse_delete (core : SaCore) (dels : List (Nat × List Bytes)) (s : HSt) (d : Child)
    (hst : s.me.core.st = stDEL_CHILD_REQ_SENT) (hd : s.me.ext.deleting = some d) :
    processInformationalResponse (mkResponse core 37 (dels.map fun x => mkP ptDELETE (.delete x.1 x.2))) s =
      (.ok .nothing, (setState stESTABLISHED (untrackChild d s).2).2) := by
  have hn : ∀ f, (List.map (fun x : Nat × List Bytes => mkP ptDELETE (.delete x.1 x.2)) dels).any (isNotifyWith f) = false := by
    intro f
    rw [List.any_eq_false]; intro p hp
    obtain ⟨x, _, rfl⟩ := List.mem_map.mp hp
    simp [isNotifyWith, mkP, ptDELETE, ptNOTIFY]
  have hst2 : (untrackChild d s).2.me.core.st = stDEL_CHILD_REQ_SENT ∧ (untrackChild d s).1 = .ok () := by
    unfold untrackChild; split <;> simp [XSa.setKids, hst]
  obtain ⟨h2, h3⟩ := hst2
  cases hu : untrackChild d s with
  | mk r s' =>
    rw [hu] at h2 h3; simp only at h2 h3; subst h3
    have h14 : s.me.core.st = 14 := hst
    simp [processInformationalResponse, checkInStates, HM.bind_def, getMe, HM.pure_def, abortOnErrorNotifies, payloadsOf,
      mkResponse, hn, hd, hu, h14, stDEL_CHILD_REQ_SENT, stDEL_IKE_SA_REQ_SENT, stDPD_REQ_SENT, stDEL_AFTER_REKEY_IKE_SA_REQ_SENT]
    rfl

/-! ### whole exchanges between two ends -/

/-- a CHILD_SA delete exchange: `a` asks, `b` answers, `a` processes the answer -/
def deleteExchange (c : Child) (a b : HSt) : Option (HSt × HSt) :=
  match generateDeleteChildSaRequest c a with
  | (.ok r, a1) =>
    match processInformationalRequest r b with
    | (.ok (.reply resp), b1) =>
      match processInformationalResponse resp a1 with
      | (.ok _, a2) => some (a2, b1)
      | _ => none
    | _ => none
  | _ => none

/-- both ends ask for the deletion of the same CHILD_SA at the same time; the requests cross, then the replies -/
def crossingDeleteExchange (ca cb : Child) (a b : HSt) : Option (HSt × HSt) :=
  match generateDeleteChildSaRequest ca a, generateDeleteChildSaRequest cb b with
  | (.ok ra, a1), (.ok rb, b1) =>
    match processInformationalRequest ra b1, processInformationalRequest rb a1 with
    | (.ok (.reply respB), b2), (.ok (.reply respA), a2) =>
      match processInformationalResponse respB a2, processInformationalResponse respA b2 with
      | (.ok _, a3), (.ok _, b3) => some (a3, b3)
      | _, _ => none
    | _, _ => none
  | _, _ => none

def delPair (x : XSa) (c : Child) : List NlOp :=
  [.delSa (outKey x c).1 (outKey x c).2.1 (outKey x c).2.2, .delSa (inKey x c).1 (inKey x c).2.1 (inKey x c).2.2]

/-- what a delete exchange leaves behind, in terms of the two states before it -/
theorem deleteExchange_eq (c : Child) (a b : HSt)
    (hsa : a.me.core.st = stESTABLISHED) (hsb : liveStatesAndRekeyed.contains b.me.core.st = true)
    (hm : Mirror a.me.ext.kids b.me.ext.kids) (hnd : (a.me.ext.kids.map Child.inSpi).Nodup) (hc : c ∈ a.me.ext.kids)
    (hproto : c.proposal.proto = 2 ∨ c.proposal.proto = 3) :
    ∃ a2 b1 cb, deleteExchange c a b = some (a2, b1) ∧ cb ∈ b.me.ext.kids ∧ c.view = cb.peerView ∧
      a2.me.ext.kids = removeKid a.me.ext.kids c ∧ b1.me.ext.kids = removeKid b.me.ext.kids cb ∧
      a2.me.core.st = stESTABLISHED ∧ b1.me.core.st = b.me.core.st ∧
      a2.nl = a.nl ++ delPair a.me c ∧ b1.nl = b.nl ++ delPair b.me cb := by
  obtain ⟨cb, hk, hcb, hv⟩ := hm.lookup hnd c hc
  have hp : cb.proposal.proto = c.proposal.proto := by
    simp only [Child.view, Child.peerView, Prod.mk.injEq] at hv; exact hv.2.2.symm
  have hgen := generateDeleteChildSaRequest_eq c a hsa
  have hreq := processInformationalRequest_delete a.me.core c.proposal.proto c.inSpi b cb hsb hproto hk hp
  have hc1 : c ∈ (generateDeleteChildSaRequest c a).2.me.ext.kids := by rw [hgen]; exact hc
  have hresp := processInformationalResponse_delete (untrackChild cb b).2.me.core [(c.proposal.proto, [cb.inSpi])]
    (generateDeleteChildSaRequest c a).2 c (by rw [hgen]) (by rw [hgen])
  simp only [List.map_cons, List.map_nil] at hresp
  refine ⟨(setState stESTABLISHED (untrackChild c (generateDeleteChildSaRequest c a).2).2).2, (untrackChild cb b).2, cb, ?_, hcb, hv, ?_⟩
  · unfold deleteExchange
    generalize hg : generateDeleteChildSaRequest c a = g at hresp hc1 ⊢
    obtain ⟨r, a1⟩ := g
    have hr : r = .ok (mkRequest a.me.core 37 [mkP ptDELETE (.delete c.proposal.proto [c.inSpi])]) := by
      rw [hgen] at hg; exact (Prod.mk.inj hg).1.symm
    subst hr
    dsimp only at hresp ⊢
    rw [hreq]; dsimp only
    rw [hresp]
  · rw [untrackChild_mem c _ hc1, untrackChild_mem cb b hcb, hgen]
    simp [setState, modCore, HM.modify, XSa.setKids, delPair, outKey, inKey]

/-- with pairwise different (SPI, SPI, protocol) triples, a removed CHILD_SA is gone: nothing equal to it stays behind -/
theorem removeKid_any (ks : List Child) (c : Child) (hnd : (ks.map Child.view).Nodup) (hc : c ∈ ks) :
    (removeKid ks c).any (childEq c) = false := by
  rw [List.any_eq_false]
  intro e he hce
  have hv : e.view = c.view := (childEq_view (by simpa using hce)).symm
  have : e.view ∈ (removeKid ks c).map Child.view := List.mem_map_of_mem he
  rw [removeKid_view ks c hnd hc, hv] at this
  exact hnd.not_mem_erase this

/-- the same in the responder's terms: the kid found under a peer-chosen value is determined by its image -/
theorem Mirror.lookup_eq {ka kb : List Child} (h : Mirror ka kb) (hnd : (ka.map Child.inSpi).Nodup) (ca cb : Child)
    (ha : ca ∈ ka) (hb : cb ∈ kb) (hv : ca.view = cb.peerView) : getKidOut kb ca.inSpi = some cb := by
  obtain ⟨cb', hk, hcb', hv'⟩ := h.lookup hnd ca ha
  have hndb : (kb.map Child.peerView).Nodup := h.nodup_iff.mp (view_nodup_of_inSpi hnd)
  have : cb' = cb := eq_of_nodup_map Child.peerView kb hndb hcb' hb (hv'.symm.trans hv)
  rw [hk, this]

theorem view_eq_peerView_symm {x y : Child} (h : x.view = y.peerView) : y.view = x.peerView := by
  simp only [Child.view, Child.peerView, Prod.mk.injEq] at h ⊢
  exact ⟨h.2.1.symm, h.1.symm, h.2.2.symm⟩

theorem Paired.symm {ka kb : List Child} (h : Paired ka kb) : Paired kb ka :=
  fun cb hb ca ha hv => rich_symm (h ca ha cb hb (view_eq_peerView_symm hv))

theorem Paired.remove {ka kb : List Child} (h : Paired ka kb) (x y : Child) : Paired (removeKid ka x) (removeKid kb y) :=
  fun ca ha cb hb hv => h ca (List.mem_of_mem_eraseP ha) cb (List.mem_of_mem_eraseP hb) hv

/-- crossing deletes of the same CHILD_SA: each end removes it — and its kernel SAs — exactly once, when the other end's request
    arrives; the replies find nothing left to do; both ends are ESTABLISHED again and mirrored -/
theorem crossingDeleteExchange_eq (ca cb : Child) (a b : HSt)
    (hsa : a.me.core.st = stESTABLISHED) (hsb : b.me.core.st = stESTABLISHED)
    (hm : Mirror a.me.ext.kids b.me.ext.kids) (hnda : (a.me.ext.kids.map Child.inSpi).Nodup)
    (hndb : (b.me.ext.kids.map Child.inSpi).Nodup) (ha : ca ∈ a.me.ext.kids) (hb : cb ∈ b.me.ext.kids) (hv : ca.view = cb.peerView)
    (hproto : ca.proposal.proto = 2 ∨ ca.proposal.proto = 3) :
    ∃ a3 b3, crossingDeleteExchange ca cb a b = some (a3, b3) ∧
      a3.me.ext.kids = removeKid a.me.ext.kids ca ∧ b3.me.ext.kids = removeKid b.me.ext.kids cb ∧
      a3.me.core.st = stESTABLISHED ∧ b3.me.core.st = stESTABLISHED ∧
      a3.nl = a.nl ++ delPair a.me ca ∧ b3.nl = b.nl ++ delPair b.me cb := by
  have hpb : cb.proposal.proto = ca.proposal.proto := by
    simp only [Child.view, Child.peerView, Prod.mk.injEq] at hv; exact hv.2.2.symm
  have hprotob : cb.proposal.proto = 2 ∨ cb.proposal.proto = 3 := by rw [hpb]; exact hproto
  have hga := generateDeleteChildSaRequest_eq ca a hsa
  have hgb := generateDeleteChildSaRequest_eq cb b hsb
  -- the states after the two generators
  generalize hA1 : generateDeleteChildSaRequest ca a = ga at hga
  generalize hB1 : generateDeleteChildSaRequest cb b = gb at hgb
  obtain ⟨ra, a1⟩ := ga
  obtain ⟨rb, b1⟩ := gb
  obtain ⟨hra, ha1⟩ := Prod.mk.inj hga
  obtain ⟨hrb, hb1⟩ := Prod.mk.inj hgb
  have ka1 : a1.me.ext.kids = a.me.ext.kids := by rw [ha1]
  have kb1 : b1.me.ext.kids = b.me.ext.kids := by rw [hb1]
  have sa1 : a1.me.core.st = stDEL_CHILD_REQ_SENT := by rw [ha1]
  have sb1 : b1.me.core.st = stDEL_CHILD_REQ_SENT := by rw [hb1]
  have da1 : a1.me.ext.deleting = some ca := by rw [ha1]
  have db1 : b1.me.ext.deleting = some cb := by rw [hb1]
  -- each end processes the other's request
  have hkb : getKidOut b1.me.ext.kids ca.inSpi = some cb := by rw [kb1]; exact hm.lookup_eq hnda ca cb ha hb hv
  have hka : getKidOut a1.me.ext.kids cb.inSpi = some ca := by
    rw [ka1]; exact hm.symm.lookup_eq hndb cb ca hb ha (view_eq_peerView_symm hv)
  have hreqB := processInformationalRequest_delete a.me.core ca.proposal.proto ca.inSpi b1 cb (by rw [sb1]; decide) hproto hkb hpb
  have hreqA := processInformationalRequest_delete b.me.core cb.proposal.proto cb.inSpi a1 ca (by rw [sa1]; decide) hprotob hka hpb.symm
  have hcb1 : cb ∈ b1.me.ext.kids := by rw [kb1]; exact hb
  have hca1 : ca ∈ a1.me.ext.kids := by rw [ka1]; exact ha
  have hub := untrackChild_mem cb b1 hcb1
  have hua := untrackChild_mem ca a1 hca1
  generalize hB2 : (untrackChild cb b1).2 = b2 at hreqB
  generalize hA2 : (untrackChild ca a1).2 = a2 at hreqA
  rw [hub] at hB2; rw [hua] at hA2; dsimp only at hB2 hA2
  have ka2 : a2.me.ext.kids = removeKid a.me.ext.kids ca := by rw [← hA2]; simp [XSa.setKids, ka1]
  have kb2 : b2.me.ext.kids = removeKid b.me.ext.kids cb := by rw [← hB2]; simp [XSa.setKids, kb1]
  have sa2 : a2.me.core.st = stDEL_CHILD_REQ_SENT := by rw [← hA2]; simp [XSa.setKids, sa1]
  have sb2 : b2.me.core.st = stDEL_CHILD_REQ_SENT := by rw [← hB2]; simp [XSa.setKids, sb1]
  have da2 : a2.me.ext.deleting = some ca := by rw [← hA2]; simp [XSa.setKids, da1]
  have db2 : b2.me.ext.deleting = some cb := by rw [← hB2]; simp [XSa.setKids, db1]
  -- the replies: the CHILD_SA each end asked to delete is no longer there
  have hndva := view_nodup_of_inSpi hnda
  have hndvb := view_nodup_of_inSpi hndb
  have hra3 := processInformationalResponse_delete b2.me.core [(ca.proposal.proto, [cb.inSpi])] a2 ca sa2 da2
  have hrb3 := processInformationalResponse_delete a2.me.core [(cb.proposal.proto, [ca.inSpi])] b2 cb sb2 db2
  rw [untrackChild_absent ca a2 (by rw [ka2]; exact removeKid_any _ _ hndva ha)] at hra3
  rw [untrackChild_absent cb b2 (by rw [kb2]; exact removeKid_any _ _ hndvb hb)] at hrb3
  simp only [List.map_cons, List.map_nil] at hra3 hrb3
  refine ⟨(setState stESTABLISHED a2).2, (setState stESTABLISHED b2).2, ?_, ?_⟩
  · unfold crossingDeleteExchange
    rw [hA1, hB1]; subst hra; subst hrb; dsimp only
    rw [hreqB, hreqA]; dsimp only
    rw [hra3, hrb3]
  · simp only [setState, modCore, HM.modify, ka2, kb2, true_and]
    rw [← hA2, ← hB2, ha1, hb1]
    simp [delPair, outKey, inKey, XSa.setKids]

theorem removeKid_nodup (ks : List Child) (c : Child) (h : (ks.map Child.inSpi).Nodup) : ((removeKid ks c).map Child.inSpi).Nodup :=
  List.Nodup.sublist ((List.eraseP_sublist (l := ks)).map Child.inSpi) h

theorem mem_of_mem_removeKid {ks : List Child} {c e : Child} (h : e ∈ removeKid ks c) : e ∈ ks := List.mem_of_mem_eraseP h

/-! ### any number of delete exchanges, started by either end or by both at once -/

/-- what the two ends agree on between exchanges -/
structure Agree (a b : HSt) : Prop where
  sta : a.me.core.st = stESTABLISHED
  stb : b.me.core.st = stESTABLISHED
  mirror : Mirror a.me.ext.kids b.me.ext.kids
  nda : (a.me.ext.kids.map Child.inSpi).Nodup
  ndb : (b.me.ext.kids.map Child.inSpi).Nodup
  protoa : ∀ c ∈ a.me.ext.kids, c.proposal.proto = 2 ∨ c.proposal.proto = 3
  protob : ∀ c ∈ b.me.ext.kids, c.proposal.proto = 2 ∨ c.proposal.proto = 3
  paired : Paired a.me.ext.kids b.me.ext.kids

inductive DelOp where
  | byA (i : Nat)      -- `a` deletes its i-th CHILD_SA (hard expiry at `a`)
  | byB (i : Nat)
  | both (i : Nat)     -- both ends delete the CHILD_SA that is `a`'s i-th at the same time
  deriving Repr

def delStep (ab : HSt × HSt) : DelOp → Option (HSt × HSt)
  | .byA i => match ab.1.me.ext.kids[i]? with
    | some c => deleteExchange c ab.1 ab.2
    | none => some ab
  | .byB i => match ab.2.me.ext.kids[i]? with
    | some c => (deleteExchange c ab.2 ab.1).map fun x => (x.2, x.1)
    | none => some ab
  | .both i => match ab.1.me.ext.kids[i]? with
    | some ca => match getKidOut ab.2.me.ext.kids ca.inSpi with
      | some cb => crossingDeleteExchange ca cb ab.1 ab.2
      | none => none
    | none => some ab

def delRun (ab : HSt × HSt) : List DelOp → Option (HSt × HSt)
  | [] => some ab
  | op :: rest => match delStep ab op with
    | some ab' => delRun ab' rest
    | none => none

theorem Agree.symm {a b : HSt} (h : Agree a b) : Agree b a :=
  ⟨h.stb, h.sta, h.mirror.symm, h.ndb, h.nda, h.protob, h.protoa, h.paired.symm⟩

theorem Agree.deleteExchange {a b : HSt} (h : Agree a b) (c : Child) (hc : c ∈ a.me.ext.kids) :
    ∃ a2 b1, deleteExchange c a b = some (a2, b1) ∧ Agree a2 b1 := by
  obtain ⟨a2, b1, cb, he, hcb, hv, ka, kb, sa, sb, _, _⟩ :=
    deleteExchange_eq c a b h.sta (by rw [h.stb]; decide) h.mirror h.nda hc (h.protoa c hc)
  refine ⟨a2, b1, he, sa, sb.trans h.stb, ?_, ?_, ?_, ?_, ?_, ?_⟩
  · rw [ka, kb]; exact h.mirror.remove (view_nodup_of_inSpi h.nda) c cb hc hcb hv
  · rw [ka]; exact removeKid_nodup _ _ h.nda
  · rw [kb]; exact removeKid_nodup _ _ h.ndb
  · intro e he; rw [ka] at he; exact h.protoa e (mem_of_mem_removeKid he)
  · intro e he; rw [kb] at he; exact h.protob e (mem_of_mem_removeKid he)
  · rw [ka, kb]; exact h.paired.remove _ _

theorem Agree.delStep {a b : HSt} (h : Agree a b) (op : DelOp) : ∃ a' b', delStep (a, b) op = some (a', b') ∧ Agree a' b' := by
  cases op with
  | byA i =>
    unfold PyIkev2.Impl.delStep; dsimp only
    cases hi : a.me.ext.kids[i]? with
    | none => exact ⟨a, b, rfl, h⟩
    | some c => exact h.deleteExchange c (List.mem_of_getElem? hi)
  | byB i =>
    unfold PyIkev2.Impl.delStep; dsimp only
    cases hi : b.me.ext.kids[i]? with
    | none => exact ⟨a, b, rfl, h⟩
    | some c =>
      obtain ⟨b2, a1, he, hag⟩ := h.symm.deleteExchange c (List.mem_of_getElem? hi)
      exact ⟨a1, b2, by simp [he], hag.symm⟩
  | both i =>
    unfold PyIkev2.Impl.delStep; dsimp only
    cases hi : a.me.ext.kids[i]? with
    | none => exact ⟨a, b, rfl, h⟩
    | some ca =>
      have hca := List.mem_of_getElem? hi
      obtain ⟨cb, hk, hcb, hv⟩ := h.mirror.lookup h.nda ca hca
      obtain ⟨a3, b3, he, ka, kb, sa, sb, _, _⟩ :=
        crossingDeleteExchange_eq ca cb a b h.sta h.stb h.mirror h.nda h.ndb hca hcb hv (h.protoa ca hca)
      refine ⟨a3, b3, by simp only [hk]; exact he, sa, sb, ?_, ?_, ?_, ?_, ?_, ?_⟩
      · rw [ka, kb]; exact h.mirror.remove (view_nodup_of_inSpi h.nda) ca cb hca hcb hv
      · rw [ka]; exact removeKid_nodup _ _ h.nda
      · rw [kb]; exact removeKid_nodup _ _ h.ndb
      · intro e he; rw [ka] at he; exact h.protoa e (mem_of_mem_removeKid he)
      · intro e he; rw [kb] at he; exact h.protob e (mem_of_mem_removeKid he)
      · rw [ka, kb]; exact h.paired.remove _ _

theorem Agree.delRun {a b : HSt} (h : Agree a b) (ops : List DelOp) : ∃ a' b', delRun (a, b) ops = some (a', b') ∧ Agree a' b' := by
  induction ops generalizing a b with
  | nil => exact ⟨a, b, rfl, h⟩
  | cons op rest ih =>
    obtain ⟨a1, b1, he, h1⟩ := h.delStep op
    obtain ⟨a2, b2, he2, h2⟩ := ih h1
    exact ⟨a2, b2, by simp only [PyIkev2.Impl.delRun, he]; exact he2, h2⟩

end PyIkev2.Impl
