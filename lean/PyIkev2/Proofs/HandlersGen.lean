/-
  The frame of everything that only *generates* a request (the ACQUIRE / EXPIRE / DPD / lifetime generators, the IKE_SA_INIT
  request handler, the constructor): none of them touches the CHILD_SA records, the shell's view of them, the kernel or the
  model's picture of the kernel.  `Keeps (GenI …) f` with all four as constants.
-/
import PyIkev2.Proofs.HandlersKernel

namespace PyIkev2.Impl
open PyIkev2

def GenI (k0 : List Child) (c0 : List ChildRef) (n0 : List NlOp) (d0 : List Key) (s : HSt) : Prop :=
  s.me.ext.kids = k0 ∧ s.me.core.children = c0 ∧ s.nl = n0 ∧ s.sad = d0

macro "keeps_g" : tactic => `(tactic| repeat' (first
  | exact Keeps.pure _
  | exact Keeps.raise _
  | exact Keeps.read _
  | exact Keeps.liftE _
  | (apply Keeps.bind_liftE; intro _ _)
  | (simp only [keepsGen]; done)
  | apply Keeps.bind
  | intro _
  | split
  | (simp only [modCore, modExt, modMe, setState, markBad]; apply Keeps.modify; intro s h;
     simp_all [GenI]; done)
  | (apply Keeps.modify; intro s h; simp_all [GenI]; done)))

section gen
variable (k0 : List Child) (c0 : List ChildRef) (n0 : List NlOp) (d0 : List Key)

@[keepsGen] theorem getSlot_g (sl) : Keeps (GenI k0 c0 n0 d0) (getSlot sl) := by
  cases sl
  · simp only [getSlot]; keeps_g
  · constructor; intro s h; simp only [getSlot]; split <;> exact h
  · constructor; intro s h; simp only [getSlot]; split <;> exact h
@[keepsGen] theorem modSlot_g (sl) (f : XSa → XSa) (hf : ∀ x, (f x).ext.kids = x.ext.kids ∧ (f x).core.children = x.core.children) :
    Keeps (GenI k0 c0 n0 d0) (modSlot sl f) := by
  unfold modSlot; apply Keeps.modify; intro s h
  cases sl
  · have := hf s.me; simp_all [GenI]
  · exact h
  · exact h

macro "keeps_g2" : tactic => `(tactic| repeat' (first
  | exact Keeps.pure _
  | exact Keeps.raise _
  | exact Keeps.read _
  | exact Keeps.liftE _
  | (apply Keeps.bind_liftE; intro _ _)
  | exact KeepsOpt.none
  | apply KeepsOpt.some
  | (simp only [keepsGen]; done)
  | (apply modSlot_g; intro x; simp; done)
  | apply Keeps.bind
  | apply Keeps.tryCatch
  | intro _
  | split
  | (simp only [modCore, modExt, modMe, setState, markBad]; apply Keeps.modify; intro s h;
     simp_all [GenI]; done)
  | (apply Keeps.modify; intro s h; simp_all [GenI]; done)
  | dsimp only))

@[keepsGen] theorem popVal_g : Keeps (GenI k0 c0 n0 d0) popVal := by
  constructor; intro s h; unfold popVal; split <;> exact h
@[keepsGen] theorem markBad_g : Keeps (GenI k0 c0 n0 d0) markBad := by unfold markBad; keeps_g
@[keepsGen] theorem popBytes_g : Keeps (GenI k0 c0 n0 d0) popBytes := by unfold popBytes; keeps_g
@[keepsGen] theorem popBytesOrFail_g : Keeps (GenI k0 c0 n0 d0) popBytesOrFail := by unfold popBytesOrFail; keeps_g
@[keepsGen] theorem popOk_g : Keeps (GenI k0 c0 n0 d0) popOk := by unfold popOk; keeps_g
@[keepsGen] theorem popNum_g : Keeps (GenI k0 c0 n0 d0) popNum := by unfold popNum; keeps_g
@[keepsGen] theorem popAuthGen_g : Keeps (GenI k0 c0 n0 d0) popAuthGen := by unfold popAuthGen; keeps_g
@[keepsGen] theorem getPayload_g (m pt e) : Keeps (GenI k0 c0 n0 d0) (getPayload m pt e) := Keeps.liftE _
@[keepsGen] theorem getMe_g : Keeps (GenI k0 c0 n0 d0) getMe := by unfold getMe; keeps_g
@[keepsGen] theorem setState_g (st) : Keeps (GenI k0 c0 n0 d0) (setState st) := by keeps_g
@[keepsGen] theorem checkInStates_g (l) : Keeps (GenI k0 c0 n0 d0) (checkInStates l) := by unfold checkInStates; keeps_g
@[keepsGen] theorem assertState_g (l) : Keeps (GenI k0 c0 n0 d0) (assertState l) := by unfold assertState; keeps_g
@[keepsGen] theorem cookieGate_g (x m) : Keeps (GenI k0 c0 n0 d0) (cookieGate x m) := by
  unfold cookieGate; keeps_g2
@[keepsGen] theorem negotiateIkeRequest_g (sl m e) : Keeps (GenI k0 c0 n0 d0) (negotiateIkeRequest sl m e) := by
  unfold negotiateIkeRequest; keeps_g2
@[keepsGen] theorem processIkeSaInitRequest_g (m) : Keeps (GenI k0 c0 n0 d0) (processIkeSaInitRequest m) := by
  unfold processIkeSaInitRequest; keeps_g2
@[keepsGen] theorem generateIkeNegotiation_g (sl) : Keeps (GenI k0 c0 n0 d0) (generateIkeNegotiation sl) := by
  unfold generateIkeNegotiation; keeps_g2
@[keepsGen] theorem generateChildNegotiation_g (k) : Keeps (GenI k0 c0 n0 d0) (generateChildNegotiation k) := by
  unfold generateChildNegotiation; keeps_g2
@[keepsGen] theorem generateIkeSaInitRequest_g (k) : Keeps (GenI k0 c0 n0 d0) (generateIkeSaInitRequest k) := by
  unfold generateIkeSaInitRequest; keeps_g2
@[keepsGen] theorem generateCreateChildSaRequest_g (k r) : Keeps (GenI k0 c0 n0 d0) (generateCreateChildSaRequest k r) := by
  unfold generateCreateChildSaRequest; keeps_g2
@[keepsGen] theorem generateDeleteChildSaRequest_g (k) : Keeps (GenI k0 c0 n0 d0) (generateDeleteChildSaRequest k) := by
  unfold generateDeleteChildSaRequest; keeps_g2
@[keepsGen] theorem generateDpdRequest_g : Keeps (GenI k0 c0 n0 d0) generateDpdRequest := by
  unfold generateDpdRequest; keeps_g2
@[keepsGen] theorem generateDeleteIkeSaRequest_g : Keeps (GenI k0 c0 n0 d0) generateDeleteIkeSaRequest := by
  unfold generateDeleteIkeSaRequest; keeps_g2
@[keepsGen] theorem generateRekeyIkeSaRequest_g (now) : Keeps (GenI k0 c0 n0 d0) (generateRekeyIkeSaRequest now) := by
  unfold generateRekeyIkeSaRequest; keeps_g2
@[keepsGen] theorem genAcquireH_g (a b i) : Keeps (GenI k0 c0 n0 d0) (genAcquireH a b i) := by
  unfold genAcquireH; keeps_g2
@[keepsGen] theorem genExpireH_g (k h) : Keeps (GenI k0 c0 n0 d0) (genExpireH k h) := by
  unfold genExpireH; keeps_g2
@[keepsGen] theorem newXSa_g (cf now i p a b) : Keeps (GenI k0 c0 n0 d0) (newXSa cf now i p a b) := by unfold newXSa; keeps_g

end gen
end PyIkev2.Impl
