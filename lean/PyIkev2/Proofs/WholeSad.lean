/-
  The kernel SAD of the WHOLE model (shell + concrete handlers) equals what the IKE_SA table tracks — the instance of the
  shell-lifting contract (Proofs/ShellLift.lean) for `concreteHandlers`.
-/
import PyIkev2.Proofs.ShellLift
import PyIkev2.Proofs.HandlersGen
import PyIkev2.Proofs.HandlersAuth

namespace PyIkev2.Impl
open PyIkev2

/-! ### what a table stands for in the kernel -/

/-- the SAD entries the shell's view of one IKE_SA stands for: outbound towards the peer, inbound towards us -/
def keysOfCore (s : SaCore) : List Key :=
  s.children.flatMap fun c => [(s.peerAddr, ipsecProto c.proto, c.outSpi), (s.myAddr, ipsecProto c.proto, c.inSpi)]

def tableKeys (c : List Sa) : List Key := c.flatMap fun s => keysOfCore s.core

theorem keysX_eq_core (x : XSa) (h : x.core.children = x.ext.kids.map Child.ref) : keysX x = keysOfCore x.core := by
  unfold keysX keysOfCore
  rw [h, List.flatMap_map]
  rfl

/-- the object behind a table entry is in the store and the shell's view of its CHILD_SAs is the projection of the records -/
def Obj (w : XWorld) (s : Sa) : Prop := ∃ e, w.extOf s.core.mySpi = some e ∧ s.core.children = e.kids.map Child.ref

structure TW (c : List Sa) (w : XWorld) (K : List Key) : Prop where
  spis : (c.map (·.core.mySpi)).Nodup
  objs : ∀ s ∈ c, Obj w s
  sad : ∀ k, k ∈ K ↔ k ∈ tableKeys c
  nodup : (tableKeys c).Nodup

theorem TW.perm {c1 c2 : List Sa} {w : XWorld} {K : List Key} (p : c1.Perm c2) (h : TW c1 w K) : TW c2 w K where
  spis := (p.map _).nodup h.spis
  objs := fun s hs => h.objs s (p.mem_iff.mpr hs)
  sad := fun k => (h.sad k).trans (p.flatMap_right _).mem_iff
  nodup := (p.flatMap_right _).nodup h.nodup

theorem set_perm_cons {α} (c : List α) (i : Nat) (s : α) (hi : i < c.length) : (c.set i s).Perm (s :: c.eraseIdx i) := by
  rw [List.set_eq_take_append_cons_drop, if_pos hi, List.eraseIdx_eq_take_drop_succ]
  exact List.perm_middle

theorem tableKeys_cons (s : Sa) (rest : List Sa) : tableKeys (s :: rest) = keysOfCore s.core ++ tableKeys rest := by
  simp [tableKeys]

/-- deleting every pair an IKE_SA tracks removes exactly its entries -/
theorem applyNls_del (K : List Key) (ks : List Key) :
    applyNls K (ks.map fun k => NlOp.delSa k.1 k.2.1 k.2.2) = K.filter (fun e => ¬ ks.contains e) := by
  induction ks generalizing K with
  | nil =>
    simp only [applyNls, List.map_nil, List.foldl_nil]
    induction K with
    | nil => rfl
    | cons a r ih =>
      simp only [List.contains_nil, Bool.false_eq_true, not_false_eq_true, decide_true, List.filter_cons_of_pos] at ih ⊢
      rw [← ih]
  | cons k rest ih =>
    simp only [applyNls, List.map_cons, List.foldl_cons] at ih ⊢
    rw [show applyNl K (NlOp.delSa k.1 k.2.1 k.2.2) = K.filter (fun e => e ≠ k) from rfl, ih, List.filter_filter]
    congr 1
    funext e
    by_cases h : e = k <;> simp [h]

theorem deleteChildSas_ops (s : SaCore) :
    (deleteChildSas s).2 = (keysOfCore s).map (fun k => NlOp.delSa k.1 k.2.1 k.2.2) := by
  simp only [deleteChildSas, keysOfCore, delChildOps]
  induction s.children with
  | nil => rfl
  | cons c rest ih => simp [List.flatMap_cons, ih, delChildOps]

/-! ### the store -/

theorem XWorld.extOf_key (w : XWorld) (spi : Bytes) (e : Ext) (h : w.extOf spi = some e) : w.exts.any (fun x => x.1 = spi) = true := by
  unfold XWorld.extOf at h
  cases hf : w.exts.find? (fun e => e.1 = spi) with
  | none => rw [hf] at h; cases h
  | some x =>
    have h1 := List.mem_of_find?_eq_some hf
    have h2 := List.find?_some hf
    simp only [List.any_eq_true]
    exact ⟨x, h1, h2⟩

theorem find_map_other (l : List (Bytes × Ext)) (spi spi' : Bytes) (e : Ext) (hne : spi' ≠ spi) :
    (l.map fun x => if x.1 = spi then (spi, e) else x).find? (fun x => x.1 = spi') = l.find? (fun x => x.1 = spi') := by
  induction l with
  | nil => rfl
  | cons y rest ih =>
    rw [List.map_cons, List.find?_cons, List.find?_cons, ih]
    by_cases hy : y.1 = spi
    · have h1 : ¬ (y.1 = spi') := by rw [hy]; exact fun h => hne h.symm
      have h2 : ¬ (spi = spi') := fun h => hne h.symm
      simp [hy, h1, h2]
    · simp [hy]

theorem XWorld.extOf_put_other (w : XWorld) (spi spi' : Bytes) (e : Ext) (hne : spi' ≠ spi) :
    (w.put spi e).extOf spi' = w.extOf spi' := by
  unfold XWorld.put XWorld.extOf
  split
  · simp only [find_map_other w.exts spi spi' e hne]
  · rw [List.find?_append]
    cases hf : List.find? (fun e => decide (e.1 = spi')) w.exts with
    | some x => simp
    | none =>
      have : ¬ (spi = spi') := fun h => hne h.symm
      simp [this]

@[simp] theorem XWorld.put_sad (w : XWorld) (spi : Bytes) (e : Ext) : (w.put spi e).sad = w.sad := by
  unfold XWorld.put; split <;> rfl
@[simp] theorem XWorld.put_clash (w : XWorld) (spi : Bytes) (e : Ext) : (w.put spi e).clash = w.clash := by
  unfold XWorld.put; split <;> rfl
@[simp] theorem XWorld.put_confs (w : XWorld) (spi : Bytes) (e : Ext) : (w.put spi e).confs = w.confs := by
  unfold XWorld.put; split <;> rfl
@[simp] theorem XWorld.putNew_sad (w : XWorld) (spi : Bytes) (e : Ext) : (w.putNew spi e).sad = w.sad := by
  simp [XWorld.putNew]
theorem XWorld.putNew_clash (w : XWorld) (spi : Bytes) (e : Ext) :
    (w.putNew spi e).clash = (w.clash || w.exts.any fun x => x.1 = spi) := rfl
theorem XWorld.putNew_extOf (w : XWorld) (spi spi' : Bytes) (e : Ext) : (w.putNew spi e).extOf spi' = (w.put spi e).extOf spi' := rfl

/-- a new object that did not clash leaves every stored object as it was -/
theorem XWorld.putNew_keeps (w : XWorld) (spi : Bytes) (e : Ext) (h : (w.putNew spi e).clash = false) (s : Sa) (ho : Obj w s) :
    Obj (w.putNew spi e) s := by
  obtain ⟨x, hx, hc⟩ := ho
  refine ⟨x, ?_, hc⟩
  rw [XWorld.putNew_extOf, XWorld.extOf_put_other _ _ _ _ ?_]
  · exact hx
  · intro heq
    have hk := XWorld.extOf_key w _ x hx
    rw [heq] at hk
    rw [XWorld.putNew_clash, hk] at h
    simp at h

/-! ### one delegated call, seen from the table -/

theorem runH_sad (h : HM HRes) (me : XSa) (succ : Option XSa) (tape : Tape) (sad : List (Bytes × Nat × Bytes)) :
    (runH h me succ tape sad).sad = (h { me := me, succ := succ, tape := tape, sad := sad }).2.sad := by
  unfold runH
  split <;> simp_all
  all_goals (rename_i heq; rw [heq])

/-- the handler state a call on a table entry without successor starts from -/
def startOf (w : XWorld) (s : Sa) (e : Ext) : HSt :=
  { me := { core := s.core, ext := e }, succ := none, tape := { w.tape with bad := w.tape.bad || false || false }, sad := w.sad }

/-- the world a call leaves: tape and SAD picture from the handler state, the object stored back, a new successor stored -/
def worldAfter (w : XWorld) (t : HSt) : XWorld :=
  let w2 := ({ w with tape := t.tape, sad := t.sad }).put t.me.core.mySpi t.me.ext
  match t.succ with
  | some n => w2.putNew n.core.mySpi n.ext
  | none => w2

theorem runOn_eq (w : XWorld) (s : Sa) (e : Ext) (h : HM HRes) (he : w.extOf s.core.mySpi = some e) (hs : s.succ = none) :
    (runOn w s h).1 = worldAfter w (h (startOf w s e)).2 ∧
    (runOn w s h).2.sa = { core := (h (startOf w s e)).2.me.core, succ := (h (startOf w s e)).2.succ.map (·.core) } ∧
    (runOn w s h).2.nl = (h (startOf w s e)).2.nl := by
  unfold runOn worldAfter startOf
  simp only [XWorld.obj, he, hs, runH_me, runH_nl, runH_tape, runH_succ, runH_sad]
  generalize (h { me := { core := s.core, ext := e }, succ := none, tape := { vals := w.tape.vals, bad := w.tape.bad || false || false }, sad := w.sad }).2 = t
  refine ⟨?_, trivial, trivial⟩
  cases t.succ with
  | none => rfl
  | some n => simp

def TWc (w : XWorld) (c : List Sa) (K : List Key) : Prop := w.clash = true ∨ TW c w K
def Acc (w : XWorld) (K : List Key) : Prop := w.clash = true ∨ w.sad = K
/-- no IKE_SA rekey of this IKE_SA has begun -/
def Calm (s : Sa) : Prop := s.succ = none ∧ s.core.st ≠ stREK_IKE_SA_REQ_SENT

theorem keysOfCore_congr (a b : SaCore) (h1 : b.children = a.children) (h2 : b.myAddr = a.myAddr) (h3 : b.peerAddr = a.peerAddr) :
    keysOfCore b = keysOfCore a := by
  unfold keysOfCore; rw [h1, h2, h3]

theorem TW.cons_congr {a b : Sa} {rest : List Sa} {w : XWorld} {K : List Key} (h : TW (a :: rest) w K)
    (h1 : b.core.mySpi = a.core.mySpi) (h2 : b.core.children = a.core.children) (h3 : b.core.myAddr = a.core.myAddr)
    (h4 : b.core.peerAddr = a.core.peerAddr) : TW (b :: rest) w K where
  spis := by have := h.spis; simpa [h1] using this
  objs := by
    intro s hs
    rcases List.mem_cons.mp hs with rfl | hs'
    · obtain ⟨e, he, hc⟩ := h.objs a (List.mem_cons_self ..)
      exact ⟨e, by rw [h1]; exact he, by rw [h2]; exact hc⟩
    · exact h.objs s (List.mem_cons_of_mem _ hs')
  sad := by
    intro k
    rw [h.sad k, tableKeys_cons, tableKeys_cons, keysOfCore_congr a.core b.core h2 h3 h4]
  nodup := by
    have := h.nodup
    rwa [tableKeys_cons, ← keysOfCore_congr a.core b.core h2 h3 h4, ← tableKeys_cons] at this

/-- what a call on the head of the table has to deliver for the table to stay consistent: the object stored back under its
    unchanged SPI and addresses, its view the projection of its records, the kernel holding the others' entries plus its own -/
theorem TW.after_call {s : Sa} {rest : List Sa} {w : XWorld} {K K' : List Key} (hT : TW (s :: rest) w K) (t : HSt)
    (hspi : t.me.core.mySpi = s.core.mySpi) (ha : t.me.core.myAddr = s.core.myAddr) (hp : t.me.core.peerAddr = s.core.peerAddr)
    (hch : t.me.core.children = t.me.ext.kids.map Child.ref)
    (hsad : ∀ k, k ∈ K' ↔ k ∈ tableKeys rest ∨ k ∈ keysOfCore t.me.core) (hnd : (tableKeys rest ++ keysOfCore t.me.core).Nodup)
    (hsucc : t.succ = none) :
    TW ({ core := t.me.core, succ := none } :: rest) (worldAfter w t) K' where
  spis := by have := hT.spis; simpa [hspi] using this
  objs := by
    intro x hx
    unfold worldAfter
    simp only [hsucc]
    rcases List.mem_cons.mp hx with rfl | hx'
    · exact ⟨t.me.ext, XWorld.extOf_put_same _ _ _, hch⟩
    · obtain ⟨e, he, hc⟩ := hT.objs x (List.mem_cons_of_mem _ hx')
      refine ⟨e, ?_, hc⟩
      rw [XWorld.extOf_put_other]
      · exact he
      · intro heq
        have := hT.spis
        simp only [List.map_cons, List.nodup_cons] at this
        apply this.1
        rw [← hspi, ← heq]
        exact List.mem_map_of_mem hx'
  sad := by
    intro k
    rw [hsad k, tableKeys_cons, List.mem_append]
    exact Or.comm
  nodup := by
    rw [tableKeys_cons]
    exact (List.perm_append_comm).nodup hnd

theorem worldAfter_none (w : XWorld) (t : HSt) (h : t.succ = none) :
    (worldAfter w t).clash = w.clash ∧ (worldAfter w t).sad = t.sad := by
  unfold worldAfter; simp [h]

/-- **a request or response handler** (anything that keeps `SadN`, the shell-owned fields and "SAD = requests applied") on the
    head of a consistent table whose kernel picture is accurate: consistent again, with the kernel advanced by its requests -/
theorem call_handler (w : XWorld) (rest : List Sa) (K : List Key) (s : Sa) (h : HM HRes) (hT : TW (s :: rest) w K)
    (hacc : w.sad = K) (hC : Calm s) (hs : ∀ base a p, Keeps (SadN base a p) h) (hcst : Keeps (ConstI s.core) h)
    (ho : ∀ sad0, Keeps (OpsI sad0) h) :
    TW ((runOn w s h).2.sa :: rest) (runOn w s h).1 (applyNls K (runOn w s h).2.nl) ∧ Calm (runOn w s h).2.sa ∧
      (runOn w s h).1.clash = w.clash := by
  obtain ⟨e, he, hch⟩ := hT.objs s (List.mem_cons_self ..)
  obtain ⟨hw, hsa, hnl⟩ := runOn_eq w s e h he hC.1
  rw [hw, hsa, hnl]
  have hkx : keysX (startOf w s e).me = keysOfCore s.core := keysX_eq_core _ hch
  have hpre : SadN (tableKeys rest) s.core.myAddr s.core.peerAddr (startOf w s e) := by
    refine ⟨⟨rfl, rfl, ?_, ?_, hch⟩, hC.2, rfl⟩
    · intro k
      rw [hkx]
      show k ∈ w.sad ↔ _
      rw [hacc, hT.sad k, tableKeys_cons, List.mem_append]
      exact Or.comm
    · rw [hkx]
      have := hT.nodup
      rw [tableKeys_cons] at this
      exact (List.perm_append_comm).nodup this
  obtain ⟨⟨p1, p2, p3, p4, p5⟩, p6, p7⟩ := (hs _ _ _).keep _ hpre
  have hconst : CoreConst (h (startOf w s e)).2.me.core s.core := hcst.keep (startOf w s e) (CoreConst.refl _)
  have hops : (h (startOf w s e)).2.sad = applyNls K (h (startOf w s e)).2.nl := by
    have := (ho w.sad).keep (startOf w s e) (by simp [OpsI, startOf])
    rw [← hacc]; exact this
  have hkx' : keysX (h (startOf w s e)).2.me = keysOfCore (h (startOf w s e)).2.me.core := keysX_eq_core _ p5
  have hafter := TW.after_call (K' := applyNls K (h (startOf w s e)).2.nl) hT (h (startOf w s e)).2 hconst.2.2.1 p1 p2 p5
    (by intro k; rw [← hops, p3 k, hkx']) (by rw [← hkx']; exact p4) p7
  simp only [p7, Option.map_none]
  exact ⟨hafter, ⟨rfl, p6⟩, (worldAfter_none w _ p7).1⟩

theorem TW.world_putNew {c : List Sa} {w : XWorld} {K : List Key} (h : TW c w K) (spi : Bytes) (e : Ext)
    (hc : (w.putNew spi e).clash = false) : TW c (w.putNew spi e) K :=
  { h with objs := fun s hs => XWorld.putNew_keeps w spi e hc s (h.objs s hs) }

/-- **a request generator** (anything that leaves records, view, kernel and kernel picture alone) on the head of a consistent
    table: it asks nothing of the kernel; the table is consistent again unless a new successor object clashed -/
theorem call_generator (w : XWorld) (rest : List Sa) (K : List Key) (s : Sa) (g : HM HRes) (hT : TW (s :: rest) w K)
    (hC : Calm s) (hg : ∀ k0 c0 n0 d0, Keeps (GenI k0 c0 n0 d0) g) (hcst : Keeps (ConstI s.core) g) :
    (runOn w s g).2.nl = [] ∧ (runOn w s g).1.sad = w.sad ∧ (w.clash = true → (runOn w s g).1.clash = true) ∧
    ((runOn w s g).1.clash = true ∨ TW ((runOn w s g).2.sa :: rest) (runOn w s g).1 K) ∧
    ((g (startOf w s ((w.extOf s.core.mySpi).getD { conf := emptyConf }))).2.succ = none →
      (runOn w s g).1.clash = w.clash ∧ (runOn w s g).2.sa.succ = none) := by
  obtain ⟨e, he, hch⟩ := hT.objs s (List.mem_cons_self ..)
  obtain ⟨hw, hsa, hnl⟩ := runOn_eq w s e g he hC.1
  rw [hw, hsa, hnl, he]
  simp only [Option.getD_some]
  obtain ⟨q1, q2, q3, q4⟩ := (hg e.kids s.core.children [] w.sad).keep (startOf w s e) ⟨rfl, rfl, rfl, rfl⟩
  have hconst : CoreConst (g (startOf w s e)).2.me.core s.core := hcst.keep (startOf w s e) (CoreConst.refl _)
  generalize (g (startOf w s e)).2 = t at q1 q2 q3 q4 hconst ⊢
  have hk : keysOfCore t.me.core = keysOfCore s.core := keysOfCore_congr _ _ q2 hconst.2.2.2.1 hconst.2.2.2.2.1
  have hbase := TW.after_call (K' := K) hT { t with succ := none } hconst.2.2.1 hconst.2.2.2.1 hconst.2.2.2.2.1
    (by show t.me.core.children = _; rw [q2, q1]; exact hch)
    (by intro k; show _ ↔ _ ∨ k ∈ keysOfCore t.me.core; rw [hk, hT.sad k, tableKeys_cons, List.mem_append]; exact Or.comm)
    (by show (_ ++ keysOfCore t.me.core).Nodup; rw [hk]; have := hT.nodup; rw [tableKeys_cons] at this
        exact (List.perm_append_comm).nodup this) rfl
  refine ⟨q3, ?_, ?_, ?_, ?_⟩
  · unfold worldAfter; cases t.succ <;> simp [q4]
  · intro hcl; unfold worldAfter; cases t.succ <;> simp [XWorld.putNew_clash, hcl]
  · cases hsu : t.succ with
    | none =>
      right
      have : worldAfter w t = worldAfter w { t with succ := none } := by unfold worldAfter; simp [hsu]
      rw [this]; exact hbase
    | some n =>
      by_cases hcl : (worldAfter w t).clash = true
      · left; exact hcl
      · right
        have hw' : worldAfter w t = (worldAfter w { t with succ := none }).putNew n.core.mySpi n.ext := by
          unfold worldAfter; simp [hsu]
        rw [hw'] at hcl ⊢
        exact (hbase.world_putNew _ _ (by simpa using hcl)).cons_congr rfl rfl rfl rfl
  · intro hsu
    exact ⟨(worldAfter_none w t hsu).1, by simp [hsu]⟩

/-! ### facts about a call that need nothing of the world -/

theorem runOn_clash_mono (w : XWorld) (s : Sa) (h : HM HRes) (hc : w.clash = true) : (runOn w s h).1.clash = true := by
  unfold runOn
  simp only
  split
  · split <;> simp [XWorld.putNew_clash, hc]
  · simp [hc]

/-- the handler state any call starts from -/
def startAny (w : XWorld) (s : Sa) : HSt :=
  { me := (w.obj s.core).1,
    succ := (match s.succ with | some n => (some (w.obj n).1, (w.obj n).2) | none => (none, false) : Option XSa × Bool).1,
    tape := { w.tape with bad := w.tape.bad || (w.obj s.core).2 ||
      (match s.succ with | some n => (some (w.obj n).1, (w.obj n).2) | none => (none, false) : Option XSa × Bool).2 },
    sad := w.sad }

theorem runOn_sa (w : XWorld) (s : Sa) (h : HM HRes) :
    (runOn w s h).2.sa = { core := (h (startAny w s)).2.me.core, succ := (h (startAny w s)).2.succ.map (·.core) } ∧
    (runOn w s h).2.nl = (h (startAny w s)).2.nl := by
  unfold runOn startAny
  simp only [runH_me, runH_succ, runH_nl]
  cases s.succ <;> exact ⟨rfl, rfl⟩

theorem startAny_core (w : XWorld) (s : Sa) : (startAny w s).me.core = s.core := by
  unfold startAny XWorld.obj; simp only; split <;> rfl

theorem runOn_calm (w : XWorld) (s : Sa) (h : HM HRes) (hC : Calm s) (hn : Keeps N13 h) : Calm (runOn w s h).2.sa := by
  rw [(runOn_sa w s h).1]
  have hpre : N13 (startAny w s) := by
    refine ⟨by rw [startAny_core]; exact hC.2, ?_⟩
    unfold startAny; simp [hC.1]
  obtain ⟨p1, p2⟩ := hn.keep _ hpre
  exact ⟨by simp [p2], p1⟩

theorem runOn_children (w : XWorld) (s : Sa) (h : HM HRes) (hg : ∀ k0 c0 n0 d0, Keeps (GenI k0 c0 n0 d0) h) :
    (runOn w s h).2.sa.core.children = s.core.children := by
  rw [(runOn_sa w s h).1]
  have := (hg (startAny w s).me.ext.kids s.core.children (startAny w s).nl (startAny w s).sad).keep (startAny w s)
    ⟨rfl, by rw [startAny_core], rfl, rfl⟩
  exact this.2.1

theorem asRequest_gen {g : HM Msg} (hg : ∀ k0 c0 n0 d0, Keeps (GenI k0 c0 n0 d0) g) :
    ∀ k0 c0 n0 d0, Keeps (GenI k0 c0 n0 d0) (asRequest g) := fun k0 c0 n0 d0 => asRequest_keeps (hg k0 c0 n0 d0)

/-! ### table-level bridges between the two shapes of a table -/

theorem TWc.to_cons {w : XWorld} {c : List Sa} {K : List Key} {i : Nat} {s : Sa} (hi : i < c.length)
    (h : TW (c.set i s) w K) : TW (s :: c.eraseIdx i) w K := h.perm (set_perm_cons c i s hi)

theorem TWc.of_cons {w : XWorld} {c : List Sa} {K : List Key} {i : Nat} {s : Sa} (hi : i < c.length)
    (h : TW (s :: c.eraseIdx i) w K) : TW (c.set i s) w K := h.perm (set_perm_cons c i s hi).symm

/-- a generator call on a table entry, in the shape the contract wants -/
theorem gen_clause (w : XWorld) (c : List Sa) (K : List Key) (i : Nat) (s : Sa) (g : HM Msg) (hi : i < c.length)
    (hT : TWc w (c.set i s) K) (hC : Calm s) (hg : ∀ k0 c0 n0 d0, Keeps (GenI k0 c0 n0 d0) g) (hcst : Keeps (ConstI s.core) g) :
    TWc (runOn w s (asRequest g)).1 (c.set i (runOn w s (asRequest g)).2.sa) (applyNls K (runOn w s (asRequest g)).2.nl) := by
  rcases hT with hcl | hT
  · exact Or.inl (runOn_clash_mono w s _ hcl)
  · obtain ⟨h1, _, _, h4, _⟩ := call_generator w (c.eraseIdx i) K s (asRequest g) (TWc.to_cons hi hT) hC (asRequest_gen hg)
      (asRequest_keeps hcst)
    rw [h1]
    rcases h4 with h4 | h4
    · exact Or.inl h4
    · exact Or.inr (TWc.of_cons hi h4)

theorem responseHandler_n (now : Nat) (m : Msg) (h : HM HRes) (hh : responseHandler now m = some h) : Keeps N13 h := by
  unfold responseHandler at hh
  repeat' split at hh
  all_goals first
    | (cases hh; exact processIkeSaInitResponse_n m)
    | (cases hh; exact processIkeAuthResponse_n m)
    | (cases hh; exact processCreateChildSaResponse_n now m)
    | (cases hh; exact processInformationalResponse_n m)
    | (simp at hh)

theorem newXSa_ok (conf : Conf) (now : Nat) (isInit : Bool) (peerSpi a p : Bytes) (s s' : HSt) (x : XSa)
    (h : newXSa conf now isInit peerSpi a p s = (.ok x, s')) :
    x.core.children = [] ∧ x.ext.kids = [] ∧ x.core.st = stINITIAL := by
  unfold newXSa at h
  rw [HM.bind_def] at h
  split at h
  · rw [HM.bind_def] at h
    split at h
    · rw [HM.pure_def] at h
      cases h
      exact ⟨rfl, rfl, rfl⟩
    · cases h
  · cases h

theorem TW.with_tape {c : List Sa} {w : XWorld} {K : List Key} (h : TW c w K) (t : Tape) : TW c { w with tape := t } K :=
  { h with objs := fun s hs => h.objs s hs }

theorem tableKeys_append (a b : List Sa) : tableKeys (a ++ b) = tableKeys a ++ tableKeys b := by
  simp [tableKeys]

theorem keysOfCore_nil (s : SaCore) (h : s.children = []) : keysOfCore s = [] := by
  unfold keysOfCore; rw [h]; rfl

theorem TW.append_new {c : List Sa} {w : XWorld} {K : List Key} (h : TW c w K) (x : XSa) (hch : x.core.children = [])
    (hk : x.ext.kids = []) (hcl : (w.putNew x.core.mySpi x.ext).clash = false) :
    TW (c ++ [{ core := x.core, succ := none }]) (w.putNew x.core.mySpi x.ext) K where
  spis := by
    rw [List.map_append, List.nodup_append]
    refine ⟨h.spis, by simp, ?_⟩
    intro a ha b hb
    simp only [List.map_cons, List.map_nil, List.mem_singleton] at hb
    subst hb
    intro heq
    obtain ⟨y, hy, hys⟩ := List.mem_map.mp ha
    obtain ⟨e, he, _⟩ := h.objs y hy
    have hkey := XWorld.extOf_key w _ e he
    rw [hys, heq] at hkey
    rw [XWorld.putNew_clash, hkey] at hcl
    simp at hcl
  objs := by
    intro s hs
    rcases List.mem_append.mp hs with h1 | h1
    · exact XWorld.putNew_keeps w _ _ hcl s (h.objs s h1)
    · simp only [List.mem_singleton] at h1
      subst h1
      exact ⟨x.ext, by rw [XWorld.putNew_extOf]; exact XWorld.extOf_put_same _ _ _, by simp [hch, hk]⟩
  sad := by
    intro k
    rw [h.sad k, tableKeys_append]
    simp [tableKeys, keysOfCore_nil _ hch]
  nodup := by
    rw [tableKeys_append]
    simpa [tableKeys, keysOfCore_nil _ hch] using h.nodup

theorem TW.remove_head {s : Sa} {rest : List Sa} {w : XWorld} {K : List Key} (h : TW (s :: rest) w K) :
    TW rest w (applyNls K (deleteChildSas s.core).2) where
  spis := by have := h.spis; simp only [List.map_cons, List.nodup_cons] at this; exact this.2
  objs := fun x hx => h.objs x (List.mem_cons_of_mem _ hx)
  sad := by
    intro k
    have hnd := h.nodup
    rw [tableKeys_cons, List.nodup_append] at hnd
    rw [deleteChildSas_ops, applyNls_del, List.mem_filter, h.sad k, tableKeys_cons, List.mem_append]
    simp only [List.contains_iff_mem, decide_not, Bool.not_eq_eq_eq_not, Bool.not_true, decide_eq_false_iff_not]
    constructor
    · rintro ⟨h1 | h1, h2⟩
      · exact absurd h1 h2
      · exact h1
    · intro h1
      exact ⟨Or.inr h1, fun h2 => hnd.2.2 k h2 k h1 rfl⟩
  nodup := by
    have hnd := h.nodup
    rw [tableKeys_cons, List.nodup_append] at hnd
    exact hnd.2.1

theorem TW.forget_last {c : List Sa} {x : Sa} {w : XWorld} {K : List Key} (h : TW (c ++ [x]) w K) (hch : x.core.children = []) :
    TW c w K where
  spis := by have := h.spis; rw [List.map_append, List.nodup_append] at this; exact this.1
  objs := fun s hs => h.objs s (List.mem_append_left _ hs)
  sad := by
    intro k
    rw [h.sad k, tableKeys_append]
    simp [tableKeys, keysOfCore_nil _ hch]
  nodup := by
    have := h.nodup
    rw [tableKeys_append] at this
    simpa [tableKeys, keysOfCore_nil _ hch] using this

theorem concrete_contract : Contract concreteHandlers TWc Acc Calm notIkeRekey where
  shellT := by
    intro w c K i a b hT hs
    rcases hT with hcl | hT
    · exact Or.inl hcl
    · right
      rcases Nat.lt_or_ge i c.length with hi | hi
      · exact TWc.of_cons hi ((TWc.to_cons hi hT).cons_congr hs.2.2.1 hs.2.1 hs.2.2.2.1 hs.2.2.2.2)
      · rw [List.set_eq_of_length_le hi] at hT ⊢; exact hT
  shellC := by
    intro a b hC hs hst
    refine ⟨by rw [hs.1]; exact hC.1, ?_⟩
    rcases hst with h | h
    · rw [h]; exact hC.2
    · rw [h]; decide
  calmSucc := fun s h => h.1
  req := by
    intro w c K i s now m w' o hi hT hA hC hm hq
    simp only [concreteHandlers] at hq
    split at hq
    · rename_i h hh
      have hw : w' = (runOn w s h).1 := by cases hq; rfl
      have ho : o = (runOn w s h).2 := by cases hq; rfl
      subst hw ho
      refine ⟨?_, runOn_calm w s h hC (requestHandler_n now m h hh hm)⟩
      rcases hT with hcl | hT
      · exact Or.inl (runOn_clash_mono w s h hcl)
      · rcases hA with hcl | hA
        · exact Or.inl (runOn_clash_mono w s h hcl)
        · right
          exact TWc.of_cons hi (call_handler w _ K s h (TWc.to_cons hi hT) hA hC
            (fun base a p => requestHandler_sn base a p now m h hh hm) (requestHandler_c s.core now m h hh)
            (fun sad0 => requestHandler_o sad0 now m h hh)).1
    · cases hq
  reqNone := by
    intro w s now m w' hq
    simp only [concreteHandlers] at hq
    split at hq
    · cases hq
    · cases hq; rfl
  req34 := by
    intro w s now m w' o hq h34
    simp only [concreteHandlers] at hq
    split at hq
    · rename_i h hh
      have ho : o = (runOn w s h).2 := by cases hq; rfl
      subst ho
      have : h = processIkeSaInitRequest m := by
        unfold requestHandler at hh; rw [if_pos h34] at hh; exact (Option.some.inj hh).symm
      subst this
      exact runOn_children w s _ (fun k0 c0 n0 d0 => processIkeSaInitRequest_g k0 c0 n0 d0 m)
    · cases hq
  resp := by
    intro w c K i s now m w' o hi hT hA hC hq
    simp only [concreteHandlers] at hq
    split at hq
    · rename_i h hh
      have hw : w' = (runOn w s h).1 := by cases hq; rfl
      have ho : o = (runOn w s h).2 := by cases hq; rfl
      subst hw ho
      refine ⟨?_, runOn_calm w s h hC (responseHandler_n now m h hh)⟩
      rcases hT with hcl | hT
      · exact Or.inl (runOn_clash_mono w s h hcl)
      · rcases hA with hcl | hA
        · exact Or.inl (runOn_clash_mono w s h hcl)
        · right
          exact TWc.of_cons hi (call_handler w _ K s h (TWc.to_cons hi hT) hA hC
            (fun base a p => responseHandler_sn base a p now m h hh) (responseHandler_c s.core now m h hh)
            (fun sad0 => responseHandler_o sad0 now m h hh)).1
    · cases hq
  respNone := by
    intro w s now m w' hq
    simp only [concreteHandlers] at hq
    split at hq
    · cases hq
    · cases hq; rfl
  genAcquire := by
    intro w c K i s now a b idx w' o hi hT hC hq
    simp only [concreteHandlers] at hq
    have hw : w' = (runOn w s (asRequest (genAcquireH a b idx))).1 := by rw [hq]
    have ho : o = (runOn w s (asRequest (genAcquireH a b idx))).2 := by rw [hq]
    subst hw ho
    exact ⟨gen_clause w c K i s _ hi hT hC (fun k0 c0 n0 d0 => genAcquireH_g k0 c0 n0 d0 a b idx) (genAcquireH_c s.core a b idx),
      runOn_calm w s _ hC (asRequest_keeps (genAcquireH_n a b idx))⟩
  genExpire := by
    intro w c K i s now ch hard w' o hi hT hC hq
    simp only [concreteHandlers] at hq
    have hw : w' = (runOn w s (asRequest (genExpireH ch hard))).1 := by rw [hq]
    have ho : o = (runOn w s (asRequest (genExpireH ch hard))).2 := by rw [hq]
    subst hw ho
    exact ⟨gen_clause w c K i s _ hi hT hC (fun k0 c0 n0 d0 => genExpireH_g k0 c0 n0 d0 ch hard) (genExpireH_c s.core ch hard),
      runOn_calm w s _ hC (asRequest_keeps (genExpireH_n ch hard))⟩
  genDpd := by
    intro w c K i s now w' o hi hT hC hq
    simp only [concreteHandlers] at hq
    have hw : w' = (runOn w s (asRequest generateDpdRequest)).1 := by rw [hq]
    have ho : o = (runOn w s (asRequest generateDpdRequest)).2 := by rw [hq]
    subst hw ho
    exact ⟨gen_clause w c K i s _ hi hT hC (fun k0 c0 n0 d0 => generateDpdRequest_g k0 c0 n0 d0) (generateDpdRequest_c s.core),
      runOn_calm w s _ hC (asRequest_keeps generateDpdRequest_n)⟩
  genDeleteIke := by
    intro w c K i s now w' o hi hT hC hq
    simp only [concreteHandlers] at hq
    have hw : w' = (runOn w s (asRequest generateDeleteIkeSaRequest)).1 := by rw [hq]
    have ho : o = (runOn w s (asRequest generateDeleteIkeSaRequest)).2 := by rw [hq]
    subst hw ho
    exact ⟨gen_clause w c K i s _ hi hT hC (fun k0 c0 n0 d0 => generateDeleteIkeSaRequest_g k0 c0 n0 d0)
      (generateDeleteIkeSaRequest_c s.core), runOn_calm w s _ hC (asRequest_keeps generateDeleteIkeSaRequest_n)⟩
  genRekeyIke := by
    intro w c K i s now w' o hi hT hC hq
    simp only [concreteHandlers] at hq
    have hw : w' = (runOn w s (asRequest (generateRekeyIkeSaRequest now))).1 := by rw [hq]
    have ho : o = (runOn w s (asRequest (generateRekeyIkeSaRequest now))).2 := by rw [hq]
    subst hw ho
    exact gen_clause w c K i s _ hi hT hC (fun k0 c0 n0 d0 => generateRekeyIkeSaRequest_g k0 c0 n0 d0 now)
      (generateRekeyIkeSaRequest_c s.core now)
  newSa := by
    intro w c K now isInit peerSpi a p w' n hT hq
    simp only [concreteHandlers] at hq
    split at hq
    · cases hq
    · rename_i conf _
      split at hq
      · rename_i x st hx
        obtain ⟨h1, h2, h3⟩ := newXSa_ok _ _ _ _ _ _ _ _ _ hx
        have hw : w' = ({ w with tape := st.tape } : XWorld).putNew x.core.mySpi x.ext := by cases hq; rfl
        have hn : n = x.core := by cases hq; rfl
        subst hw hn
        refine ⟨?_, ⟨rfl, by rw [h3]; decide⟩, h1, ?_⟩
        · rcases hT with hcl | hT
          · left; rw [XWorld.putNew_clash]; simp [hcl]
          · by_cases hcl : (({ w with tape := st.tape } : XWorld).putNew x.core.mySpi x.ext).clash = true
            · exact Or.inl hcl
            · exact Or.inr ((hT.with_tape st.tape).append_new x h1 h2 (by simpa using hcl))
        · intro hA
          rcases hA with hcl | hA
          · left; rw [XWorld.putNew_clash]; simp [hcl]
          · right; simpa using hA
      · cases hq
  newSaNone := by
    intro w c K now isInit peerSpi a p w' hT hq
    simp only [concreteHandlers] at hq
    split at hq
    · cases hq; exact hT
    · split at hq
      · cases hq
      · rename_i st _
        have hw : w' = { w with tape := st.tape } := by cases hq; rfl
        subst hw
        rcases hT with hcl | hT
        · exact Or.inl hcl
        · exact Or.inr (hT.with_tape _)
  remove := by
    intro w c K i s hi hT
    rcases hT with hcl | hT
    · exact Or.inl hcl
    · exact Or.inr (TWc.to_cons hi hT).remove_head
  forget := by
    intro w c K x hT hch
    rcases hT with hcl | hT
    · exact Or.inl hcl
    · exact Or.inr (hT.forget_last hch)

/-! ### whole histories -/

/-- between two rounds: the kernel SAD (`w.sad`) is exactly what the table tracks, every entry once — unless two objects of
    the model were ever given the same SPI -/
def Sync (wc : XWorld × Ctl) : Prop := wc.1.clash = true ∨ TW wc.2.sas wc.1 wc.1.sad

/-- what the theorem asks of an event: header-only parse and full parse are of the same datagram, and a CREATE_CHILD_SA
    request is not for an IKE_SA -/
def EvOK (ev : LoopEv) : Prop :=
  (∀ h p a b m, ev.datagram = some (h, p, a, b) → p = some m → notIkeRekey m) ∧
  (∀ h p a b, ev.datagram = some (h, p, a, b) → Coherent h p)

theorem TW.with_sad {c : List Sa} {w : XWorld} {K : List Key} (h : TW c w K) (d : List Key) : TW c { w with sad := d } K :=
  { h with objs := fun s hs => h.objs s hs }

theorem wholeStep_sync (wc : XWorld × Ctl) (x : Nat × LoopEv) (h : Sync wc) (hcalm : AllC Calm wc.2.sas) (hev : EvOK x.2) :
    Sync (wholeStep wc x) := by
  have := loopIter_T concrete_contract wc.1 wc.2 wc.1.sad x.1 x.2 h (Or.inr rfl) hcalm hev.1 hev.2
  unfold wholeStep Sync
  rcases this with hcl | hT
  · exact Or.inl hcl
  · exact Or.inr (hT.with_sad _)

theorem wholeRun_sync (evs : List (Nat × LoopEv)) : ∀ (wc : XWorld × Ctl), Sync wc →
    (∀ k, k < evs.length → AllC Calm (wholeRun wc (evs.take k)).2.sas) → (∀ x ∈ evs, EvOK x.2) → Sync (wholeRun wc evs) := by
  induction evs with
  | nil => intro wc h _ _; exact h
  | cons x rest ih =>
    intro wc h hcalm hev
    have h1 := wholeStep_sync wc x h (hcalm 0 (by simp)) (hev x (List.mem_cons_self ..))
    show Sync (wholeRun (wholeStep wc x) rest)
    apply ih _ h1
    · intro k hk
      have := hcalm (k + 1) (by simpa using hk)
      simpa [wholeRun] using this
    · exact fun y hy => hev y (List.mem_cons_of_mem _ hy)

end PyIkev2.Impl
