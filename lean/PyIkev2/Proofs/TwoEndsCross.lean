/-
  Two ends, exchanges that cross: both ends have a CHILD_SA request outstanding at the same time.  Each end handles the other's
  request while it waits (the request handlers are admitted in every request-outstanding state), then its own answer.
-/
import PyIkev2.Proofs.TwoEndsInit

namespace PyIkev2.Impl
open PyIkev2

/-- both ends send a CHILD_SA request (a creation, or a rekey when `rka` / `rkb` name a CHILD_SA) at the same time; the requests cross,
    then the answers.  Only conversations in which neither answer calls for a further request are followed to the end here. -/
def crossingChildExchange (now : Nat) (ca0 cb0 : Child) (rka rkb : Option Child) (a b : HSt) : Option (HSt × HSt) :=
  match generateCreateChildSaRequest ca0 rka a, generateCreateChildSaRequest cb0 rkb b with
  | (.ok ra, a1), (.ok rb, b1) =>
    match processCreateChildSaRequest now ra b1, processCreateChildSaRequest now rb a1 with
    | (.ok (.reply respB), b2), (.ok (.reply respA), a2) =>
      match processCreateChildSaResponse now respB a2, processCreateChildSaResponse now respA b2 with
      | (.ok .nothing, a3), (.ok .nothing, b3) => some (a3, b3)
      | _, _ => none
    | _, _ => none
  | _, _ => none

theorem Half.perm_right {ka kb kb' : List Child} (h : Half ka kb) (hp : kb.Perm kb') : Half ka kb' :=
  ⟨h.mirror.trans (hp.map _), h.nda, h.protoa, fun c hc => h.protob c (hp.mem_iff.mpr hc),
   fun ca ha cb hb hv => h.paired ca ha cb (hp.mem_iff.mpr hb) hv⟩

/-- what one request and its answer do to the two ends, when the answer calls for nothing further: either nothing (refused), or one
    CHILD_SA more at each end, images of each other -/
def LegOutcome (x y0 : XSa) (c0 : Child) (b2me a3me : XSa) : Prop :=
  (b2me = x ∧ a3me = setSt y0 stESTABLISHED) ∨
  (∃ cb child, b2me = x.setKids (x.ext.kids ++ [cb]) ∧
      a3me = ({ (setSt y0 stESTABLISHED) with ext := { (setSt y0 stESTABLISHED).ext with creating := some child } } : XSa).setKids (y0.ext.kids ++ [child]) ∧
      child.view = cb.peerView ∧ child.rich = cb.peerRich ∧ child.inSpi = c0.inSpi ∧ cb.proposal.proto = c0.proposal.proto)

theorem crossLeg (now : Nat) (r : Msg) (p : Proposal) (c0 : Child) (b1 b2 a2 a3 : HSt) (respB : Msg)
    (hsa : paySA r true = .ok [p]) (hspi : p.spi = c0.inSpi) (hproto : p.proto = c0.proposal.proto) (hp1 : p.proto ≠ 1)
    (hcr : a2.me.ext.creating = some c0) (hst : a2.me.core.st ≠ stREK_IKE_SA_REQ_SENT)
    (hB : processCreateChildSaRequest now r b1 = (.ok (.reply respB), b2))
    (hA : processCreateChildSaResponse now respB a2 = (.ok .nothing, a3)) :
    LegOutcome b1.me a2.me c0 b2.me a3.me := by
  obtain ⟨payloads, hres, hgr⟩ := (processCreateChildSaRequest_tri now r b1.me p [] hsa hp1).ok b1 _ b2 rfl hB
  cases hres
  have hout := (processCreateChildSaResponse_tri now (mkResponse b2.me.core 36 payloads) a2.me c0 hcr hst).ok a2 _ a3 rfl hA
  rcases hgr with ⟨cb, hb2, ⟨sa, q, hsa', hq, hcbout, hcbproto⟩, hgood, hshape⟩ | ⟨hb2, herr⟩
  · rw [hsa] at hsa'; cases hsa'
    simp only [List.mem_singleton] at hq; subst hq
    obtain ⟨p', hp'sa, hp'spi, hp'proto⟩ := goodReply_paySA b2.me.core payloads _ _ hgood
    obtain ⟨⟨pt, hptsa, hpttr⟩, hrtsi, hrtsr, hrmode⟩ := replyShape_read b2.me.core payloads cb hshape
    rw [hp'sa] at hptsa; cases hptsa
    have hnoerr := goodReply_hasErr b2.me.core payloads _ _ hgood
    rcases hout with ⟨_, _, h3⟩ | ⟨_, _, hcre⟩ | ⟨z, old, _, _, _, _, _, h1, _⟩ | ⟨_, h1, _⟩ | ⟨r2, _, h1, _⟩
    · rw [hnoerr] at h3; cases h3
    · obtain ⟨hs1, hs2⟩ := replyShape_singletons hshape
      obtain ⟨child, hz, hcin, hv, hrich⟩ := created_is_image (setSt a2.me stESTABLISHED) c0 _ a3.me cb p' hp'sa hp'spi hp'proto hpttr
        hrtsi hrtsr hrmode (by rw [hcbout, hspi]) hs1 hs2 hcre
      exact Or.inr ⟨cb, child, hb2, hz, hv, hrich, hcin, by rw [hcbproto, hproto]⟩
    · cases h1
    · cases h1
    · cases h1
  · rcases hout with ⟨_, h2, _⟩ | ⟨_, _, hcre⟩ | ⟨z, old, _, _, _, _, _, h1, _⟩ | ⟨_, h1, _⟩ | ⟨r2, _, h1, _⟩
    · exact Or.inl ⟨hb2, h2⟩
    · obtain ⟨p'', rest, _, hp''sa, _⟩ := hcre
      exact absurd hp''sa (errReply_paySA _ _ herr _)
    · cases h1
    · cases h1
    · cases h1

/-- agreement of two lists of CHILD_SA records, symmetric -/
structure FullK (ka kb : List Child) : Prop where
  half : Half ka kb
  ndb : (kb.map Child.inSpi).Nodup

theorem FullK.symm {ka kb : List Child} (h : FullK ka kb) : FullK kb ka :=
  ⟨⟨h.half.mirror.symm, h.ndb, h.half.protob, h.half.protoa, h.half.paired.symm⟩, h.half.nda⟩

theorem Agree.fullK {a b : HSt} (h : Agree a b) : FullK a.me.ext.kids b.me.ext.kids :=
  ⟨⟨h.mirror, h.nda, h.protoa, h.protob, h.paired⟩, h.ndb⟩

theorem FullK.append {ka kb : List Child} (h : FullK ka kb) (ca cb : Child) (hv : ca.view = cb.peerView) (hr : ca.rich = cb.peerRich)
    (hfa : ca.inSpi ∉ ka.map Child.inSpi) (hfb : cb.inSpi ∉ kb.map Child.inSpi)
    (hp : ca.proposal.proto = 2 ∨ ca.proposal.proto = 3) : FullK (ka ++ [ca]) (kb ++ [cb]) := by
  refine ⟨h.half.append ca cb hv hfa hp hr, ?_⟩
  rw [List.map_append, List.nodup_append]
  refine ⟨h.ndb, by simp, ?_⟩
  intro x hx y hy
  simp only [List.map_cons, List.map_nil, List.mem_singleton] at hy
  subst hy; intro hxy; subst hxy; exact hfb hx

theorem FullK.perm_right {ka kb kb' : List Child} (h : FullK ka kb) (hp : kb.Perm kb') : FullK ka kb' :=
  ⟨h.half.perm_right hp, (hp.map Child.inSpi).nodup_iff.mp h.ndb⟩

theorem nodup_append_one {l : List Child} {c : Child} (h : ((l ++ [c]).map Child.inSpi).Nodup) :
    (l.map Child.inSpi).Nodup ∧ c.inSpi ∉ l.map Child.inSpi := by
  rw [List.map_append, List.nodup_append] at h
  exact ⟨h.1, fun hx => h.2.2 _ hx _ (by simp) rfl⟩

/-- handling a CHILD_SA request changes neither the state nor the record this end is creating -/
theorem responder_frame (now : Nat) (r : Msg) (p : Proposal) (s t : HSt) (resp : Msg) (hsa : paySA r true = .ok [p]) (hp1 : p.proto ≠ 1)
    (h : processCreateChildSaRequest now r s = (.ok (.reply resp), t)) :
    t.me.ext.creating = s.me.ext.creating ∧ t.me.core.st = s.me.core.st ∧ t.me.ext.rekeying = s.me.ext.rekeying := by
  obtain ⟨payloads, _, hgr⟩ := (processCreateChildSaRequest_tri now r s.me p [] hsa hp1).ok s _ t rfl h
  rcases hgr with ⟨cb, h1, _⟩ | ⟨h1, _⟩
  · rw [h1]; exact ⟨rfl, rfl, rfl⟩
  · rw [h1]; exact ⟨rfl, rfl, rfl⟩

theorem FullK.agree {a b : HSt} (h : FullK a.me.ext.kids b.me.ext.kids) (sta : a.me.core.st = stESTABLISHED)
    (stb : b.me.core.st = stESTABLISHED) : Agree a b :=
  ⟨sta, stb, h.half.mirror, h.half.nda, h.ndb, h.half.protoa, h.half.protob, h.half.paired⟩

/-- **crossing CHILD_SA requests**: both ends ask for a CHILD_SA (or for the rekey of one) at the same time; each handles the other's
    request while it waits for its own answer.  If no handler raises, neither answer calls for a further request, and each kernel
    accepted what its end installed (the SPIs an end draws are new to it): the ends agree — each granted request added one CHILD_SA to
    both ends, each refused one none -/
theorem crossingChildExchange_agree (now : Nat) (ca0 cb0 : Child) (rka rkb : Option Child) (a b a3 b3 : HSt) (h : Agree a b)
    (hpa : ca0.proposal.proto = 2 ∨ ca0.proposal.proto = 3) (hpb : cb0.proposal.proto = 2 ∨ cb0.proposal.proto = 3)
    (hx : crossingChildExchange now ca0 cb0 rka rkb a b = some (a3, b3))
    (hnda : (a3.me.ext.kids.map Child.inSpi).Nodup) (hndb : (b3.me.ext.kids.map Child.inSpi).Nodup) : Agree a3 b3 := by
  unfold crossingChildExchange at hx
  cases hga : generateCreateChildSaRequest ca0 rka a with
  | mk ra' a1 =>
  cases hgb : generateCreateChildSaRequest cb0 rkb b with
  | mk rb' b1 =>
  rw [hga, hgb] at hx
  cases ra' with
  | error e => cases hx
  | ok ra =>
  cases rb' with
  | error e => cases hx
  | ok rb =>
  dsimp only at hx
  obtain ⟨ha1, hxa, hsaa⟩ := (generateCreateChildSaRequest_tri a.me ca0 rka).ok a ra a1 rfl hga
  obtain ⟨hb1, hxb, hsab⟩ := (generateCreateChildSaRequest_tri b.me cb0 rkb).ok b rb b1 rfl hgb
  cases hB : processCreateChildSaRequest now ra b1 with
  | mk rB b2 =>
  cases hA : processCreateChildSaRequest now rb a1 with
  | mk rA a2 =>
  rw [hB, hA] at hx
  -- only two replies let the conversation go on
  have hrB : ∃ respB, rB = .ok (.reply respB) := by
    rcases rB with e | (m | m | _ | n | n) <;> first | exact ⟨_, rfl⟩ | (exfalso; rcases rA with e' | (m' | m' | _ | n' | n') <;> simp at hx)
  obtain ⟨respB, rfl⟩ := hrB
  have hrA : ∃ respA, rA = .ok (.reply respA) := by
    rcases rA with e | (m | m | _ | n | n) <;> first | exact ⟨_, rfl⟩ | (exfalso; simp at hx)
  obtain ⟨respA, rfl⟩ := hrA
  dsimp only at hx
  cases hA3 : processCreateChildSaResponse now respB a2 with
  | mk qa a3' =>
  cases hB3 : processCreateChildSaResponse now respA b2 with
  | mk qb b3' =>
  rw [hA3, hB3] at hx
  have hqa : qa = .ok .nothing := by
    rcases qa with e | (m | m | _ | n | n) <;> first | rfl | (exfalso; rcases qb with e' | (m' | m' | _ | n' | n') <;> simp at hx)
  subst hqa
  have hqb : qb = .ok .nothing := by
    rcases qb with e | (m | m | _ | n | n) <;> first | rfl | (exfalso; simp at hx)
  subst hqb
  dsimp only at hx; cases hx
  have hp1a : (offerOf ca0).proto ≠ 1 := by simp only [offerOf]; rcases hpa with h | h <;> omega
  have hp1b : (offerOf cb0).proto ≠ 1 := by simp only [offerOf]; rcases hpb with h | h <;> omega
  obtain ⟨fa1, fa2, _⟩ := responder_frame now rb (offerOf cb0) a1 a2 respA hsab hp1b hA
  obtain ⟨fb1, fb2, _⟩ := responder_frame now ra (offerOf ca0) b1 b2 respB hsaa hp1a hB
  have hst13 : ∀ (x : XSa) (c : Child) (rk : Option Child) (r : Msg), (afterGenCreate x c rk r).core.st ≠ stREK_IKE_SA_REQ_SENT := by
    intro x c rk r; cases rk <;> simp [afterGenCreate, stNEW_CHILD_REQ_SENT, stREK_CHILD_REQ_SENT, stREK_IKE_SA_REQ_SENT]
  have leg1 := crossLeg now ra (offerOf ca0) ca0 b1 b2 a2 a3 respB hsaa rfl rfl hp1a (by rw [fa1, ha1]; rfl)
    (by rw [fa2, ha1]; exact hst13 _ _ _ _) hB hA3
  have leg2 := crossLeg now rb (offerOf cb0) cb0 a1 a2 b2 b3 respA hsab rfl rfl hp1b (by rw [fb1, hb1]; rfl)
    (by rw [fb2, hb1]; exact hst13 _ _ _ _) hA hB3
  have ka1 : a1.me.ext.kids = a.me.ext.kids := by rw [ha1]; rfl
  have kb1 : b1.me.ext.kids = b.me.ext.kids := by rw [hb1]; rfl
  have h0 := h.fullK
  have protoOf : ∀ {x y : Child}, x.view = y.peerView → y.proposal.proto = 2 ∨ y.proposal.proto = 3 → x.proposal.proto = 2 ∨ x.proposal.proto = 3 := by
    intro x y hv hy
    simp only [Child.view, Child.peerView, Prod.mk.injEq] at hv
    rw [hv.2.2]; exact hy
  rcases leg2 with ⟨ea2, eb3⟩ | ⟨caR, childB, ea2, eb3, hv2, hr2, _, hpr2⟩ <;> rcases leg1 with ⟨eb2, ea3⟩ | ⟨cbR, childA, eb2, ea3, hv1, hr1, _, hpr1⟩
  · -- both refused
    have ka3 : a3.me.ext.kids = a.me.ext.kids := by rw [ea3, ea2]; exact ka1
    have kb3 : b3.me.ext.kids = b.me.ext.kids := by rw [eb3, eb2]; exact kb1
    refine FullK.agree (by rw [ka3, kb3]; exact h0) (by rw [ea3]; rfl) (by rw [eb3]; rfl)
  · -- only a's request granted
    have ka3 : a3.me.ext.kids = a.me.ext.kids ++ [childA] := by rw [ea3, ea2]; simp [XSa.setKids, ka1]
    have kb3 : b3.me.ext.kids = b.me.ext.kids ++ [cbR] := by rw [eb3, eb2]; simp [setSt, XSa.setKids, kb1]
    rw [ka3] at hnda; rw [kb3] at hndb
    refine FullK.agree ?_ (by rw [ea3]; rfl) (by rw [eb3]; rfl)
    rw [ka3, kb3]
    exact h0.append childA cbR hv1 hr1 (nodup_append_one hnda).2 (nodup_append_one hndb).2 (protoOf hv1 (by rw [hpr1]; exact hpa))
  · -- only b's request granted
    have ka3 : a3.me.ext.kids = a.me.ext.kids ++ [caR] := by rw [ea3, ea2]; simp [setSt, XSa.setKids, ka1]
    have kb3 : b3.me.ext.kids = b.me.ext.kids ++ [childB] := by rw [eb3, eb2]; simp [XSa.setKids, kb1]
    rw [ka3] at hnda; rw [kb3] at hndb
    refine FullK.agree ?_ (by rw [ea3]; rfl) (by rw [eb3]; rfl)
    rw [ka3, kb3]
    exact h0.append caR childB (view_eq_peerView_symm hv2) (rich_symm hr2) (nodup_append_one hnda).2 (nodup_append_one hndb).2
      (by rw [hpr2]; exact hpb)
  · -- both granted: one CHILD_SA more for each request, at both ends
    have ka3 : a3.me.ext.kids = (a.me.ext.kids ++ [caR]) ++ [childA] := by rw [ea3, ea2]; simp [XSa.setKids, ka1]
    have kb3 : b3.me.ext.kids = (b.me.ext.kids ++ [cbR]) ++ [childB] := by rw [eb3, eb2]; simp [XSa.setKids, kb1]
    rw [ka3] at hnda; rw [kb3] at hndb
    refine FullK.agree ?_ (by rw [ea3]; rfl) (by rw [eb3]; rfl)
    rw [ka3, kb3]
    obtain ⟨hnda1, hfa2⟩ := nodup_append_one hnda
    obtain ⟨hndb1, hfb2⟩ := nodup_append_one hndb
    have hfb1' : cbR.inSpi ∉ (b.me.ext.kids ++ [childB]).map Child.inSpi := by
      intro hx
      simp only [List.map_append, List.mem_append, List.map_cons, List.map_nil, List.mem_singleton] at hx hfb2
      rcases hx with hx | hx
      · exact (nodup_append_one hndb1).2 hx
      · exact hfb2 (Or.inr hx.symm)
    have hfbB : childB.inSpi ∉ b.me.ext.kids.map Child.inSpi := by
      intro hx; apply hfb2
      simp only [List.map_append, List.mem_append]; exact Or.inl hx
    have step1 := h0.append caR childB (view_eq_peerView_symm hv2) (rich_symm hr2) (nodup_append_one hnda1).2 hfbB (by rw [hpr2]; exact hpb)
    have step2 := step1.append childA cbR hv1 hr1 hfa2 hfb1' (protoOf hv1 (by rw [hpr1]; exact hpa))
    refine step2.perm_right ?_
    simp only [List.append_assoc, List.cons_append, List.nil_append]
    exact List.Perm.append_left _ (List.Perm.swap _ _ _)

/-! ### deletes that cross, of different CHILD_SAs -/

theorem childEq_false_of_inSpi {x y : Child} (h : x.inSpi ≠ y.inSpi) : childEq x y = false := by
  cases hc : childEq x y with
  | false => rfl
  | true =>
    have := childEq_view hc
    simp only [Child.view, Prod.mk.injEq] at this
    exact absurd this.1 h

theorem mem_removeKid_of_ne {ks : List Child} {c x : Child} (hx : x ∈ ks) (hne : c.inSpi ≠ x.inSpi) : x ∈ removeKid ks c := by
  unfold removeKid
  rw [List.mem_eraseP_of_neg (by rw [childEq_false_of_inSpi hne]; decide)]
  exact hx

/-- both ends delete a CHILD_SA at the same time — different ones: each end removes the one the other names when the request arrives,
    and its own when the answer arrives; both CHILD_SAs are gone at both ends, which agree again -/
theorem crossingDeleteDifferent_agree (ca cb ca' cb' : Child) (a b : HSt) (h : Agree a b)
    (ha : ca ∈ a.me.ext.kids) (hb : cb ∈ b.me.ext.kids) (ha' : ca' ∈ b.me.ext.kids) (hb' : cb' ∈ a.me.ext.kids)
    (hva : ca.view = ca'.peerView) (hvb : cb.view = cb'.peerView) (hdiff : ca.inSpi ≠ cb'.inSpi) :
    ∃ a3 b3, crossingDeleteExchange ca cb a b = some (a3, b3) ∧ Agree a3 b3 ∧
      a3.me.ext.kids = removeKid (removeKid a.me.ext.kids cb') ca ∧ b3.me.ext.kids = removeKid (removeKid b.me.ext.kids ca') cb := by
  have hpa := h.protoa ca ha
  have hpb := h.protob cb hb
  have hpa' : ca'.proposal.proto = ca.proposal.proto := by
    simp only [Child.view, Child.peerView, Prod.mk.injEq] at hva; exact hva.2.2.symm
  have hpb' : cb'.proposal.proto = cb.proposal.proto := by
    simp only [Child.view, Child.peerView, Prod.mk.injEq] at hvb; exact hvb.2.2.symm
  -- the other kid of each end is a different record
  have hdiffb : cb.inSpi ≠ ca'.inSpi := by
    intro he
    apply hdiff
    -- ca' and cb are the same record of b (same inbound SPI), so their images ca and cb' are the same record of a
    have : cb = ca' := eq_of_nodup_map Child.inSpi _ h.ndb hb ha' he
    subst this
    have hv : ca.view = cb'.view := by
      have h1 := view_eq_peerView_symm hva   -- cb.view = ca.peerView
      have h2 := hvb                          -- cb.view = cb'.peerView
      have : ca.peerView = cb'.peerView := h1.symm.trans h2
      simp only [Child.view, Child.peerView, Prod.mk.injEq] at this ⊢
      exact ⟨this.2.1, this.1, this.2.2⟩
    simp only [Child.view, Prod.mk.injEq] at hv; exact hv.1
  have hga := generateDeleteChildSaRequest_eq ca a h.sta
  have hgb := generateDeleteChildSaRequest_eq cb b h.stb
  generalize hA1 : generateDeleteChildSaRequest ca a = ga at hga
  generalize hB1 : generateDeleteChildSaRequest cb b = gb at hgb
  obtain ⟨ra, a1⟩ := ga
  obtain ⟨rb, b1⟩ := gb
  obtain ⟨hra, ha1⟩ := Prod.mk.inj hga
  obtain ⟨hrb, hb1⟩ := Prod.mk.inj hgb
  have ka1 : a1.me.ext.kids = a.me.ext.kids := by rw [ha1]
  have kb1 : b1.me.ext.kids = b.me.ext.kids := by rw [hb1]
  have sa1 : a1.me.core.st = stDEL_CHILD_REQ_SENT := by rw [ha1]
  have sb1 : b1.me.core.st = stDEL_CHILD_REQ_SENT := by rw [hb1]
  have da1 : a1.me.ext.deleting = some ca := by rw [ha1]
  have db1 : b1.me.ext.deleting = some cb := by rw [hb1]
  have hkb : getKidOut b1.me.ext.kids ca.inSpi = some ca' := by rw [kb1]; exact h.mirror.lookup_eq h.nda ca ca' ha ha' hva
  have hka : getKidOut a1.me.ext.kids cb.inSpi = some cb' := by
    rw [ka1]; exact h.mirror.symm.lookup_eq h.ndb cb cb' hb hb' hvb
  have hreqB := processInformationalRequest_delete a.me.core ca.proposal.proto ca.inSpi b1 ca' (by rw [sb1]; decide) hpa hkb hpa'
  have hreqA := processInformationalRequest_delete b.me.core cb.proposal.proto cb.inSpi a1 cb' (by rw [sa1]; decide) hpb hka hpb'
  have hca'1 : ca' ∈ b1.me.ext.kids := by rw [kb1]; exact ha'
  have hcb'1 : cb' ∈ a1.me.ext.kids := by rw [ka1]; exact hb'
  have hub := untrackChild_mem ca' b1 hca'1
  have hua := untrackChild_mem cb' a1 hcb'1
  generalize hB2 : (untrackChild ca' b1).2 = b2 at hreqB
  generalize hA2 : (untrackChild cb' a1).2 = a2 at hreqA
  rw [hub] at hB2; rw [hua] at hA2; dsimp only at hB2 hA2
  have ka2 : a2.me.ext.kids = removeKid a.me.ext.kids cb' := by rw [← hA2]; simp [XSa.setKids, ka1]
  have kb2 : b2.me.ext.kids = removeKid b.me.ext.kids ca' := by rw [← hB2]; simp [XSa.setKids, kb1]
  have sa2 : a2.me.core.st = stDEL_CHILD_REQ_SENT := by rw [← hA2]; simp [XSa.setKids, sa1]
  have sb2 : b2.me.core.st = stDEL_CHILD_REQ_SENT := by rw [← hB2]; simp [XSa.setKids, sb1]
  have da2 : a2.me.ext.deleting = some ca := by rw [← hA2]; simp [XSa.setKids, da1]
  have db2 : b2.me.ext.deleting = some cb := by rw [← hB2]; simp [XSa.setKids, db1]
  -- the answers: each end still has the CHILD_SA it asked to delete, and removes it now
  have hca2 : ca ∈ a2.me.ext.kids := by rw [ka2]; exact mem_removeKid_of_ne ha (Ne.symm hdiff)
  have hcb2 : cb ∈ b2.me.ext.kids := by rw [kb2]; exact mem_removeKid_of_ne hb (Ne.symm hdiffb)
  have hra3 := processInformationalResponse_delete b2.me.core [(ca.proposal.proto, [ca'.inSpi])] a2 ca sa2 da2
  have hrb3 := processInformationalResponse_delete a2.me.core [(cb.proposal.proto, [cb'.inSpi])] b2 cb sb2 db2
  simp only [List.map_cons, List.map_nil] at hra3 hrb3
  have ka3 : (setState stESTABLISHED (untrackChild ca a2).2).2.me.ext.kids = removeKid (removeKid a.me.ext.kids cb') ca := by
    rw [untrackChild_mem ca a2 hca2]; simp only [setState, modCore, HM.modify, XSa.setKids, ka2]
  have kb3 : (setState stESTABLISHED (untrackChild cb b2).2).2.me.ext.kids = removeKid (removeKid b.me.ext.kids ca') cb := by
    rw [untrackChild_mem cb b2 hcb2]; simp only [setState, modCore, HM.modify, XSa.setKids, kb2]
  refine ⟨(setState stESTABLISHED (untrackChild ca a2).2).2, (setState stESTABLISHED (untrackChild cb b2).2).2, ?_, ?_, ka3, kb3⟩
  · unfold crossingDeleteExchange
    rw [hA1, hB1]; subst hra; subst hrb; dsimp only
    rw [hreqB, hreqA]; dsimp only
    rw [hra3, hrb3]
  · -- agreement: two pairs removed
    have h1 : Half (removeKid a.me.ext.kids cb') (removeKid b.me.ext.kids cb) :=
      h.done.half.remove cb' cb hb' hb (view_eq_peerView_symm hvb)
    have hca'2 : ca' ∈ removeKid b.me.ext.kids cb := mem_removeKid_of_ne ha' hdiffb
    have hca3 : ca ∈ removeKid a.me.ext.kids cb' := mem_removeKid_of_ne ha (Ne.symm hdiff)
    have h2 := h1.remove ca ca' hca3 hca'2 hva
    -- the responder removed them in the other order
    have hcomm : removeKid (removeKid b.me.ext.kids cb) ca' = removeKid (removeKid b.me.ext.kids ca') cb := by
      unfold removeKid
      apply List.eraseP_comm
      intro x _
      by_cases h1 : childEq cb x = true
      · right; intro h2
        have e1 := childEq_view h1
        have e2 := childEq_view h2
        simp only [Child.view, Prod.mk.injEq] at e1 e2
        exact hdiffb (e1.1.trans e2.1.symm)
      · left; exact h1
    refine ⟨by simp [setState, modCore, HM.modify], by simp [setState, modCore, HM.modify], ?_, ?_, ?_, ?_, ?_, ?_⟩
    all_goals try rw [ka3]
    all_goals try rw [kb3]
    · rw [← hcomm]; exact h2.mirror
    · exact h2.nda
    · exact removeKid_nodup _ _ (removeKid_nodup _ _ h.ndb)
    · exact h2.protoa
    · rw [← hcomm]; exact h2.protob
    · rw [← hcomm]; exact h2.paired

/-! ### sessions with exchanges that cross -/

/-- a step of a session: a conversation started by one end (`SessOp`), or two that cross -/
inductive XOp where
  | one (op : SessOp)
  | crossChild (ca0 cb0 : Child) (i j : Option Nat)      -- both ends ask at once: creations, or rekeys of their i-th / j-th CHILD_SA
  | crossDelete (i j : Nat)                                -- both ends delete at once: `a` its i-th, `b` its j-th CHILD_SA
  deriving Repr

def xStep (now fuel : Nat) (ab : HSt × HSt) : XOp → Option (HSt × HSt)
  | .one op => sessStep now fuel ab op
  | .crossChild ca0 cb0 i j =>
    let rka := i.bind fun k => ab.1.me.ext.kids[k]?
    let rkb := j.bind fun k => ab.2.me.ext.kids[k]?
    if ¬ (ca0.proposal.proto = 2 ∨ ca0.proposal.proto = 3) ∨ ¬ (cb0.proposal.proto = 2 ∨ cb0.proposal.proto = 3) then none
    else (crossingChildExchange now ca0 cb0 rka rkb ab.1 ab.2).bind fun x =>
      if (x.1.me.ext.kids.map Child.inSpi).Nodup ∧ (x.2.me.ext.kids.map Child.inSpi).Nodup then some x else none
  | .crossDelete i j =>
    match ab.1.me.ext.kids[i]?, ab.2.me.ext.kids[j]? with
    | some ca, some cb => crossingDeleteExchange ca cb ab.1 ab.2
    | _, _ => some ab

def xRun (now fuel : Nat) (ab : HSt × HSt) : List XOp → Option (HSt × HSt)
  | [] => some ab
  | op :: rest => match xStep now fuel ab op with
    | some ab' => xRun now fuel ab' rest
    | none => none

theorem Agree.crossDelete {a b : HSt} (h : Agree a b) (ca cb : Child) (ha : ca ∈ a.me.ext.kids) (hb : cb ∈ b.me.ext.kids) :
    ∃ a3 b3, crossingDeleteExchange ca cb a b = some (a3, b3) ∧ Agree a3 b3 := by
  obtain ⟨ca', _, hca', hva⟩ := h.mirror.lookup h.nda ca ha
  obtain ⟨cb', _, hcb', hvb⟩ := h.mirror.symm.lookup h.ndb cb hb
  by_cases hsame : ca.inSpi = cb'.inSpi
  · -- the same CHILD_SA from both ends
    have hcc : cb' = ca := eq_of_nodup_map Child.inSpi _ h.nda hcb' ha hsame.symm
    subst hcc
    obtain ⟨a3, b3, he, ka, kb, sa, sb, _, _⟩ :=
      crossingDeleteExchange_eq cb' cb a b h.sta h.stb h.mirror h.nda h.ndb ha hb (view_eq_peerView_symm hvb) (h.protoa _ ha)
    refine ⟨a3, b3, he, sa, sb, ?_, ?_, ?_, ?_, ?_, ?_⟩
    · rw [ka, kb]; exact h.mirror.remove (view_nodup_of_inSpi h.nda) _ _ ha hb (view_eq_peerView_symm hvb)
    · rw [ka]; exact removeKid_nodup _ _ h.nda
    · rw [kb]; exact removeKid_nodup _ _ h.ndb
    · intro e he'; rw [ka] at he'; exact h.protoa e (mem_of_mem_removeKid he')
    · intro e he'; rw [kb] at he'; exact h.protob e (mem_of_mem_removeKid he')
    · rw [ka, kb]; exact h.paired.remove _ _
  · obtain ⟨a3, b3, he, hag, _, _⟩ := crossingDeleteDifferent_agree ca cb ca' cb' a b h ha hb hca' hcb' hva hvb hsame
    exact ⟨a3, b3, he, hag⟩

theorem Agree.xStep {a b a' b' : HSt} (h : Agree a b) (now fuel : Nat) (op : XOp) (hx : xStep now fuel (a, b) op = some (a', b')) :
    Agree a' b' := by
  cases op with
  | one op => exact Agree.sessRun now fuel [op] a b a' b' h (by simp only [PyIkev2.Impl.sessRun]; simp only [PyIkev2.Impl.xStep] at hx; rw [hx])
  | crossChild ca0 cb0 i j =>
    simp only [PyIkev2.Impl.xStep] at hx
    split at hx
    · cases hx
    · rename_i hp
      have hpa : ca0.proposal.proto = 2 ∨ ca0.proposal.proto = 3 := Decidable.byContradiction fun hh => hp (Or.inl hh)
      have hpb : cb0.proposal.proto = 2 ∨ cb0.proposal.proto = 3 := Decidable.byContradiction fun hh => hp (Or.inr hh)
      cases he : crossingChildExchange now ca0 cb0 (i.bind fun k => a.me.ext.kids[k]?) (j.bind fun k => b.me.ext.kids[k]?) a b with
      | none => rw [he] at hx; cases hx
      | some x =>
        rw [he] at hx; simp only [Option.bind_some] at hx
        split at hx
        · rename_i hnd; cases hx
          exact crossingChildExchange_agree now ca0 cb0 _ _ a b _ _ h hpa hpb he hnd.1 hnd.2
        · cases hx
  | crossDelete i j =>
    simp only [PyIkev2.Impl.xStep] at hx
    cases hi : a.me.ext.kids[i]? with
    | none => simp only [hi] at hx; cases hx; exact h
    | some ca =>
      cases hj : b.me.ext.kids[j]? with
      | none => simp only [hi, hj] at hx; cases hx; exact h
      | some cb =>
        simp only [hi, hj] at hx
        obtain ⟨a3, b3, he, hag⟩ := h.crossDelete ca cb (List.mem_of_getElem? hi) (List.mem_of_getElem? hj)
        rw [he] at hx; cases hx; exact hag

/-- **sessions with crossing exchanges**: conversations started by one end (CHILD_SA creations, rekeys, deletions, IKE_SA rekeys) and pairs
    of CHILD_SA requests or deletes that cross, in any order: if the session runs to the end, the ends agree at the end -/
theorem Agree.xRun (now fuel : Nat) : ∀ (ops : List XOp) (a b a' b' : HSt), Agree a b →
    xRun now fuel (a, b) ops = some (a', b') → Agree a' b'
  | [], a, b, a', b', h, hx => by simp only [PyIkev2.Impl.xRun] at hx; cases hx; exact h
  | op :: rest, a, b, a', b', h, hx => by
    simp only [PyIkev2.Impl.xRun] at hx
    cases hs : PyIkev2.Impl.xStep now fuel (a, b) op with
    | none => rw [hs] at hx; cases hx
    | some ab1 =>
      rw [hs] at hx; dsimp only at hx
      obtain ⟨a1, b1⟩ := ab1
      exact Agree.xRun now fuel rest a1 b1 a' b' (h.xStep now fuel op hs) hx

end PyIkev2.Impl
