/-
  What the responder's CHILD_SA handler creates (C12, C11 at the level of the concrete handler model).
-/
import PyIkev2.Proofs.Handlers
import PyIkev2.Proofs.Selectors
import PyIkev2.Proofs.Negotiate

namespace PyIkev2.Impl
open PyIkev2

variable {α β : Type}

/-- what the property asks of a CHILD_SA record the responder creates for `request` under the connection `conf`:
    its mode is the mode of a policy entry, which is the mode the request asked for; its selectors lie inside that entry and
    inside what the request offered; its suite is drawn from the entry's proposal and from one of the offered proposals -/
def RespKidOk (conf : Conf) (request : Msg) (k : Child) : Prop :=
  ∃ pol ∈ conf.protect, ∃ a b : TS, k.tsi = [a] ∧ k.tsr = [b] ∧
    k.mode = pol.mode ∧ pol.mode = (if (getNotifies request nUSE_TRANSPORT_MODE true).isEmpty then 1 else 0) ∧
    tsSubset a pol.myTs = true ∧ tsSubset b pol.peerTs = true ∧
    (∃ tsr, payTS request ptTSr true = .ok tsr ∧ ∃ x ∈ tsr, tsSubset a x = true) ∧
    (∃ tsi, payTS request ptTSi true = .ok tsi ∧ ∃ y ∈ tsi, tsSubset b y = true) ∧
    (∀ t ∈ k.proposal.transforms, t ∈ pol.proposal.transforms) ∧
    (∃ sa, paySA request true = .ok sa ∧ ∃ p ∈ sa, ∀ t ∈ k.proposal.transforms, t ∈ p.transforms)

/-- the configuration is what it was and every CHILD_SA record is an old one or one the property accepts -/
def KidsI (conf : Conf) (request : Msg) (kids0 : List Child) (s : HSt) : Prop :=
  s.me.ext.conf = conf ∧ ∀ k ∈ s.me.ext.kids, k ∈ kids0 ∨ RespKidOk conf request k

theorem intersection_within (mine peer p : Proposal) (h : intersection mine peer = some p) :
    ∀ t ∈ p.transforms, t ∈ mine.transforms ∧ t ∈ peer.transforms := by
  unfold intersection at h
  split at h
  · split at h
    · cases h
      intro t ht
      rcases selLoop_mem _ _ _ t ht with h | h
      · cases h
      · exact h
    · cases h
  · cases h

theorem selectBest_within (mine : Proposal) (ps : List Proposal) (r : Proposal) (h : selectBest mine ps = some r) :
    ∃ p ∈ ps, ∀ t ∈ r.transforms, t ∈ mine.transforms ∧ t ∈ p.transforms := by
  induction ps with
  | nil => cases h
  | cons p rest ih =>
    unfold selectBest at h
    cases hi : intersection mine p with
    | some i =>
      rw [hi] at h
      simp only [Option.some.injEq] at h
      subst h
      exact ⟨p, by simp, intersection_within mine p i hi⟩
    | none =>
      rw [hi] at h
      obtain ⟨q, hq, hw⟩ := ih h
      exact ⟨q, by simp [hq], hw⟩

theorem withoutDh_sub (p : Proposal) : ∀ t ∈ (withoutDh p).transforms, t ∈ p.transforms := by
  intro t ht
  simp only [withoutDh, List.mem_filter] at ht
  exact ht.1

macro "keeps_k" : tactic => `(tactic| repeat' (first
  | exact Keeps.pure _
  | exact Keeps.raise _
  | exact Keeps.read _
  | exact Keeps.liftE _
  | exact KeepsOpt.none
  | apply KeepsOpt.some
  | (simp only [keepsKernel]; done)
  | (apply Keeps.bind_liftE; intro _ _)
  | (apply Keeps.bind_getMe (fun x => x.ext.conf = _) (fun s h => h.1); intro _ _)
  | apply Keeps.bind
  | apply Keeps.tryCatch
  | intro _
  | split
  | (simp only [modCore, modExt, modMe, setState, emitNl, markBad]; apply Keeps.modify; intro s h;
     simp_all [KidsI, XSa.setKids]; done)
  | (apply Keeps.modify; intro s h; simp_all [KidsI, XSa.setKids]; done)
  | dsimp only))

section kids
variable (conf : Conf) (request : Msg) (kids0 : List Child)

@[keepsKernel] theorem popVal_k : Keeps (KidsI conf request kids0) popVal := by
  constructor; intro s h; unfold popVal; split <;> exact h
@[keepsKernel] theorem markBad_k : Keeps (KidsI conf request kids0) markBad := by unfold markBad; keeps_k
@[keepsKernel] theorem popBytes_k : Keeps (KidsI conf request kids0) popBytes := by unfold popBytes; keeps_k
@[keepsKernel] theorem popBytesOrFail_k : Keeps (KidsI conf request kids0) popBytesOrFail := by unfold popBytesOrFail; keeps_k
@[keepsKernel] theorem popOk_k : Keeps (KidsI conf request kids0) popOk := by unfold popOk; keeps_k
@[keepsKernel] theorem popNum_k : Keeps (KidsI conf request kids0) popNum := by unfold popNum; keeps_k
@[keepsKernel] theorem getMe_k : Keeps (KidsI conf request kids0) getMe := by unfold getMe; keeps_k
@[keepsKernel] theorem emitNl_k (l) : Keeps (KidsI conf request kids0) (emitNl l) := by keeps_k
@[keepsKernel] theorem childNonce_k (m) : Keeps (KidsI conf request kids0) (childNonce m) := by unfold childNonce; keeps_k
@[keepsKernel] theorem childKe_k (m p) : Keeps (KidsI conf request kids0) (childKe m p) := by unfold childKe; keeps_k
@[keepsKernel] theorem childRekeyPrelude_k (m sa a b) : Keeps (KidsI conf request kids0) (childRekeyPrelude m sa a b) := by
  unfold childRekeyPrelude; keeps_k

/-- installing and tracking a record the property accepts -/
theorem trackChild_k (k : Child) (hk : RespKidOk conf request k) : Keeps (KidsI conf request kids0) (trackChild k) := by
  constructor
  intro s h
  rcases trackChild_me k s with h1 | h1
  · exact ⟨by rw [h1]; exact h.1, by rw [h1]; exact h.2⟩
  · refine ⟨by rw [h1]; exact h.1, ?_⟩
    rw [h1]
    intro x hx
    simp only [XSa.setKids, List.mem_append, List.mem_singleton] at hx
    rcases hx with hx | rfl
    · exact h.2 x hx
    · exact Or.inr hk

/-- removing a record keeps "old or accepted" -/
@[keepsKernel] theorem untrackChild_k (k : Child) : Keeps (KidsI conf request kids0) (untrackChild k) := by
  constructor
  intro s h
  rcases untrackChild_me k s with h1 | h1
  · exact ⟨by rw [h1]; exact h.1, by rw [h1]; exact h.2⟩
  · rw [KidsI, h1]
    refine ⟨h.1, ?_⟩
    intro x hx
    simp only [XSa.setKids, removeKid] at hx
    exact h.2 x (List.mem_of_mem_eraseP hx)

/-- the path conditions of `_process_create_child_sa_negotiation_req` justify the record it creates -/
theorem respKid_ok (sa : List Proposal) (tsis tsrs : List TS) (hsa : paySA request true = .ok sa)
    (htsi : payTS request ptTSi true = .ok tsis) (htsr : payTS request ptTSr true = .ok tsrs)
    (x : XSa) (hx : x.ext.conf = conf) (i : Nat) (ctsr ctsi : TS)
    (hg : getIpsecConf tsis tsrs (x.ext.conf.protect.map policyOf) = some (i, ctsr, ctsi))
    (pol : Protect) (hp : x.ext.conf.protect[i]? = some pol) (mode : Nat) (hm : pol.mode = mode)
    (hmode : mode = if (getNotifies request nUSE_TRANSPORT_MODE true).isEmpty then 1 else 0)
    (mine : Proposal) (hmine : ∀ t ∈ mine.transforms, t ∈ pol.proposal.transforms)
    (chosen : Proposal) (hs : selectBest mine sa = some chosen) (spi : Bytes) :
    RespKidOk conf request
      { inSpi := spi, outSpi := chosen.spi, orig := pol.proposal,
        proposal := { num := chosen.num, proto := chosen.proto, spi := spi, transforms := chosen.transforms },
        tsi := [ctsr], tsr := [ctsi], mode := mode, lifetime := pol.lifetime } := by
  obtain ⟨tsi, htsi', tsr, htsr', c, _, hci, h1, h2, h3, h4⟩ := getIpsecConf_narrows tsis tsrs _ i ctsr ctsi hg
  have hc : c = policyOf pol := by
    rw [List.getElem?_map, hp] at hci
    simpa using hci.symm
  subst hc
  have hpol : pol ∈ conf.protect := by rw [← hx]; exact List.mem_of_getElem? hp
  obtain ⟨p, hp', hw⟩ := selectBest_within mine sa chosen hs
  refine ⟨pol, hpol, ctsr, ctsi, rfl, rfl, hm.symm, by rw [hm]; exact hmode, h4, h3, ⟨tsrs, htsr, tsr, htsr', h2⟩, ⟨tsis, htsi, tsi, htsi', h1⟩, ?_, ?_⟩
  · intro t ht; exact hmine t (hw t ht).1
  · exact ⟨sa, hsa, p, hp', fun t ht => (hw t ht).2⟩

/-- the record `childCreateResponder` builds is accepted by the property when its arguments are what the look-ups justified -/
theorem childCreateResponder_k (chosen : Proposal) (ctsr ctsi : TS) (mode : Nat) (pol : Protect)
    (hk : ∀ spi : Bytes, RespKidOk conf request
      { outSpi := chosen.spi, inSpi := spi, proposal := { chosen with spi := spi }, tsi := [ctsr], tsr := [ctsi], mode := mode,
        lifetime := pol.lifetime, orig := pol.proposal }) :
    Keeps (KidsI conf request kids0) (childCreateResponder chosen ctsr ctsi mode pol) := by
  unfold childCreateResponder
  apply Keeps.bind (popBytes_k conf request kids0)
  intro spi
  apply Keeps.bind (trackChild_k conf request kids0 _ (hk spi))
  intro _
  exact Keeps.pure _

theorem childNegotiationReqBody_k : Keeps (KidsI conf request kids0) (childNegotiationReqBody request) := by
  unfold childNegotiationReqBody
  keeps_k
  all_goals (
    simp only [ne_eq, Decidable.not_not] at *
    apply trackChild_k
    refine respKid_ok conf request _ _ _ ‹paySA request true = _› ‹payTS request ptTSi true = _› ‹payTS request ptTSr true = _›
      _ ‹_ = conf› _ _ _ ‹getIpsecConf _ _ _ = _› _ ‹_ = some _› _ ‹_› ?_ _ ?_ _ ‹selectBest _ _ = _› _
    · simp_all
    · intro t h; split at h
      · exact withoutDh_sub _ t h
      · exact h)

@[keepsKernel] theorem childNegotiationReqBody_k' : Keeps (KidsI conf request kids0) (childNegotiationReqBody request) :=
  childNegotiationReqBody_k conf request kids0

@[keepsKernel] theorem getPayload_k (m pt e) : Keeps (KidsI conf request kids0) (getPayload m pt e) := Keeps.liftE _
@[keepsKernel] theorem popAuthGen_k : Keeps (KidsI conf request kids0) popAuthGen := by unfold popAuthGen; keeps_k
@[keepsKernel] theorem popAuthVerify_k : Keeps (KidsI conf request kids0) popAuthVerify := by unfold popAuthVerify; keeps_k
@[keepsKernel] theorem abortOnErrorNotifies_k (m e i) : Keeps (KidsI conf request kids0) (abortOnErrorNotifies m e i) := by
  unfold abortOnErrorNotifies; keeps_k
@[keepsKernel] theorem setState_k (st) : Keeps (KidsI conf request kids0) (setState st) := by keeps_k
@[keepsKernel] theorem checkInStates_k (l) : Keeps (KidsI conf request kids0) (checkInStates l) := by unfold checkInStates; keeps_k
@[keepsKernel] theorem assertState_k (l) : Keeps (KidsI conf request kids0) (assertState l) := by unfold assertState; keeps_k
@[keepsKernel] theorem getSlot_k (sl) : Keeps (KidsI conf request kids0) (getSlot sl) := by
  cases sl
  · simp only [getSlot]; keeps_k
  · constructor; intro s h; simp only [getSlot]; split <;> exact h
  · constructor; intro s h; simp only [getSlot]; split <;> exact h

/-- the IKE_SA rekey hand-over leaves this object without CHILD_SA records -/
@[keepsKernel] theorem handOver_k (b) : Keeps (KidsI conf request kids0) (handOver b) := by
  unfold handOver
  apply Keeps.modify
  intro s h
  refine ⟨by simpa [XSa.setKids] using h.1, ?_⟩
  intro x hx
  simp [XSa.setKids] at hx

/-- a modification of an object that leaves its configuration and its CHILD_SA records alone -/
def KidSafe (f : XSa → XSa) : Prop := ∀ x, (f x).ext.conf = x.ext.conf ∧ (f x).ext.kids = x.ext.kids

theorem modSlot_k (sl) (f : XSa → XSa) (hf : KidSafe f) : Keeps (KidsI conf request kids0) (modSlot sl f) := by
  unfold modSlot; apply Keeps.modify; intro s h
  cases sl
  · have := hf s.me; simp_all [KidsI]
  · exact h
  · exact h

@[keepsKernel] theorem newXSa_k (cf now i p a b) : Keeps (KidsI conf request kids0) (newXSa cf now i p a b) := by unfold newXSa; keeps_k

macro "keeps_k2" : tactic => `(tactic| repeat' (first
  | exact Keeps.pure _
  | exact Keeps.raise _
  | exact Keeps.read _
  | exact Keeps.liftE _
  | exact KeepsOpt.none
  | apply KeepsOpt.some
  | (simp only [keepsKernel]; done)
  | (apply modSlot_k; intro x; simp; done)
  | (apply Keeps.bind_liftE; intro _ _)
  | apply Keeps.bind
  | apply Keeps.tryCatch
  | intro _
  | split
  | (simp only [modCore, modExt, modMe, setState, emitNl, markBad]; apply Keeps.modify; intro s h;
     simp_all [KidsI, XSa.setKids]; done)
  | (apply Keeps.modify; intro s h; simp_all [KidsI, XSa.setKids]; done)
  | dsimp only))

@[keepsKernel] theorem cookieGate_k (x m) : Keeps (KidsI conf request kids0) (cookieGate x m) := by unfold cookieGate; keeps_k2
@[keepsKernel] theorem negotiateIkeRequest_k (sl m e) : Keeps (KidsI conf request kids0) (negotiateIkeRequest sl m e) := by
  unfold negotiateIkeRequest; keeps_k2
@[keepsKernel] theorem childNegotiationReq_k : Keeps (KidsI conf request kids0) (childNegotiationReq request) := by
  unfold childNegotiationReq; keeps_k2
@[keepsKernel] theorem deleteSpis_k (proto) (l acc) : Keeps (KidsI conf request kids0) (deleteSpis proto l acc) := by
  induction l generalizing acc with
  | nil => unfold deleteSpis; keeps_k2
  | cons spi rest ih =>
    unfold deleteSpis
    keeps_k2
    all_goals exact ih _
@[keepsKernel] theorem deleteLoop_k (l acc) : Keeps (KidsI conf request kids0) (deleteLoop l acc) := by
  induction l generalizing acc with
  | nil => unfold deleteLoop; keeps_k2
  | cons p rest ih =>
    unfold deleteLoop
    keeps_k2
    all_goals exact ih _
@[keepsKernel] theorem processIkeSaInitRequest_k (m) : Keeps (KidsI conf request kids0) (processIkeSaInitRequest m) := by
  unfold processIkeSaInitRequest; keeps_k2
@[keepsKernel] theorem processIkeAuthRequest_k : Keeps (KidsI conf request kids0) (processIkeAuthRequest request) := by
  unfold processIkeAuthRequest; keeps_k2
@[keepsKernel] theorem processInformationalRequest_k (m) : Keeps (KidsI conf request kids0) (processInformationalRequest m) := by
  unfold processInformationalRequest; keeps_k2
@[keepsKernel] theorem ikeRekeyRequest_k (now m p) : Keeps (KidsI conf request kids0) (ikeRekeyRequest now m p) := by
  unfold ikeRekeyRequest; keeps_k2
@[keepsKernel] theorem processCreateChildSaRequest_k (now) : Keeps (KidsI conf request kids0) (processCreateChildSaRequest now request) := by
  unfold processCreateChildSaRequest; keeps_k2

/-- every request handler, run on the request it is handed -/
theorem requestHandler_k (now h) (hh : requestHandler now request = some h) : Keeps (KidsI conf request kids0) h := by
  unfold requestHandler at hh
  repeat' split at hh
  all_goals first | (cases hh; simp only [keepsKernel]) | (simp at hh)

end kids

/-- whatever request a request handler is run on, from whatever object and oracle tape: every CHILD_SA record tracked
    afterwards was tracked before or is one the property accepts -/
theorem requestHandler_kids (now : Nat) (request : Msg) (h : HM HRes) (hh : requestHandler now request = some h)
    (me : XSa) (succ : Option XSa) (tape : Tape) (sad : List (Bytes × Nat × Bytes)) :
    ∀ k ∈ (runH h me succ tape sad).me.ext.kids, k ∈ me.ext.kids ∨ RespKidOk me.ext.conf request k := by
  rw [runH_me]
  have hk := requestHandler_k me.ext.conf request me.ext.kids now h hh
  have := hk.keep { me := me, succ := succ, tape := tape, sad := sad } ⟨rfl, fun k hk => Or.inl hk⟩
  exact this.2

/-! ### initiator: what `_process_create_child_sa_negotiation_res` installs -/

/-- `mode` of the response as the initiator reads it -/
def responseMode (response : Msg) : Nat := if (getNotifies response nUSE_TRANSPORT_MODE true).isEmpty then 1 else 0

/-- what the property asks of a CHILD_SA record the initiator creates from `response` for its outstanding offer `cr`:
    the mode it asked for, which is also the mode of the response; one selector per side, each inside something it offered;
    a suite whose transforms were all offered; its own inbound SPI -/
def InitKidOk (cr : Child) (response : Msg) (k : Child) : Prop :=
  k.mode = cr.mode ∧ cr.mode = responseMode response ∧ k.inSpi = cr.inSpi ∧
  (∃ a b : TS, k.tsi = [a] ∧ k.tsr = [b] ∧ (∃ x ∈ cr.tsi, tsSubset a x = true) ∧ (∃ y ∈ cr.tsr, tsSubset b y = true)) ∧
  (∀ t ∈ k.proposal.transforms, t ∈ cr.proposal.transforms)

def InitI (cr : Child) (response : Msg) (kids0 : List Child) (s : HSt) : Prop :=
  (s.me.ext.creating = some cr ∨ ∃ k, InitKidOk cr response k ∧ s.me.ext.creating = some k) ∧
  ∀ k ∈ s.me.ext.kids, k ∈ kids0 ∨ InitKidOk cr response k

theorem tsSubset_trans' (a b c : TS) (h1 : tsSubset a b = true) (h2 : tsSubset b c = true) : tsSubset a c = true := by
  rw [tsSubset_iff] at *
  obtain ⟨a1, a2, a3, a4, a5, a6⟩ := h1
  obtain ⟨b1, b2, b3, b4, b5, b6⟩ := h2
  refine ⟨a1.trans b1, ?_, by omega, by omega, by omega, by omega⟩
  rcases b2 with h | h
  · exact Or.inl h
  · rcases a2 with h' | h'
    · left; rw [← h]; exact h'
    · right; rw [h', h]

theorem childResponseOk_within (mine chosen : Proposal) (h : childResponseOk mine chosen = true) :
    ∀ t ∈ chosen.transforms, t ∈ mine.transforms := by
  unfold childResponseOk at h
  cases hi : intersection mine chosen with
  | none => rw [hi] at h; cases h
  | some i =>
    rw [hi] at h
    intro t ht
    simp only [propEq, Bool.and_eq_true, decide_eq_true_eq, List.all_eq_true] at h
    have := h.2.2 t ht
    exact (intersection_within mine chosen i hi t (by simpa using this)).1

/-- the path conditions of `_process_create_child_sa_negotiation_res` justify the record it creates, whichever of the two
    shapes the outstanding offer has -/
theorem initKid_ok (cr : Child) (response : Msg) (creating : Child)
    (hc : creating = cr ∨ InitKidOk cr response creating)
    (hm : creating.mode = responseMode response) (mine : Proposal) (hmine : ∀ t ∈ mine.transforms, t ∈ creating.proposal.transforms)
    (chosen : Proposal) (hch : childResponseOk mine chosen = true) (ctsi ctsr : TS)
    (hts : initiatorTsOk creating.tsi creating.tsr ctsi ctsr = true) :
    InitKidOk cr response { creating with outSpi := chosen.spi, proposal := chosen, tsi := [ctsi], tsr := [ctsr] } := by
  simp only [initiatorTsOk, Bool.and_eq_true, List.any_eq_true] at hts
  obtain ⟨⟨x, hx, hxs⟩, ⟨y, hy, hys⟩⟩ := hts
  have hw := childResponseOk_within mine chosen hch
  rcases hc with rfl | ⟨k1, k2, k3, ⟨a, b, ka, kb, ⟨x', hx', hxa⟩, ⟨y', hy', hyb⟩⟩, k5⟩
  · exact ⟨rfl, hm, rfl, ⟨ctsi, ctsr, rfl, rfl, ⟨x, hx, hxs⟩, ⟨y, hy, hys⟩⟩, fun t ht => hmine t (hw t ht)⟩
  · refine ⟨k1, k2, k3, ⟨ctsi, ctsr, rfl, rfl, ?_, ?_⟩, fun t ht => k5 t (hmine t (hw t ht))⟩
    · rw [ka] at hx; simp only [List.mem_singleton] at hx; subst hx
      exact ⟨x', hx', tsSubset_trans' _ _ _ hxs hxa⟩
    · rw [kb] at hy; simp only [List.mem_singleton] at hy; subst hy
      exact ⟨y', hy', tsSubset_trans' _ _ _ hys hyb⟩

macro "keeps_i" : tactic => `(tactic| repeat' (first
  | exact Keeps.pure _
  | exact Keeps.raise _
  | exact Keeps.read _
  | exact Keeps.liftE _
  | exact KeepsOpt.none
  | apply KeepsOpt.some
  | (simp only [keepsInit]; done)
  | (apply Keeps.bind_liftE; intro _ _)
  | (apply Keeps.bind_getMe (fun x => x.ext.creating = some _ ∨ ∃ k, InitKidOk _ _ k ∧ x.ext.creating = some k) (fun s h => h.1); intro _ _)
  | apply Keeps.bind
  | apply Keeps.tryCatch
  | intro _
  | split
  | (simp only [modCore, modExt, modMe, setState, emitNl, markBad]; apply Keeps.modify; intro s h;
     simp_all [InitI, XSa.setKids]; done)
  | (apply Keeps.modify; intro s h; simp_all [InitI, XSa.setKids]; done)
  | dsimp only))

section init
variable (cr : Child) (response : Msg) (kids0 : List Child)

@[keepsInit] theorem popVal_i : Keeps (InitI cr response kids0) popVal := by
  constructor; intro s h; unfold popVal; split <;> exact h
@[keepsInit] theorem markBad_i : Keeps (InitI cr response kids0) markBad := by unfold markBad; keeps_i
@[keepsInit] theorem popBytes_i : Keeps (InitI cr response kids0) popBytes := by unfold popBytes; keeps_i
@[keepsInit] theorem popBytesOrFail_i : Keeps (InitI cr response kids0) popBytesOrFail := by unfold popBytesOrFail; keeps_i
@[keepsInit] theorem popOk_i : Keeps (InitI cr response kids0) popOk := by unfold popOk; keeps_i
@[keepsInit] theorem popNum_i : Keeps (InitI cr response kids0) popNum := by unfold popNum; keeps_i
@[keepsInit] theorem popAuthGen_i : Keeps (InitI cr response kids0) popAuthGen := by unfold popAuthGen; keeps_i
@[keepsInit] theorem popAuthVerify_i : Keeps (InitI cr response kids0) popAuthVerify := by unfold popAuthVerify; keeps_i
@[keepsInit] theorem getMe_i : Keeps (InitI cr response kids0) getMe := by unfold getMe; keeps_i
@[keepsInit] theorem getPayload_i (m pt e) : Keeps (InitI cr response kids0) (getPayload m pt e) := Keeps.liftE _
@[keepsInit] theorem emitNl_i (l) : Keeps (InitI cr response kids0) (emitNl l) := by keeps_i
@[keepsInit] theorem setState_i (st) : Keeps (InitI cr response kids0) (setState st) := by keeps_i
@[keepsInit] theorem abortOnErrorNotifies_i (m e i) : Keeps (InitI cr response kids0) (abortOnErrorNotifies m e i) := by
  unfold abortOnErrorNotifies; keeps_i
@[keepsInit] theorem checkInStates_i (l) : Keeps (InitI cr response kids0) (checkInStates l) := by unfold checkInStates; keeps_i
@[keepsInit] theorem assertState_i (l) : Keeps (InitI cr response kids0) (assertState l) := by unfold assertState; keeps_i

theorem trackChild_i (k : Child) (hk : InitKidOk cr response k) : Keeps (InitI cr response kids0) (trackChild k) := by
  constructor
  intro s h
  rcases trackChild_me k s with h1 | h1
  · exact ⟨by rw [h1]; exact h.1, by rw [h1]; exact h.2⟩
  · refine ⟨by rw [h1]; simpa [XSa.setKids] using h.1, ?_⟩
    rw [h1]
    intro x hx
    simp only [XSa.setKids, List.mem_append, List.mem_singleton] at hx
    rcases hx with hx | rfl
    · exact h.2 x hx
    · exact Or.inr hk

@[keepsInit] theorem untrackChild_i (k : Child) : Keeps (InitI cr response kids0) (untrackChild k) := by
  constructor
  intro s h
  rcases untrackChild_me k s with h1 | h1
  · exact ⟨by rw [h1]; exact h.1, by rw [h1]; exact h.2⟩
  · rw [InitI, h1]
    refine ⟨by simpa [XSa.setKids] using h.1, ?_⟩
    intro x hx
    simp only [XSa.setKids, removeKid] at hx
    exact h.2 x (List.mem_of_mem_eraseP hx)

theorem setCreating_i (k : Child) (hk : InitKidOk cr response k) :
    Keeps (InitI cr response kids0) (modExt fun e => { e with creating := some k }) := by
  unfold modExt
  apply Keeps.modify
  intro s h
  exact ⟨Or.inr ⟨k, hk, rfl⟩, h.2⟩

theorem initKid_ok' (x : XSa) (old : Child)
    (ha : x.ext.creating = some cr ∨ ∃ k, InitKidOk cr response k ∧ x.ext.creating = some k) (heq : x.ext.creating = some old)
    (hm : old.mode = responseMode response) (mine : Proposal) (hmine : mine = old.proposal ∨ mine = withoutDh old.proposal)
    (p0 : Proposal) (hch : childResponseOk mine p0 = true) (ctsi ctsr : TS)
    (hts : initiatorTsOk old.tsi old.tsr ctsi ctsr = true) :
    InitKidOk cr response
      { inSpi := old.inSpi, outSpi := p0.spi, orig := old.orig, proposal := p0, tsi := [ctsi], tsr := [ctsr], mode := old.mode,
        lifetime := old.lifetime } := by
  have hc : old = cr ∨ InitKidOk cr response old := by
    rcases ha with h | ⟨k, hk, h⟩
    · rw [heq] at h; cases h; exact Or.inl rfl
    · rw [heq] at h; cases h; exact Or.inr hk
  have hsub : ∀ t ∈ mine.transforms, t ∈ old.proposal.transforms := by
    rcases hmine with rfl | rfl
    · exact fun t h => h
    · exact withoutDh_sub _
  exact initKid_ok cr response old hc hm mine hsub p0 hch ctsi ctsr hts

theorem childNegotiationResBody_i : Keeps (InitI cr response kids0) (childNegotiationResBody response) := by
  unfold childNegotiationResBody
  keeps_i
  all_goals (
    first
    | apply setCreating_i
    | apply trackChild_i)
  all_goals (
    simp only [ne_eq, Decidable.not_not] at *
    refine initKid_ok' cr response _ _ ‹_› ‹_› ?_ _ ?_ _ ‹childResponseOk _ _ = true› _ _ ‹initiatorTsOk _ _ _ _ = true›
    · simp_all [responseMode]
    · first
      | exact Or.inl rfl
      | exact Or.inr rfl)

attribute [keepsInit] childNegotiationResBody_i

@[keepsInit] theorem getSlot_i (sl) : Keeps (InitI cr response kids0) (getSlot sl) := by
  cases sl
  · simp only [getSlot]; keeps_i
  · constructor; intro s h; simp only [getSlot]; split <;> exact h
  · constructor; intro s h; simp only [getSlot]; split <;> exact h

@[keepsInit] theorem handOver_i (b) : Keeps (InitI cr response kids0) (handOver b) := by
  unfold handOver
  apply Keeps.modify
  intro s h
  refine ⟨by simpa [XSa.setKids] using h.1, ?_⟩
  intro x hx
  simp [XSa.setKids] at hx

/-- a modification of an object that leaves its outstanding offer and its CHILD_SA records alone -/
def InitSafe (f : XSa → XSa) : Prop := ∀ x, (f x).ext.creating = x.ext.creating ∧ (f x).ext.kids = x.ext.kids

theorem modSlot_i (sl) (f : XSa → XSa) (hf : InitSafe f) : Keeps (InitI cr response kids0) (modSlot sl f) := by
  unfold modSlot; apply Keeps.modify; intro s h
  cases sl
  · have := hf s.me; simp_all [InitI]
  · exact h
  · exact h

macro "keeps_i2" : tactic => `(tactic| repeat' (first
  | exact Keeps.pure _
  | exact Keeps.raise _
  | exact Keeps.read _
  | exact Keeps.liftE _
  | exact KeepsOpt.none
  | apply KeepsOpt.some
  | (simp only [keepsInit]; done)
  | (apply modSlot_i; intro x; simp; done)
  | (apply Keeps.bind_liftE; intro _ _)
  | apply Keeps.bind
  | apply Keeps.tryCatch
  | intro _
  | split
  | (simp only [modCore, modExt, modMe, setState, emitNl, markBad]; apply Keeps.modify; intro s h;
     simp_all [InitI, XSa.setKids]; done)
  | (apply Keeps.modify; intro s h; simp_all [InitI, XSa.setKids]; done)
  | dsimp only))

@[keepsInit] theorem childNegotiationRes_i : Keeps (InitI cr response kids0) (childNegotiationRes response) := by
  unfold childNegotiationRes; keeps_i2
@[keepsInit] theorem generateChildNegotiation_i (k) : Keeps (InitI cr response kids0) (generateChildNegotiation k) := by
  unfold generateChildNegotiation; keeps_i2
@[keepsInit] theorem generateDeleteChildSaRequest_i (k) : Keeps (InitI cr response kids0) (generateDeleteChildSaRequest k) := by
  unfold generateDeleteChildSaRequest; keeps_i2
@[keepsInit] theorem generateDeleteIkeSaRequest_i : Keeps (InitI cr response kids0) generateDeleteIkeSaRequest := by
  unfold generateDeleteIkeSaRequest; keeps_i2
@[keepsInit] theorem handleInvalidKe_i (d) : Keeps (InitI cr response kids0) (handleInvalidKe d) := by
  unfold handleInvalidKe; keeps_i2
@[keepsInit] theorem negotiateIkeResponse_i (sl m e r) : Keeps (InitI cr response kids0) (negotiateIkeResponse sl m e r) := by
  unfold negotiateIkeResponse; keeps_i2
@[keepsInit] theorem generateIkeAuthRequest_i : Keeps (InitI cr response kids0) generateIkeAuthRequest := by
  unfold generateIkeAuthRequest; keeps_i2
@[keepsInit] theorem processIkeSaInitResponse_i (m) : Keeps (InitI cr response kids0) (processIkeSaInitResponse m) := by
  unfold processIkeSaInitResponse; keeps_i2
@[keepsInit] theorem processIkeAuthResponse_i : Keeps (InitI cr response kids0) (processIkeAuthResponse response) := by
  unfold processIkeAuthResponse; keeps_i2
@[keepsInit] theorem ikeRekeyResponse_i (now x) : Keeps (InitI cr response kids0) (ikeRekeyResponse now response x) := by
  unfold ikeRekeyResponse; keeps_i2
@[keepsInit] theorem childSaResponse_i (prev) : Keeps (InitI cr response kids0) (childSaResponse prev response) := by
  unfold childSaResponse; keeps_i2
@[keepsInit] theorem processCreateChildSaResponse_i (now) : Keeps (InitI cr response kids0) (processCreateChildSaResponse now response) := by
  unfold processCreateChildSaResponse; keeps_i2
@[keepsInit] theorem processInformationalResponse_i (m) : Keeps (InitI cr response kids0) (processInformationalResponse m) := by
  unfold processInformationalResponse; keeps_i2

theorem responseHandler_i (now h) (hh : responseHandler now response = some h) : Keeps (InitI cr response kids0) h := by
  unfold responseHandler at hh
  repeat' split at hh
  all_goals first | (cases hh; simp only [keepsInit]) | (simp at hh)

end init

/-- whatever response a response handler is run on, from whatever object and oracle tape: every CHILD_SA record tracked
    afterwards was tracked before or is what the property accepts for the outstanding offer -/
theorem responseHandler_kids (now : Nat) (response : Msg) (h : HM HRes) (hh : responseHandler now response = some h)
    (me : XSa) (succ : Option XSa) (tape : Tape) (sad : List (Bytes × Nat × Bytes)) (cr : Child) (hcr : me.ext.creating = some cr) :
    ∀ k ∈ (runH h me succ tape sad).me.ext.kids, k ∈ me.ext.kids ∨ InitKidOk cr response k := by
  rw [runH_me]
  have hk := responseHandler_i cr response me.ext.kids now h hh
  have := hk.keep { me := me, succ := succ, tape := tape, sad := sad } ⟨Or.inl hcr, fun k hk => Or.inl hk⟩
  exact this.2

end PyIkev2.Impl
