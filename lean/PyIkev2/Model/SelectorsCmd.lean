/- driver commands for the selector model -/
import PyIkev2.Model.Selectors
import PyIkev2.Model.Wire

namespace PyIkev2.SelectorsCmd
open PyIkev2 PyIkev2.Impl

def policy : Wire.P Policy := do
  let a ← Wire.sel; let b ← Wire.sel; let m ← Wire.nat
  pure { myTs := a, peerTs := b, mode := m }

def run {α} (p : Wire.P α) (args : List String) : Option α := do
  let (a, left) ← p.run args
  if left ≠ [] then none else pure a

def cmd (c : String) (args : List String) : Option String :=
  match c with
  | "tssub" => do
      let (a, b) ← run (do let a ← Wire.sel; let b ← Wire.sel; pure (a, b)) args
      pure (if tsSubset a b then "1" else "0")
  | "getnet" => do
      let (w, lo, hi) ← run (do let w ← Wire.nat; let lo ← Wire.nat; let hi ← Wire.nat; pure (w, lo, hi)) args
      let r := getNetwork w lo hi
      pure (toString r.1 ++ " " ++ toString r.2)
  | "fromnet" => do
      let (w, b, p, port) ← run (do let w ← Wire.nat; let b ← Wire.nat; let p ← Wire.nat; let q ← Wire.nat; pure (w, b, p, q)) args
      let r := fromNetwork w b p port
      pure (toString r.1 ++ " " ++ toString r.2.1 ++ " " ++ toString r.2.2.1 ++ " " ++ toString r.2.2.2)
  | "getport" => do
      let (a, b) ← run (do let a ← Wire.nat; let b ← Wire.nat; pure (a, b)) args
      pure (toString (getPort a b))
  | "ipsecconf" => do
      let (tsis, tsrs, ps) ← run (do
        let a ← Wire.listOf Wire.sel; let b ← Wire.listOf Wire.sel; let c ← Wire.listOf policy; pure (a, b, c)) args
      pure (match getIpsecConf tsis tsrs ps with
        | none => "none"
        | some (i, tsr, tsi) => Wire.join ([toString i] ++ Wire.rSel tsr ++ Wire.rSel tsi))
  | "inits" => do
      let (a, b, x, y) ← run (do
        let a ← Wire.listOf Wire.sel; let b ← Wire.listOf Wire.sel; let x ← Wire.sel; let y ← Wire.sel; pure (a, b, x, y)) args
      pure (if initiatorTsOk a b x y then "1" else "0")
  | _ => none

end PyIkev2.SelectorsCmd
