/-
  Executable model of the key schedule: `Prf.prfplus` (crypto.py) and the two key-split sites
  of ikesa.py (`generate_ike_sa_key_material`, `generate_child_sa_key_material`), parametric in
  the prf.  The split order, the Keyring construction and the role assignment are *interpreted*
  from the data-flow facts extracted from the current source (`Gen.Crypto`).
-/
import PyIkev2.Prim
import PyIkev2.Gen.Crypto

namespace PyIkev2.Impl
open PyIkev2

abbrev PrfFn := Bytes → Bytes → Bytes

/-- `Prf.prfplus`: the `while len(result) < size` loop; `i.to_bytes(1, 'big')` raises
    OverflowError at 256, so the loop runs at most 256 times whatever the prf returns. -/
def prfplusLoop (prf : PrfFn) (key seed : Bytes) (size : Nat) : Nat → Nat → Bytes → Bytes → Res Bytes
  | 0, _, _, _ => .hang
  | fuel + 1, i, temp, result =>
    if result.length < size then
      if i ≥ 256 then .py .overflowError
      else
        let t := prf key (temp ++ seed ++ [i])
        prfplusLoop prf key seed size fuel (i + 1) t (result ++ t)
    else .ok (result.take size)

def prfplus (prf : PrfFn) (key seed : Bytes) (size : Nat) : Res Bytes :=
  prfplusLoop prf key seed size 258 Gen.Crypto.prfplusCounterStart [] []

/-- key sizes of the negotiated transforms -/
structure Sizes where
  prf : Nat
  integ : Nat
  encr : Nat

def Sizes.of (s : Sizes) (cls : String) : Nat :=
  if cls = "prf" then s.prf else if cls = "integ" then s.integ else if cls = "encr" then s.encr else 0

/-- `unpack('>{..}s{..}s…', keymat)`: consecutive slices, named by the assignment targets -/
def splitBy (s : Sizes) : List (String × String) → Bytes → List (String × Bytes)
  | [], _ => []
  | (name, cls) :: rest, km => (name, km.take (s.of cls)) :: splitBy s rest (km.drop (s.of cls))

def lookupVal : List (String × Bytes) → String → Option Bytes
  | [], _ => none
  | (n, v) :: rest, name => if n = name then some v else lookupVal rest name

def idxOfStr : List String → String → Nat → Option Nat
  | [], _, _ => none
  | x :: xs, s, i => if x = s then some i else idxOfStr xs s (i + 1)

/-- the value a namedtuple field receives: the constructor argument at the field's position -/
def fieldVal (fields ctor : List String) (vals : List (String × Bytes)) (field : String) : Option Bytes :=
  match idxOfStr fields field 0 with
  | some i => match ctor[i]? with
      | some arg => lookupVal vals arg
      | none => none
  | none => none

structure Keyring where
  skD : Option Bytes
  skAi : Option Bytes
  skAr : Option Bytes
  skEi : Option Bytes
  skEr : Option Bytes
  skPi : Option Bytes
  skPr : Option Bytes
  deriving DecidableEq, Repr

def mkKeyring (ctor : List String) (vals : List (String × Bytes)) : Keyring :=
  let f := fieldVal Gen.Crypto.keyringFields ctor vals
  { skD := f "sk_d", skAi := f "sk_ai", skAr := f "sk_ar", skEi := f "sk_ei", skEr := f "sk_er",
    skPi := f "sk_pi", skPr := f "sk_pr" }

/-- seed / key operands by name -/
def operand (env : List (String × Bytes)) (names : List String) : Bytes :=
  names.flatMap fun n => (lookupVal env n).getD []

/-- `generate_ike_sa_key_material` up to the Keyring (SKEYSEED, prf+, split) -/
def ikeKeyring (prf : PrfFn) (s : Sizes) (ni nr spiI spiR secret : Bytes) (oldSkD : Option Bytes) : Res Keyring :=
  let env := [("nonce_i", ni), ("nonce_r", nr), ("spi_i", spiI), ("spi_r", spiR), ("shared_secret", secret),
              ("old_sk_d", oldSkD.getD [])]
  -- `if not old_sk_d`: None and b'' both take the initial-exchange formula
  let form := if (oldSkD.getD []).isEmpty then Gen.Crypto.skeyseedInitial else Gen.Crypto.skeyseedRekey
  let skeyseed := prf (operand env form.1) (operand env form.2)
  match prfplus prf skeyseed (operand env Gen.Crypto.ikePrfplusSeed) (s.prf * 3 + s.integ * 2 + s.encr * 2) with
  | .ok km => .ok (mkKeyring Gen.Crypto.ikeKeyringCtor (splitBy s Gen.Crypto.ikeSplit km))
  | .invalidSyntax => .invalidSyntax
  | .unsupportedCritical => .unsupportedCritical
  | .py e => .py e
  | .hang => .hang

/-- (sk_e, sk_a, sk_p) of `my_crypto` / `peer_crypto` for a role -/
def cryptoKeys (k : Keyring) (which : List String) : Option Bytes × Option Bytes × Option Bytes :=
  let get (n : String) : Option Bytes :=
    if n = "sk_ei" then k.skEi else if n = "sk_er" then k.skEr else if n = "sk_ai" then k.skAi
    else if n = "sk_ar" then k.skAr else if n = "sk_pi" then k.skPi else if n = "sk_pr" then k.skPr else none
  (get (which.getD 1 ""), get (which.getD 3 ""), get (which.getD 5 ""))

def pick (spec : String × String) (isInitiator : Bool) : List String :=
  let n := if isInitiator then spec.1 else spec.2
  if n = "crypto_i" then Gen.Crypto.cryptoI else if n = "crypto_r" then Gen.Crypto.cryptoR else []

def myCryptoKeys (k : Keyring) (isInitiator : Bool) := cryptoKeys k (pick Gen.Crypto.myCrypto isInitiator)
def peerCryptoKeys (k : Keyring) (isInitiator : Bool) := cryptoKeys k (pick Gen.Crypto.peerCrypto isInitiator)

/-- `generate_child_sa_key_material`: `keyseed` is what the caller built (g^ir | Ni | Nr or Ni | Nr) -/
def childKeyring (prf : PrfFn) (s : Sizes) (skD keyseed : Bytes) : Res Keyring :=
  match prfplus prf skD keyseed (2 * s.integ + 2 * s.encr) with
  | .ok km => .ok (mkKeyring Gen.Crypto.childKeyringCtor (splitBy s Gen.Crypto.childSplit km))
  | .invalidSyntax => .invalidSyntax
  | .unsupportedCritical => .unsupportedCritical
  | .py e => .py e
  | .hang => .hang

/-! ### RFC 7296 sections 2.13, 2.14, 2.17, 2.18 written out (namespace Spec) -/
namespace Spec

/-- T1 = prf (K, S | 0x01), T(i+1) = prf (K, Ti | S | i+1) -/
def T (prf : PrfFn) (key seed : Bytes) : Nat → Bytes
  | 0 => []
  | n + 1 => prf key (T prf key seed n ++ seed ++ [n + 1])

/-- prf+ (K,S) = T1 | T2 | T3 | … (the first `n` blocks) -/
def stream (prf : PrfFn) (key seed : Bytes) : Nat → Bytes
  | 0 => []
  | n + 1 => stream prf key seed n ++ T prf key seed (n + 1)

/-- (T n, T1 | … | Tn) computed in one pass (what the driver evaluates; equal to the two
    definitions above by `tstream_eq`) -/
def tstream (prf : PrfFn) (key seed : Bytes) : Nat → Bytes × Bytes
  | 0 => ([], [])
  | n + 1 =>
    let ts := tstream prf key seed n
    let t := prf key (ts.1 ++ seed ++ [n + 1])
    (t, ts.2 ++ t)

theorem tstream_eq (prf : PrfFn) (key seed : Bytes) (n : Nat) :
    tstream prf key seed n = (T prf key seed n, stream prf key seed n) := by
  induction n with
  | zero => rfl
  | succ n ih => simp [tstream, ih, T, stream]

/-- prf+ (K,S) truncated to `size` octets (at most 255 blocks exist: the counter is one octet) -/
def prfplus (prf : PrfFn) (key seed : Bytes) (size : Nat) : Bytes := (tstream prf key seed 255).2.take size

theorem prfplus_eq (prf : PrfFn) (key seed : Bytes) (size : Nat) :
    prfplus prf key seed size = (stream prf key seed 255).take size := by
  unfold prfplus; rw [tstream_eq]

def skeyseed (prf : PrfFn) (ni nr gir : Bytes) : Bytes := prf (ni ++ nr) gir
def skeyseedRekey (prf : PrfFn) (skDold ni nr gir : Bytes) : Bytes := prf skDold (gir ++ ni ++ nr)

/-- {SK_d | SK_ai | SK_ar | SK_ei | SK_er | SK_pi | SK_pr} = prf+ (SKEYSEED, Ni | Nr | SPIi | SPIr) -/
def ikeKeys (prf : PrfFn) (s : Sizes) (seedKey ni nr spiI spiR : Bytes) : Keyring :=
  let km := prfplus prf seedKey (ni ++ nr ++ spiI ++ spiR) (s.prf * 3 + s.integ * 2 + s.encr * 2)
  { skD := some (km.take s.prf),
    skAi := some ((km.drop s.prf).take s.integ),
    skAr := some ((km.drop (s.prf + s.integ)).take s.integ),
    skEi := some ((km.drop (s.prf + 2 * s.integ)).take s.encr),
    skEr := some ((km.drop (s.prf + 2 * s.integ + s.encr)).take s.encr),
    skPi := some ((km.drop (s.prf + 2 * s.integ + 2 * s.encr)).take s.prf),
    skPr := some ((km.drop (2 * s.prf + 2 * s.integ + 2 * s.encr)).take s.prf) }

/-- KEYMAT = prf+(SK_d, [g^ir (new) |] Ni | Nr); encryption key before integrity key,
    initiator-to-responder direction first -/
def childKeys (prf : PrfFn) (s : Sizes) (skD seed : Bytes) : Keyring :=
  let km := prfplus prf skD seed (2 * s.integ + 2 * s.encr)
  { skD := none, skPi := none, skPr := none,
    skEi := some (km.take s.encr),
    skAi := some ((km.drop s.encr).take s.integ),
    skEr := some ((km.drop (s.encr + s.integ)).take s.encr),
    skAr := some ((km.drop (2 * s.encr + s.integ)).take s.integ) }

end Spec
end PyIkev2.Impl
