/-
  Token (de)serialisation of the abstract message content for the driver's line
  protocol.  The Python harness (harness/wire.py) implements the same grammar:

    msg     := spiI spiR major minor exch resp higher init msgId  n payload*  n payload*  iv
    payload := ptype crit body
    body    := "sa" n prop* | "ke" group hex | "id" type hex | "auth" method hex | "nonce" hex
             | "notify" proto ntype spi data | "delete" proto n hex* | "vendor" hex
             | "ts" n sel* | "sk" hex inner
    prop    := num proto spi n trans*      trans := type id keylen(-1 = none)
    sel     := type proto sport eport start end
  hex is lower-case, "-" for the empty string.
-/
import PyIkev2.Model.Codec

namespace PyIkev2.Wire
open PyIkev2 PyIkev2.Impl

abbrev P := StateT (List String) Option

def tok : P String := do
  let s ← get
  match s with
  | [] => failure
  | t :: rest => set rest; pure t

def nat : P Nat := do
  let t ← tok
  match t.toNat? with
  | some n => pure n
  | none => failure

def optNat : P (Option Nat) := do
  let t ← tok
  if t == "-1" then pure none else
  match t.toNat? with
  | some n => pure (some n)
  | none => failure

def bool : P Bool := do
  let t ← tok
  if t == "1" then pure true else if t == "0" then pure false else failure

def hex : P Bytes := do
  let t ← tok
  match fromHex t with
  | some b => pure b
  | none => failure

def many {α} (p : P α) : Nat → P (List α)
  | 0 => pure []
  | n + 1 => do let a ← p; let rest ← many p n; pure (a :: rest)

def listOf {α} (p : P α) : P (List α) := do let n ← nat; many p n

def transform : P Transform := do
  let t ← nat; let i ← nat; let k ← optNat
  pure { ttype := t, id := i, keylen := k }

def proposal : P Proposal := do
  let n ← nat; let p ← nat; let s ← hex; let ts ← listOf transform
  pure { num := n, proto := p, spi := s, transforms := ts }

def sel : P TS := do
  let t ← nat; let p ← nat; let sp ← nat; let ep ← nat; let a ← hex; let b ← hex
  pure { tsType := t, ipProto := p, startPort := sp, endPort := ep, startAddr := a, endAddr := b }

def body : P Body := do
  let k ← tok
  match k with
  | "sa" => do let ps ← listOf proposal; pure (.sa ps)
  | "ke" => do let g ← nat; let d ← hex; pure (.ke g d)
  | "id" => do let t ← nat; let d ← hex; pure (.ident t d)
  | "auth" => do let m ← nat; let d ← hex; pure (.auth m d)
  | "nonce" => do let d ← hex; pure (.nonce d)
  | "notify" => do let p ← nat; let t ← nat; let s ← hex; let d ← hex; pure (.notify p t s d)
  | "delete" => do let p ← nat; let ss ← listOf hex; pure (.delete p ss)
  | "vendor" => do let d ← hex; pure (.vendor d)
  | "ts" => do let ss ← listOf sel; pure (.ts ss)
  | "sk" => do let d ← hex; let i ← nat; pure (.sk d i)
  | _ => failure

def payload : P Payload := do
  let t ← nat; let c ← bool; let b ← body
  pure { ptype := t, critical := c, body := b }

def optHex : P (Option Bytes) := do
  let t ← tok
  if t == "none" then pure none else
  match fromHex t with
  | some b => pure (some b)
  | none => failure

def msg : P Msg := do
  let si ← hex; let sr ← hex; let ma ← nat; let mi ← nat; let ex ← nat
  let r ← bool; let h ← bool; let i ← bool; let id ← nat
  let ps ← listOf payload; let es ← listOf payload; let iv ← optHex
  pure { hdr := { spiI := si, spiR := sr, major := ma, minor := mi, exch := ex, isResp := r,
                  higher := h, isInit := i, msgId := id }, payloads := ps, enc := es, iv := iv }

/-! rendering -/

def rB (b : Bool) : String := if b then "1" else "0"
def rList {α} (f : α → List String) (l : List α) : List String := toString l.length :: l.flatMap f

def rTransform (t : Transform) : List String :=
  [toString t.ttype, toString t.id, match t.keylen with | some k => toString k | none => "-1"]

def rProposal (p : Proposal) : List String :=
  [toString p.num, toString p.proto, hexOut p.spi] ++ rList rTransform p.transforms

def rSel (s : TS) : List String :=
  [toString s.tsType, toString s.ipProto, toString s.startPort, toString s.endPort, hexOut s.startAddr, hexOut s.endAddr]

def rBody : Body → List String
  | .sa ps => "sa" :: rList rProposal ps
  | .ke g d => ["ke", toString g, hexOut d]
  | .ident t d => ["id", toString t, hexOut d]
  | .auth m d => ["auth", toString m, hexOut d]
  | .nonce d => ["nonce", hexOut d]
  | .notify p t s d => ["notify", toString p, toString t, hexOut s, hexOut d]
  | .delete p ss => ["delete", toString p] ++ rList (fun s => [hexOut s]) ss
  | .vendor d => ["vendor", hexOut d]
  | .ts ss => "ts" :: rList rSel ss
  | .sk d i => ["sk", hexOut d, toString i]

def rPayload (p : Payload) : List String := [toString p.ptype, rB p.critical] ++ rBody p.body

def rMsg (m : Msg) : List String :=
  [hexOut m.hdr.spiI, hexOut m.hdr.spiR, toString m.hdr.major, toString m.hdr.minor, toString m.hdr.exch,
   rB m.hdr.isResp, rB m.hdr.higher, rB m.hdr.isInit, toString m.hdr.msgId] ++
  rList rPayload m.payloads ++ rList rPayload m.enc ++
  [match m.iv with | some iv => hexOut iv | none => "none"]

def join (l : List String) : String := " ".intercalate l

end PyIkev2.Wire
