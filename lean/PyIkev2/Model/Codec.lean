/-
  Hand-written executable model of `message.py`'s codec (namespace `Impl`).

  It mirrors the Python *including its quirks* (slice clamping, a zero key length
  dropped on encode, SPI slices that may be short, the `except KeyError` of the payload
  loop, …).  Every `unpack_from` site consults a *guard fact* extracted from the
  current source (`Gen.Codec.guard_*`: is the call inside a `try` whose handler maps
  `struct.error` to `InvalidSyntax`?), and the two repairs of the pinned tree are
  facts as well (`Gen.Codec.chain_minlen_check`, `Gen.Codec.sk_len_check`), so the
  model follows the working tree and the theorems about it are re-checked against it.

  Loops whose progress depends on attacker data take fuel and return `Res.hang` when
  it runs out: non-termination of the Python is a value of the model.
-/
import PyIkev2.Prim
import PyIkev2.Gen.Codec

namespace PyIkev2.Impl
open PyIkev2

/-! ### abstract content -/

structure Transform where
  ttype : Nat
  id : Nat
  keylen : Option Nat
  deriving DecidableEq, Repr

structure Proposal where
  num : Nat
  proto : Nat
  spi : Bytes
  transforms : List Transform
  deriving DecidableEq, Repr

structure TS where
  tsType : Nat
  ipProto : Nat
  startPort : Nat
  endPort : Nat
  startAddr : Bytes
  endAddr : Bytes
  deriving DecidableEq, Repr

inductive Body where
  | sa (proposals : List Proposal)
  | ke (group : Nat) (data : Bytes)
  | ident (idType : Nat) (data : Bytes)          -- IDi / IDr (the payload type tells which)
  | auth (method : Nat) (data : Bytes)
  | nonce (data : Bytes)
  | notify (proto : Nat) (ntype : Nat) (spi : Bytes) (data : Bytes)
  | delete (proto : Nat) (spis : List Bytes)
  | vendor (data : Bytes)
  | ts (sels : List TS)                          -- TSi / TSr
  | sk (ct : Bytes) (innerFirst : Nat)
  deriving DecidableEq, Repr

structure Payload where
  ptype : Nat
  critical : Bool
  body : Body
  deriving DecidableEq, Repr

structure Header where
  spiI : Bytes
  spiR : Bytes
  major : Nat
  minor : Nat
  exch : Nat
  isResp : Bool
  higher : Bool
  isInit : Bool
  msgId : Nat
  deriving DecidableEq, Repr

structure Msg where
  hdr : Header
  payloads : List Payload
  enc : List Payload
  iv : Option Bytes
  deriving DecidableEq, Repr

/-- the key context `Message.parse(..., crypto=…)` / `to_bytes` works under.
    `mac` is `integrity.compute(sk_a, ·)` (already truncated), `dec`/`enc` are
    `cipher.decrypt/encrypt(sk_e, iv, ·)`. -/
structure CryptoCtx where
  block : Nat
  icvLen : Nat
  mac : Bytes → Bytes
  dec : Bytes → Bytes → Res Bytes
  enc : Bytes → Bytes → Bytes

/-! ### `struct.unpack_from` availability checks -/

/-- outcome of an `unpack_from` that needs `need` octets when only `have` are there -/
@[inline] def need (guarded : Bool) (have_ need : Nat) : Res Unit :=
  if need ≤ have_ then .ok () else if guarded then .invalidSyntax else .py .structError

/-! ### payload bodies: parse -/

def parseKE (d : Bytes) : Res Body := do
  need Gen.Codec.guard_ke d.length 4
  pure (.ke (u16 d 0) (d.drop 4))

/-- the attribute loop of `Transform.parse`: 4 octets per step (structural recursion:
    the loop terminates because every iteration consumes four octets). -/
def parseAttrs : Bytes → Res (Option Nat)
  | [] => .ok none
  | a :: b :: c :: d :: rest =>
      if (a * 256 + b) % 32768 = 14 then .ok (some (c * 256 + d)) else parseAttrs rest
  | _ => if Gen.Codec.guard_transform_attr then .invalidSyntax else .py .structError

def parseTransform (d : Bytes) : Res Transform := do
  need Gen.Codec.guard_transform_hdr d.length 4
  let kl ← parseAttrs (d.drop 4)
  pure { ttype := u8 d 0, id := u16 d 2, keylen := kl }

/-- transforms loop of `Proposal.parse` (remaining-data style; `rest = data[offset:]`). -/
def parseTransforms : Nat → Bytes → List Transform → Res (List Transform)
  | 0, _, _ => .hang
  | fuel + 1, rest, acc =>
    if rest = [] then .ok acc.reverse
    else do
      need Gen.Codec.guard_proposal_thdr rest.length 4
      let length := u16 rest 2
      let t ← parseTransform (slice rest 4 length)
      parseTransforms fuel (rest.drop length) (t :: acc)

def parseProposal (d : Bytes) : Res Proposal := do
  need Gen.Codec.guard_proposal_hdr d.length 4
  let spiSize := u8 d 2
  let nTransforms := u8 d 3
  let spi := if spiSize > 0 then slice d 4 (4 + spiSize) else []
  let ts ← parseTransforms (d.length + 1) (d.drop (4 + spiSize)) []
  if nTransforms ≠ ts.length then .invalidSyntax
  else if ts.length = 0 then .invalidSyntax
  else pure { num := u8 d 0, proto := u8 d 1, spi := spi, transforms := ts }

def parseProposals : Nat → Bytes → List Proposal → Res (List Proposal)
  | 0, _, _ => .hang
  | fuel + 1, rest, acc =>
    if rest = [] then .ok acc.reverse
    else do
      need Gen.Codec.guard_sa_phdr rest.length 4
      let length := u16 rest 2
      let p ← parseProposal (slice rest 4 length)
      parseProposals fuel (rest.drop length) (p :: acc)

def parseSA (d : Bytes) : Res Body := do
  let ps ← parseProposals (d.length + 1) d []
  if ps.length = 0 then .invalidSyntax else pure (.sa ps)

def parseVendor (d : Bytes) : Res Body :=
  if d.length = 0 then .invalidSyntax else .ok (.vendor d)

def parseNonce (d : Bytes) : Res Body :=
  if d.length < 16 ∨ d.length > 256 then .invalidSyntax else .ok (.nonce d)

def parseNotify (d : Bytes) : Res Body := do
  need Gen.Codec.guard_notify d.length 4
  let spiSize := u8 d 1
  let spi := if spiSize > 0 then slice d 4 (4 + spiSize) else []
  pure (.notify (u8 d 0) (u16 d 2) spi (d.drop (4 + spiSize)))

def parseID (d : Bytes) : Res Body := do
  need Gen.Codec.guard_id d.length 4
  pure (.ident (u8 d 0) (d.drop 4))

def parseAuth (d : Bytes) : Res Body := do
  need Gen.Codec.guard_auth d.length 4
  pure (.auth (u8 d 0) (d.drop 4))

def parseSel (d : Bytes) : Res TS := do
  need Gen.Codec.guard_ts_sel d.length 8
  let tsType := u8 d 0
  let alen := if tsType = 7 then 4 else 16
  need Gen.Codec.guard_ts_sel d.length (8 + 2 * alen)
  pure { tsType := tsType, ipProto := u8 d 1, startPort := u16 d 4, endPort := u16 d 6,
         startAddr := slice d 8 (8 + alen), endAddr := slice d (8 + alen) (8 + 2 * alen) }

def parseSels : Nat → Bytes → List TS → Res (List TS)
  | 0, _, _ => .hang
  | fuel + 1, rest, acc =>
    if rest = [] then .ok acc.reverse
    else do
      need Gen.Codec.guard_ts_lenhdr rest.length 4
      let length := u16 rest 2
      let s ← parseSel (rest.take length)
      parseSels fuel (rest.drop length) (s :: acc)

def parseTS (d : Bytes) : Res Body := do
  need Gen.Codec.guard_ts_hdr d.length 4
  let n := u8 d 0
  let sels ← parseSels (d.length + 1) (d.drop 4) []
  if n ≠ sels.length then .invalidSyntax else pure (.ts sels)

/-- `for i in range(num_spis): spis.append(data[offset:offset+spi_size])` -/
def takeSpis : Nat → Nat → Bytes → List Bytes
  | 0, _, _ => []
  | n + 1, size, rest => rest.take size :: takeSpis n size (rest.drop size)

def parseDelete (d : Bytes) : Res Body := do
  need Gen.Codec.guard_delete d.length 4
  pure (.delete (u8 d 0) (takeSpis (u16 d 2) (u8 d 1) (d.drop 4)))

/-- `Message.type_2_payload`: `none` is the `KeyError` branch -/
def parseBody (ptype : Nat) (d : Bytes) : Option (Res Body) :=
  if ptype = 33 then some (parseSA d)
  else if ptype = 34 then some (parseKE d)
  else if ptype = 35 ∨ ptype = 36 then some (parseID d)
  else if ptype = 39 then some (parseAuth d)
  else if ptype = 40 then some (parseNonce d)
  else if ptype = 41 then some (parseNotify d)
  else if ptype = 42 then some (parseDelete d)
  else if ptype = 43 then some (parseVendor d)
  else if ptype = 44 ∨ ptype = 45 then some (parseTS d)
  else if ptype = 46 then some (.ok (.sk d 0))
  else none

/-- what `PayloadSK.parse` itself returns: the inner type is annotated afterwards -/
def unSK (b : Body) : Body :=
  match b with
  | .sk ct _ => .sk ct 0
  | b => b

/-- an SK payload remembers the type of the first inner payload and ends the chain -/
def fixSK (b : Body) (next : Nat) : Body :=
  match b with
  | .sk ct _ => .sk ct next
  | b => b

def nextAfter (b : Body) (next : Nat) : Nat :=
  match b with
  | .sk _ _ => 0
  | _ => next

/-- the offset ran past the end of the data: the next header read fails, or, when the
    chain ends here, the final `offset != len(data)` test does -/
def overrun {α : Type} (next : Nat) : Res α :=
  if next = 0 then .invalidSyntax
  else if Gen.Codec.guard_chain_hdr then .invalidSyntax else .py .structError

/-- `Message._parse_payloads` (remaining-data style).  `rest = data[offset:]`; an
    offset that ran past the end is reported at once, exactly as the next loop test
    or the final `offset != len(data)` would. -/
def parseChain : Nat → Bytes → Nat → List Payload → Res (List Payload)
  | 0, _, _, _ => .hang
  | fuel + 1, rest, ptype, acc =>
    if ptype = 0 then
      (if rest = [] then .ok acc.reverse else .invalidSyntax)
    else do
      need Gen.Codec.guard_chain_hdr rest.length 4
      let next := u8 rest 0
      let critical := Nat.ble 128 (u8 rest 1)
      let length := u16 rest 2
      if Gen.Codec.chain_minlen_check ∧ length < 4 then .invalidSyntax
      else
        match parseBody ptype (slice rest 4 length) with
        | some r => do
            let b ← r
            if length > rest.length then overrun (nextAfter b next)
            else parseChain fuel (rest.drop length) (nextAfter b next)
                   ({ ptype := ptype, critical := critical, body := fixSK b next } :: acc)
        | none =>
            if critical then .unsupportedCritical
            else if length > rest.length then overrun next
            else parseChain fuel (rest.drop length) next acc

def parseHeader (d : Bytes) : Res Header := do
  need Gen.Codec.guard_msg_hdr d.length 28
  pure { spiI := d.take 8, spiR := slice d 8 16, major := u8 d 17 / 16, minor := u8 d 17 % 16,
         exch := u8 d 18, isResp := Nat.ble 1 (u8 d 19 / 32 % 2), higher := Nat.ble 1 (u8 d 19 / 16 % 2),
         isInit := Nat.ble 1 (u8 d 19 / 8 % 2), msgId := u32 d 20 }

/-- `PayloadSK.decrypt` followed by the unpadding slice.  With the repair
    (`sk_len_check`) lengths are validated first; without it the library's
    `ValueError` and the `IndexError` of `decrypted[-1]` escape. -/
def decryptSK (c : CryptoCtx) (ct : Bytes) : Res (Bytes × Bytes) :=
  let iv := ct.take c.block
  let body := dropLast (ct.drop c.block) c.icvLen
  if Gen.Codec.sk_len_check ∧ (iv.length ≠ c.block ∨ body.length = 0 ∨ body.length % c.block ≠ 0) then
    .invalidSyntax
  else do
    let pt ← c.dec iv body
    if pt.length = 0 then .py .indexError
    else
      let padlen := pt.getD (pt.length - 1) 0
      pure (iv, pt.take (pt.length - (1 + padlen)))

/-- the SK branch of `Message.parse`: integrity first, then decryption, then the inner chain -/
def finishSK (c : CryptoCtx) (d : Bytes) (h : Header) (clearPs : List Payload) (ct : Bytes) (inner : Nat) : Res Msg :=
  if c.mac (dropLast d c.icvLen) ≠ takeLast d c.icvLen then .invalidSyntax
  else do
    let (iv, clear) ← decryptSK c ct
    let innerPs ← parseChain (clear.length + 1) clear inner []
    pure { hdr := h, payloads := clearPs, enc := innerPs, iv := some iv }

/-- `Message.parse(data, header_only, crypto)` -/
def parseMsg (d : Bytes) (headerOnly : Bool) (crypto : Option CryptoCtx) : Res Msg := do
  let h ← parseHeader d
  if headerOnly then pure { hdr := h, payloads := [], enc := [], iv := none }
  else
    let body := d.drop 28
    let ps ← parseChain (body.length + 1) body (u8 d 16) []
    match crypto, ps.getLast? with
    | some c, some { ptype := 46, body := .sk ct inner, .. } => finishSK c d h ps.dropLast ct inner
    | some _, _ =>
        -- a key context was given but the message carries no SK payload: only IKE_SA_INIT may be in the clear
        if Gen.Codec.require_sk ∧ h.exch ≠ 34 then .invalidSyntax
        else pure { hdr := h, payloads := ps, enc := [], iv := none }
    | none, _ => pure { hdr := h, payloads := ps, enc := [], iv := none }

/-! ### serialisation -/

def encTransform (t : Transform) : Bytes :=
  [t.ttype % 256, 0] ++ w16 t.id ++
    (match t.keylen with
     | some k => if k = 0 then [] else w16 32782 ++ w16 k
     | none => [])

def encTransforms : List Transform → Bytes
  | [] => []
  | [t] => let td := encTransform t; [0, 0] ++ w16 (td.length + 4) ++ td
  | t :: rest => let td := encTransform t; [3, 0] ++ w16 (td.length + 4) ++ td ++ encTransforms rest

def encProposal (p : Proposal) : Bytes :=
  [p.num % 256, p.proto % 256, p.spi.length % 256, p.transforms.length % 256] ++ p.spi ++ encTransforms p.transforms

def encProposals : List Proposal → Bytes
  | [] => []
  | [p] => let pd := encProposal p; [0, 0] ++ w16 (pd.length + 4) ++ pd
  | p :: rest => let pd := encProposal p; [2, 0] ++ w16 (pd.length + 4) ++ pd ++ encProposals rest

def encSel (s : TS) : Bytes :=
  let alen := if s.tsType = 7 then 4 else 16
  [s.tsType % 256, s.ipProto % 256] ++ w16 (8 + alen * 2) ++ w16 s.startPort ++ w16 s.endPort ++
    s.startAddr ++ s.endAddr

def encBody : Body → Bytes
  | .sa ps => encProposals ps
  | .ke g d => w16 g ++ [0, 0] ++ d
  | .ident t d => [t % 256, 0, 0, 0] ++ d
  | .auth m d => [m % 256, 0, 0, 0] ++ d
  | .nonce d => d
  | .notify proto nt spi d => [proto % 256, spi.length % 256] ++ w16 nt ++ spi ++ d
  | .delete proto spis =>
      [proto % 256, (match spis with | [] => 0 | s :: _ => s.length) % 256] ++ w16 spis.length ++ spis.flatten
  | .vendor d => d
  | .ts sels => [sels.length % 256, 0, 0, 0] ++ (sels.map encSel).flatten
  | .sk ct _ => ct

/-- what the last generic header of a chain says comes next -/
def lastNext (p : Payload) : Nat := match p.body with | .sk _ inner => inner | _ => 0

/-- `Message._payloads_to_bytes` -/
def encChain : List Payload → Bytes
  | [] => []
  | [p] =>
      let next := lastNext p
      let bd := encBody p.body
      [next % 256, 0] ++ w16 (bd.length + 4) ++ bd
  | p :: q :: rest =>
      let bd := encBody p.body
      [q.ptype % 256, 0] ++ w16 (bd.length + 4) ++ bd ++ encChain (q :: rest)

def firstType : List Payload → Nat
  | [] => 0
  | p :: _ => p.ptype

def b2n (b : Bool) : Nat := if b then 1 else 0

/-- `'8s'` pads with zeros / truncates to 8 octets -/
def pad8 (b : Bytes) : Bytes := (b ++ List.replicate 8 0).take 8

def encHeader (h : Header) (first : Nat) (total : Nat) : Bytes :=
  pad8 h.spiI ++ pad8 h.spiR ++
    [first % 256, (h.major * 16 + h.minor % 16) % 256, h.exch % 256,
     b2n h.isResp * 32 + b2n h.higher * 16 + b2n h.isInit * 8] ++ w32 h.msgId ++ w32 total

/-- `PayloadSK.generate` -/
def genSK (c : CryptoCtx) (clear iv : Bytes) : Bytes :=
  let padlen := c.block - clear.length % c.block - 1
  iv ++ c.enc iv (clear ++ List.replicate padlen 0 ++ [padlen]) ++ List.replicate c.icvLen 0

/-- `Message.to_bytes` (cleartext form when `crypto = none`) -/
def encMsg (m : Msg) (crypto : Option CryptoCtx) : Bytes :=
  match crypto with
  | none =>
      let pd := encChain m.payloads
      encHeader m.hdr (firstType m.payloads) (28 + pd.length) ++ pd
  | some c =>
      let clear := encChain m.enc
      let skct := genSK c clear (m.iv.getD [])
      let ps := m.payloads ++ [{ ptype := 46, critical := false, body := .sk skct (firstType m.enc) }]
      let pd := encChain ps
      let data := encHeader m.hdr (firstType ps) (28 + pd.length) ++ pd
      let signed := dropLast data c.icvLen
      signed ++ c.mac signed

end PyIkev2.Impl
