/-
  Executable model of the algorithm-negotiation logic: `Proposal.intersection`,
  `Proposal.__eq__`, `Proposal.is_subset` (message.py), `IkeSa._select_best_sa_proposal`,
  the KE-group check and `handle_invalid_ke`'s "only within my own offer" rule (ikesa.py).

  `Transform.__eq__` compares the hashes of (type, id, keylen); it is modelled as structural
  equality (collision-freeness of CPython's tuple hash on these triples is trusted, DESIGN §C11).
-/
import PyIkev2.Model.Codec

namespace PyIkev2.Impl
open PyIkev2

/-- the `selected` dict of `Proposal.intersection`, as its values in insertion order -/
def selLoop (peer : List Transform) : List Transform → List Transform → List Transform
  | [], acc => acc
  | t :: rest, acc =>
      if peer.contains t ∧ ¬ (acc.any fun s => s.ttype = t.ttype) then selLoop peer rest (acc ++ [t])
      else selLoop peer rest acc

/-- `set(selected) == set(x.type for x in self.transforms)` -/
def coversTypes (sel mine : List Transform) : Bool :=
  mine.all fun t => sel.any fun s => s.ttype = t.ttype

/-- `Proposal.intersection(self = mine, other)` -/
def intersection (mine other : Proposal) : Option Proposal :=
  if mine.proto = other.proto then
    if coversTypes (selLoop other.transforms mine.transforms []) mine.transforms then
      some { num := other.num, proto := mine.proto, spi := other.spi,
             transforms := selLoop other.transforms mine.transforms [] }
    else none
  else none

/-- `Proposal.__eq__`: protocol and *set* of transforms -/
def propEq (a b : Proposal) : Bool :=
  a.proto = b.proto ∧ (a.transforms.all fun t => b.transforms.contains t) ∧
    (b.transforms.all fun t => a.transforms.contains t)

/-- `Proposal.is_subset(self, other)` -/
def isSubset (self other : Proposal) : Bool :=
  match intersection self other with
  | some i => propEq i self
  | none => false

/-- `IkeSa._select_best_sa_proposal`: first peer proposal (peer order) with an intersection;
    `none` is `NoProposalChosen` -/
def selectBest (mine : Proposal) : List Proposal → Option Proposal
  | [] => none
  | p :: rest => match intersection mine p with
      | some i => some i
      | none => selectBest mine rest

/-- the DH group of a chosen proposal (`get_transform(DH).id`); `none` = `StopIteration` -/
def dhGroup (p : Proposal) : Option Nat := (p.transforms.find? fun t => t.ttype = 4).map (·.id)

/-- responder side: the KE payload's group must be the chosen one; otherwise INVALID_KE_PAYLOAD
    carrying the chosen group (`Except.error g`) and nothing else happens -/
def keCheck (chosen : Proposal) (keGroup : Nat) : Except Nat Unit :=
  match dhGroup chosen with
  | some g => if g = keGroup then .ok () else .error g
  | none => .ok ()      -- not reached: callers only ask when a DH transform was chosen

/-- initiator side (`handle_invalid_ke`): retry only with a group of its own offer -/
def retryGroup (offer : Proposal) (suggested : Nat) : Option Nat :=
  if (offer.transforms.any fun t => t.ttype = 4 ∧ t.id = suggested) then some suggested else none

/-- initiator validation of a CHILD_SA response (ikesa.py:951-957) -/
def childResponseOk (mine chosen : Proposal) : Bool :=
  match intersection mine chosen with
  | some i => propEq i chosen
  | none => false

end PyIkev2.Impl
