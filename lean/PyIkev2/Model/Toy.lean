/-
  A toy instantiation of the crypto parameters, used only by the driver for the
  correspondence of the *plumbing* around encryption (what is padded, what the
  checksum covers, in which order things are checked).  harness/toycrypto.py has the
  same two functions.  No theorem mentions them.
-/
import PyIkev2.Model.Codec

namespace PyIkev2.Toy
open PyIkev2 PyIkev2.Impl

def xorStream (iv : Bytes) (block : Nat) (d : Bytes) : Bytes :=
  d.zipIdx.map fun (b, i) => Nat.xor b (iv.getD (i % block) 0)

def polyMac (icv : Nat) (d : Bytes) : Bytes :=
  wrBE icv (d.foldl (fun h b => (h * 257 + b + 1) % 256 ^ icv) 7)

def ctx (block icv : Nat) : CryptoCtx :=
  { block := block, icvLen := icv,
    mac := polyMac icv,
    dec := fun iv ct =>
      if iv.length ≠ block ∨ ct.length % block ≠ 0 then .py .valueError else .ok (xorStream iv block ct),
    enc := fun iv pt => xorStream iv block pt }

end PyIkev2.Toy
