/-
  Which negotiated value ends up in which field of which kernel SA: a symbolic interpretation of the data flow
  extracted from `Xfrm.create_child_sa`, `Xfrm.delete_child_sa` (xfrm.py) and of the `ChildSa` constructions of
  both roles (ikesa.py) — `Gen.Calls`, regenerated from the source on every run.

  A successful CHILD_SA negotiation leaves both ends agreeing on: TSi, TSr, the suite, the mode, the SPI each end
  chose for its inbound SA, and KEYMAT (C04, C11, C12).  `V` names those agreed values; `evalArg role` says which
  of them a role passes for each `create_sa` parameter.
-/
import PyIkev2.Gen.Calls

namespace PyIkev2.Impl

inductive Role where
  | initiator | responder
  deriving DecidableEq, Repr

def Role.other : Role → Role
  | .initiator => .responder
  | .responder => .initiator

inductive KeyName where
  | ei | er | ai | ar
  deriving DecidableEq, Repr

inductive TsName where
  | tsi | tsr
  deriving DecidableEq, Repr

/-- the agreed values (symbolic) -/
inductive V where
  | net (t : TsName)          -- network of the negotiated TSi / TSr
  | port (t : TsName)
  | ipProto
  | ipsecProto
  | mode
  | spiOf (r : Role)          -- the SPI that role chose for its inbound SA
  | addr (r : Role)           -- that role's tunnel endpoint address
  | encAlg
  | integAlg
  | key (k : KeyName)
  | lifetime
  | unknown (s : String)
  deriving DecidableEq, Repr

def lookup (tbl : List (String × String)) (k : String) : Option String :=
  (tbl.find? fun e => e.1 = k).map (·.2)

/-- a field of the ChildSa object held by a role when it installs the SAs.
    responder: the `ChildSa(...)` call; initiator: the ACQUIRE-time object with the `_replace(...)` fields overridden -/
def childExpr (r : Role) (field : String) : String :=
  match r with
  | .responder => (lookup Gen.Calls.responderChild field).getD "?"
  | .initiator => ((lookup Gen.Calls.initiatorReplace field).orElse fun _ => lookup Gen.Calls.acquireChild field).getD "?"

/-- the agreed value an expression of the negotiation code denotes, for the role evaluating it -/
def exprVal (r : Role) (e : String) : V :=
  if e = "chosen_tsi" then .net .tsi           -- (as a selector; `.get_network()` / `.get_port()` pick the part)
  else if e = "chosen_tsr" then .net .tsr
  else if e = "chosen_child_proposal.spi" then .spiOf r.other     -- the SPI found in the peer's SA payload
  else if e = "os.urandom(4)" then .spiOf r                        -- the SPI this role drew for its inbound SA
  else if e = "requested_mode" ∨ e = "ipsec_conf.mode" then .mode
  else .unknown e

def tsOf (r : Role) (field : String) : Option TsName :=
  match exprVal r (childExpr r field) with
  | .net t => some t
  | _ => none

/-- a `child_sa.*` / `ike_sa.*` / `keyring.*` expression -/
def objVal (r : Role) (e : String) : V :=
  if e = "child_sa.tsi.get_network()" then (match tsOf r "tsi" with | some t => .net t | none => .unknown e)
  else if e = "child_sa.tsr.get_network()" then (match tsOf r "tsr" with | some t => .net t | none => .unknown e)
  else if e = "child_sa.tsi.get_port()" then (match tsOf r "tsi" with | some t => .port t | none => .unknown e)
  else if e = "child_sa.tsr.get_port()" then (match tsOf r "tsr" with | some t => .port t | none => .unknown e)
  else if e = "child_sa.tsi.ip_proto" then .ipProto
  else if e = "child_sa.outbound_spi" then exprVal r (childExpr r "outbound_spi")
  else if e = "child_sa.inbound_spi" then exprVal r (childExpr r "inbound_spi")
  else if e = "child_sa.mode" then exprVal r (childExpr r "mode")
  else if e = "ike_sa.my_addr" then .addr r
  else if e = "ike_sa.peer_addr" then .addr r.other
  else if e = "keyring.sk_ei" then .key .ei
  else if e = "keyring.sk_er" then .key .er
  else if e = "keyring.sk_ai" then .key .ai
  else if e = "keyring.sk_ar" then .key .ar
  else .unknown e

/-- an argument of a `create_sa` / `delete_sa` call inside `create_child_sa` / `delete_child_sa` -/
def evalArg (r : Role) (a : String) : V :=
  let swap := match r with | .initiator => Gen.Calls.swapInitiator | .responder => Gen.Calls.swapResponder
  match lookup swap a with
  | some e => objVal r e
  | none =>
    match lookup Gen.Calls.locals a with
    | some e =>
      if a = "ipsec_proto" ∨ a = "ipsec_protocol" then .ipsecProto
      else if a = "encr_alg" then .encAlg
      else if a = "integ_alg" then .integAlg
      else if a = "lifetime" then .lifetime
      else objVal r e
    | none => if a = "ipsec_protocol" then .ipsecProto else objVal r a

/-- the kernel SA a role installs: `create_sa` parameter ↦ agreed value -/
def outboundSa (r : Role) : List (String × V) := Gen.Calls.createSaParams.zip (Gen.Calls.callOut.map (evalArg r))
def inboundSa (r : Role) : List (String × V) := Gen.Calls.createSaParams.zip (Gen.Calls.callIn.map (evalArg r))

/-- (destination address, protocol, SPI) of the two `delete_sa` calls -/
def deletedKeys (r : Role) : List (List V) := [Gen.Calls.deleteFirst.map (evalArg r), Gen.Calls.deleteSecond.map (evalArg r)]

def field (sa : List (String × V)) (p : String) : Option V := (sa.find? fun e => e.1 = p).map (·.2)

end PyIkev2.Impl
