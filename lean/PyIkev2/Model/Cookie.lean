/-
  The cookie rule of `IkeSa._process_ike_sa_negotiation_request` (ikesa.py) and the order of its
  steps, with the keyed hash and the Diffie-Hellman computation as parameters.  The steps are
  modelled with a call trace, so that "no DH work" is a statement about the trace.
-/
import PyIkev2.Model.Machine
import PyIkev2.Gen.Machine

namespace PyIkev2.Impl
open PyIkev2

/-- `request.spi_i + payload_nonce.nonce + self.peer_addr.packed` -/
def cookieInput (spiI nonce addr : Bytes) : Bytes := spiI ++ nonce ++ addr

/-- the check: no secret ⇒ no cookie needed; else the FIRST received cookie must equal the expected one -/
def cookieCheck (mac : Bytes → Bytes → Bytes) (secret : Option Bytes) (spiI nonce addr : Bytes) (received : List Bytes) :
    Except Bytes Unit :=
  match secret with
  | none => .ok ()
  | some k =>
    let expected := mac k (cookieInput spiI nonce addr)
    match received with
    | [] => .error expected
    | c :: _ => if c = expected then .ok () else .error expected

inductive Call where
  | mac | selectProposal | dh
  deriving DecidableEq, Repr

inductive NegOut where
  | cookieRequired (cookie : Bytes)
  | noProposal
  | invalidKe (group : Nat)
  | accepted (group : Nat)
  deriving DecidableEq, Repr

/-- the order of `_process_ike_sa_negotiation_request`: cookie check, proposal selection, KE group check, DH.
    `select` and `keGroup` stand for the negotiation (C11); the trace records what was executed. -/
def negotiationRequest (mac : Bytes → Bytes → Bytes) (secret : Option Bytes) (spiI nonce addr : Bytes) (received : List Bytes)
    (select : Option Nat) (keGroup : Nat) : NegOut × List Call :=
  let t0 : List Call := if secret.isSome then [.mac] else []
  match cookieCheck mac secret spiI nonce addr received with
  | .error c => (.cookieRequired c, t0)
  | .ok _ =>
    match select with
    | none => (.noProposal, t0 ++ [.selectProposal])
    | some g => if g ≠ keGroup then (.invalidKe g, t0 ++ [.selectProposal]) else (.accepted g, t0 ++ [.selectProposal, .dh])

end PyIkev2.Impl
