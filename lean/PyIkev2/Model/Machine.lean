/-
  Executable model of the *shell* of the IKE_SA state machine and of the controller
  (ikesa.py: `process_message`, `_process_request`, `_process_response`, `_send_request`,
  `process_acquire`, `process_expire`, the three timers; ikesacontroller.py:
  `dispatch_message`, `process_acquire`, `process_expire`, one iteration of `main_loop`).

  Everything the shell delegates — the per-exchange handlers and the request generators —
  is a *parameter* (`Handlers`), threaded with an opaque tape `τ` (entropy, crypto
  verdicts, whatever the handlers consult).  The property theorems about the window, the
  timers, the table and non-interference are proved for **every** instance of that
  parameter; the correspondence check instantiates it with the outcomes recorded from the
  real handlers, so that exactly the shell logic is compared.

  Time is in ticks of 1/1024 s (the harness clock and jitter are multiples of it, so the
  Python floats are exact).
-/
import PyIkev2.Model.Codec

namespace PyIkev2.Impl
open PyIkev2

/-! ### states (IkeSa.State) -/

def stINITIAL := 0
def stINIT_RES_SENT := 1
def stINIT_REQ_SENT := 2
def stAUTH_REQ_SENT := 3
def stESTABLISHED := 10
def stNEW_CHILD_REQ_SENT := 11
def stREK_CHILD_REQ_SENT := 12
def stREK_IKE_SA_REQ_SENT := 13
def stDEL_CHILD_REQ_SENT := 14
def stDEL_IKE_SA_REQ_SENT := 15
def stDEL_AFTER_REKEY_IKE_SA_REQ_SENT := 16
def stDPD_REQ_SENT := 17
def stREKEYED := 20
def stDELETED := 21

def tick : Nat := 1024                 -- one second
def MAX_RETRANSMISSIONS := 4
def RETRANSMISSION_DELAY := 2

/-! ### the IKE_SA as the shell sees it -/

structure ChildRef where
  inSpi : Bytes
  outSpi : Bytes
  proto : Nat            -- Proposal.Protocol: 2 = AH, 3 = ESP
  deriving DecidableEq, Repr

inductive Pend where
  | acquire (tsi tsr : TS) (index : Nat)
  | expire (spi : Bytes) (hard : Bool)
  deriving DecidableEq, Repr

/-- the fields of an `IkeSa` object the shell and the controller read or write -/
structure SaCore where
  st : Nat
  isInit : Bool
  mySpi : Bytes
  peerSpi : Bytes
  myId : Nat
  peerId : Nat
  keyed : Bool                    -- peer_crypto is not None
  lastResp : Option Msg           -- last_sent_response_data
  request : Option Msg            -- self.request
  rtxAt : Nat
  rtx : Nat
  dpdAt : Nat
  rekeyAt : Nat
  deleteAt : Nat
  dpd : Nat                       -- configuration.dpd (ticks)
  children : List ChildRef
  pending : List Pend
  indices : List Nat              -- configuration.protect[*].index
  myAddr : Bytes
  peerAddr : Bytes
  cookie : Bool                   -- cookie_secret is not None
  deriving DecidableEq, Repr

/-- an `IkeSa` together with its `new_ike_sa` (whose own successor is always `None`) -/
structure Sa where
  core : SaCore
  succ : Option SaCore
  deriving DecidableEq, Repr

def SaCore.spiI (s : SaCore) : Bytes := if s.isInit then s.mySpi else s.peerSpi
def SaCore.spiR (s : SaCore) : Bytes := if s.isInit then s.peerSpi else s.mySpi

/-- netlink requests as the model kernel sees them -/
inductive NlOp where
  | newSa (daddr : Bytes) (proto : Nat) (spi : Bytes)
  | delSa (daddr : Bytes) (proto : Nat) (spi : Bytes)
  | refusedNewSa (daddr : Bytes) (proto : Nat) (spi : Bytes)     -- a NEWSA the kernel did not accept (attempted, without effect)
  | flushSa
  | flushPolicy
  | newPolicy (index : Nat) (dir : Nat)
  deriving DecidableEq, Repr

def ipsecProto (p : Nat) : Nat := if p = 3 then 50 else 51     -- IPPROTO_ESP / IPPROTO_AH

/-- `Xfrm.delete_child_sa`: outbound first, then inbound -/
def delChildOps (s : SaCore) (c : ChildRef) : List NlOp :=
  [.delSa s.peerAddr (ipsecProto c.proto) c.outSpi, .delSa s.myAddr (ipsecProto c.proto) c.inSpi]

/-- `IkeSa.delete_child_sas` -/
def deleteChildSas (s : SaCore) : SaCore × List NlOp :=
  ({ s with children := [] }, s.children.flatMap (delChildOps s))

/-! ### what a handler can do -/

inductive HRes where
  | reply (m : Msg)               -- request handlers: the response
  | request (m : Msg)             -- response handlers / generators: a new request
  | nothing                       -- response handlers: None
  | ikeError (n : Payload)        -- raised IkeSaError; `n` = PayloadNOTIFY.from_exception(ex)
  | otherError (n : Payload)      -- raised anything else
  deriving DecidableEq, Repr

structure HOut where
  sa : Sa                         -- the object after the call (also when it raised)
  res : HRes
  nl : List NlOp                  -- netlink requests issued during the call
  deriving Repr

/-- the delegated parts, over an opaque tape `τ` -/
structure Handlers (τ : Type) where
  /-- `_handler_dict[exchange](message)` of `_process_request`; `none` = KeyError (no handler) -/
  req : τ → Sa → Nat → Msg → τ × Option HOut
  /-- `_handler_dict[exchange](message)` of `_process_response` -/
  resp : τ → Sa → Nat → Msg → τ × Option HOut
  /-- `generate_ike_sa_init_request` / `generate_create_child_sa_request` from `process_acquire` -/
  genAcquire : τ → Sa → Nat → TS → TS → Nat → τ × HOut
  /-- soft: `generate_create_child_sa_request(new, old)`; hard: `generate_delete_child_sa_request` -/
  genExpire : τ → Sa → Nat → ChildRef → Bool → τ × HOut
  genDpd : τ → Sa → Nat → τ × HOut
  genDeleteIke : τ → Sa → Nat → τ × HOut
  genRekeyIke : τ → Sa → Nat → τ × HOut
  /-- `IkeSa(...)` constructor as used by the controller (responder for a received SPI, or initiator) -/
  newSa : τ → Nat → Bool → Bytes → Bytes → Bytes → τ × Option SaCore   -- now isInit peerSpi myAddr peerAddr; none = no configuration

/-! ### `generate_response` for the error path of `_process_request` -/

def mkResponse (s : SaCore) (exch : Nat) (payloads : List Payload) : Msg :=
  { hdr := { spiI := s.spiI, spiR := s.spiR, major := 2, minor := 0, exch := exch, isResp := true,
             higher := false, isInit := s.isInit, msgId := s.peerId },
    payloads := if exch = 34 then payloads else [],
    enc := if exch = 34 then [] else payloads,
    iv := none }

/-! ### results of an entry point -/

structure StepOut where
  sa : Sa
  out : Option Msg := none        -- datagram to send
  nl : List NlOp := []
  escaped : Bool := false         -- an exception left the entry point
  ran : Nat := 0                  -- how many times a handler was executed (for the at-most-once theorems)
  deriving Repr

/-- `_send_request` -/
def sendRequest (s : Sa) (now : Nat) (r : Msg) : Sa :=
  { s with core := { s.core with rtx := 1, rtxAt := now + RETRANSMISSION_DELAY * tick } }

/-- `get_child_sa` -/
def getChild (s : SaCore) (spi : Bytes) : Option ChildRef :=
  s.children.find? fun c => spi = c.inSpi ∨ spi = c.outSpi

/-- `self.my_msg_id = self.my_msg_id + 1` (before the response handler runs) -/
def bumpMyId (s : Sa) : Sa := { s with core := { s.core with myId := s.core.myId + 1 } }

/-- "receiving any kind of message from the peer resets the DPD timer" -/
def touchDpd (s : Sa) (now : Nat) : Sa := { s with core := { s.core with dpdAt := now + s.core.dpd } }

/-- what `process_message` does with a parsed message before the window is consulted -/
inductive Gate where
  | drop          -- ignored: nothing changes
  | cached        -- answered with the stored response, nothing changes
  | pass          -- handed to `_process_request` / `_process_response` (after re-arming the liveness timer)
  deriving DecidableEq, Repr

def gate (s : SaCore) (m : Msg) : Gate :=
  if m.hdr.isInit = s.isInit then .drop                              -- wrong INITIATOR flag
  else if s.keyed ∧ m.hdr.exch = 34 then
    -- cleartext after keys: at most the stored response to a retransmitted IKE_SA_INIT request
    if ¬ m.hdr.isResp ∧ m.hdr.msgId + 1 = s.peerId then .cached else .drop
  else if m.hdr.exch ≠ 34 ∧ (m.hdr.spiI, m.hdr.spiR) ≠ (s.spiI, s.spiR) then .drop   -- foreign SPIs
  else .pass

section shell
variable {τ : Type} (H : Handlers τ)

/-- `process_acquire` -/
def processAcquire (t : τ) (s : Sa) (now : Nat) (tsi tsr : TS) (index : Nat) : τ × StepOut :=
  if s.core.st ≠ stINITIAL ∧ s.core.st ≠ stESTABLISHED then
    (t, { sa := { s with core := { s.core with pending := s.core.pending ++ [.acquire tsi tsr index] } } })
  else if ¬ s.core.indices.contains index then (t, { sa := s })
  else
    let (t, o) := H.genAcquire t s now tsi tsr index
    match o.res with
    | .request r => (t, { sa := sendRequest o.sa now r, out := some r, nl := o.nl, ran := 1 })
    | _ => (t, { sa := o.sa, nl := o.nl, escaped := true, ran := 1 })

/-- `process_expire` -/
def processExpire (t : τ) (s : Sa) (now : Nat) (spi : Bytes) (hard : Bool) : τ × StepOut :=
  if s.core.st ≠ stESTABLISHED then
    (t, { sa := { s with core := { s.core with pending := s.core.pending ++ [.expire spi hard] } } })
  else match getChild s.core spi with
    | none => (t, { sa := s })
    | some c =>
      let (t, o) := H.genExpire t s now c hard
      match o.res with
      | .request r => (t, { sa := sendRequest o.sa now r, out := some r, nl := o.nl, ran := 1 })
      | _ => (t, { sa := o.sa, nl := o.nl, escaped := true, ran := 1 })

/-- the loop over `pending_events` at the end of `_process_response` (state ESTABLISHED on entry);
    an exception inside is caught by `_process_response` (`escaped` is turned into DELETED there) -/
def pendingLoop (t : τ) (now : Nat) : List Pend → Sa → List NlOp → τ × StepOut
  | [], s, nl => (t, { sa := s, nl := nl })
  | p :: rest, s, nl =>
    let s := { s with core := { s.core with pending := s.core.pending.erase p } }
    let (t, o) := match p with
      | .acquire tsi tsr index => processAcquire H t s now tsi tsr index
      | .expire spi hard => processExpire H t s now spi hard
    if o.escaped then (t, { o with nl := nl ++ o.nl })
    else match o.out with
      | some r => (t, { o with nl := nl ++ o.nl, out := some r })
      | none => pendingLoop t now rest o.sa (nl ++ o.nl)

/-- `_process_request` -/
def processRequest (t : τ) (s : Sa) (now : Nat) (m : Msg) : τ × StepOut :=
  if m.hdr.msgId + 1 = s.core.peerId then (t, { sa := s, out := s.core.lastResp })
  else if m.hdr.msgId ≠ s.core.peerId then (t, { sa := s })
  else
    match H.req t s now m with
    | (t, none) => (t, { sa := s })
    | (t, some o) =>
      let (s', resp) : Sa × Msg := match o.res with
        | .reply r => (o.sa, r)
        | .request r => (o.sa, r)
        | .nothing => (o.sa, mkResponse o.sa.core m.hdr.exch [])
        | .ikeError n => ({ o.sa with core := { o.sa.core with st := stDELETED } }, mkResponse o.sa.core m.hdr.exch [n])
        | .otherError n => ({ o.sa with core := { o.sa.core with st := stDELETED } }, mkResponse o.sa.core m.hdr.exch [n])
      let s'' := { s' with core := { s'.core with peerId := s'.core.peerId + 1, lastResp := some resp } }
      (t, { sa := s'', out := some resp, nl := o.nl, ran := 1 })

/-- `_process_response` -/
def processResponse (t : τ) (s : Sa) (now : Nat) (m : Msg) : τ × StepOut :=
  if m.hdr.msgId ≠ s.core.myId then (t, { sa := s })
  else
    match H.resp t (bumpMyId s) now m with
    | (t, none) => (t, { sa := bumpMyId s })
    | (t, some o) =>
      match o.res with
      | .request r => (t, { sa := sendRequest o.sa now r, out := some r, nl := o.nl, ran := 1 })
      | .reply r => (t, { sa := sendRequest o.sa now r, out := some r, nl := o.nl, ran := 1 })
      | .nothing =>
        if o.sa.core.st = stESTABLISHED then
          let (t, p) := pendingLoop H t now o.sa.core.pending o.sa o.nl
          if p.escaped then
            (t, { sa := { p.sa with core := { p.sa.core with st := stDELETED } }, nl := p.nl, ran := 1 + p.ran })
          else (t, { p with ran := 1 + p.ran })
        else (t, { sa := o.sa, nl := o.nl, ran := 1 })
      | .ikeError _ => (t, { sa := { o.sa with core := { o.sa.core with st := stDELETED } }, nl := o.nl, ran := 1 })
      | .otherError _ => (t, { sa := { o.sa with core := { o.sa.core with st := stDELETED } }, nl := o.nl, ran := 1 })

/-- `process_message`; `parsed` is the outcome of `Message.parse(data, crypto=self.peer_crypto)`
    (`none` = it raised a protocol error) -/
def processMessage (t : τ) (s : Sa) (now : Nat) (parsed : Option Msg) : τ × StepOut :=
  match parsed with
  | none => (t, { sa := s })
  | some m =>
    match gate s.core m with
    | .drop => (t, { sa := s })
    | .cached => (t, { sa := s, out := s.core.lastResp })
    | .pass => if m.hdr.isResp then processResponse H t (touchDpd s now) now m else processRequest H t (touchDpd s now) now m

/-- `check_dead_peer_detection_timer` -/
def checkDpd (t : τ) (s : Sa) (now : Nat) : τ × StepOut :=
  if s.core.dpdAt < now ∧ s.core.st = stESTABLISHED then
    let (t, o) := H.genDpd t s now
    match o.res with
    | .request r => (t, { sa := sendRequest o.sa now r, out := some r, nl := o.nl, ran := 1 })
    | _ => (t, { sa := o.sa, nl := o.nl, escaped := true, ran := 1 })
  else (t, { sa := s })

/-- `check_rekey_ike_sa_timer` -/
def checkRekey (t : τ) (s : Sa) (now : Nat) : τ × StepOut :=
  if s.core.st = stESTABLISHED then
    if s.core.deleteAt < now then
      let (t, o) := H.genDeleteIke t s now
      match o.res with
      | .request r => (t, { sa := sendRequest o.sa now r, out := some r, nl := o.nl, ran := 1 })
      | _ => (t, { sa := o.sa, nl := o.nl, escaped := true, ran := 1 })
    else if s.core.rekeyAt < now then
      let (t, o) := H.genRekeyIke t s now
      match o.res with
      | .request r => (t, { sa := sendRequest o.sa now r, out := some r, nl := o.nl, ran := 1 })
      | _ => (t, { sa := o.sa, nl := o.nl, escaped := true, ran := 1 })
    else (t, { sa := s })
  else (t, { sa := s })

end shell

/-- the states in which a request is outstanding (`check_retransmission_timer`) -/
def waiting (st : Nat) : Bool := (stNEW_CHILD_REQ_SENT ≤ st ∧ st < stREKEYED) ∨ st = stINIT_REQ_SENT ∨ st = stAUTH_REQ_SENT

/-- `check_retransmission_timer` (no handler involved) -/
def checkRetransmission (s : Sa) (now : Nat) : StepOut :=
  if waiting s.core.st then
    if s.core.rtxAt < now then
      if s.core.rtx ≥ MAX_RETRANSMISSIONS then { sa := { s with core := { s.core with st := stDELETED } } }
      else
        let n := s.core.rtx + 1
        { sa := { s with core := { s.core with rtx := n, rtxAt := s.core.rtxAt + n * RETRANSMISSION_DELAY * tick } },
          out := s.core.request, escaped := s.core.request.isNone }
    else { sa := s }
  else { sa := s }

/-! ### controller -/

structure Ctl where
  sas : List Sa
  threshold : Nat := 10
  deriving Repr

/-- what one loop iteration hands to the outside world -/
structure IterOut where
  ctl : Ctl
  sent : List (Bytes × Bytes × Msg) := []      -- (from my address, to peer address, message)
  nl : List NlOp := []
  escaped : Bool := false
  ran : Nat := 0
  status : Option (List Sa) := none
  deriving Repr

def halfOpen (sas : List Sa) : Nat := (sas.filter fun s => s.core.st < stESTABLISHED).length

/-- `ike_sa.new_ike_sa in self.ike_sas` (object identity; IKE SPIs are unique per object) -/
def registered (sas : List Sa) (n : SaCore) : Bool := sas.any fun x => x.core.mySpi = n.mySpi

/-- after `process_message`: register a successor (once), remove a deleted IKE_SA (`dispatch_message`) -/
def afterMessage (sas : List Sa) (i : Nat) (s : Sa) : List Sa × List NlOp :=
  let sas := sas.set i s
  let sas := if s.core.st = stREKEYED ∨ s.core.st = stDEL_AFTER_REKEY_IKE_SA_REQ_SENT then
      match s.succ with
      | some n => if registered sas n then sas else sas ++ [{ core := n, succ := none }]
      | none => sas
    else sas
  if s.core.st = stDELETED then
    let (c, ops) := deleteChildSas s.core
    ((sas.set i { s with core := c }).eraseIdx i, ops)
  else (sas, [])

/-- the local SPI a header selects: SPIr when the sender claims to be the original initiator, else SPIi -/
def selectedSpi (h : Header) : Bytes := if h.isInit then h.spiR else h.spiI

section controller
variable {τ : Type} (H : Handlers τ)

/-- `dispatch_message(data, my_addr, peer_addr)`: `hdr` is the header-only parse (`none` = it raised),
    `parsed` the full parse under the selected IKE_SA's keys -/
def dispatch (t : τ) (c : Ctl) (now : Nat) (hdr : Option Header) (parsed : Option Msg) (myAddr peerAddr : Bytes) :
    τ × IterOut :=
  match hdr with
  | none => (t, { ctl := c, escaped := true })
  | some h =>
    if h.exch = 34 ∧ ¬ h.isResp then
      match H.newSa t now false h.spiI myAddr peerAddr with
      | (t, none) => (t, { ctl := c, escaped := true })           -- ConfigurationNotFound
      | (t, some n) =>
        let sas := c.sas ++ [{ core := n, succ := none }]
        let n := if halfOpen sas > c.threshold then { n with cookie := true } else n
        let i := sas.length - 1
        let (t, o) := processMessage H t { core := n, succ := none } now parsed
        -- a responder IKE_SA whose request was not accepted (still INITIAL) is forgotten again
        if o.sa.core.st = stINITIAL then
          (t, { ctl := c, sent := (o.out.map fun m => (myAddr, peerAddr, m)).toList, nl := o.nl, escaped := o.escaped, ran := o.ran })
        else
        let (sas, ops) := afterMessage sas i o.sa
        (t, { ctl := { c with sas := sas }, sent := (o.out.map fun m => (myAddr, peerAddr, m)).toList,
              nl := o.nl ++ ops, escaped := o.escaped, ran := o.ran })
    else
      match c.sas.findIdx? fun s => s.core.mySpi = selectedSpi h with
      | none => (t, { ctl := c })
      | some i =>
        match c.sas[i]? with
        | none => (t, { ctl := c })
        | some s =>
          let (t, o) := processMessage H t s now parsed
          let (sas, ops) := afterMessage c.sas i o.sa
          (t, { ctl := { c with sas := sas }, sent := (o.out.map fun m => (myAddr, peerAddr, m)).toList,
                nl := o.nl ++ ops, escaped := o.escaped, ran := o.ran })

/-- controller `process_acquire`: an IKE_SA with that peer address, else a new initiator -/
def ctlAcquire (t : τ) (c : Ctl) (now : Nat) (myAddr peerAddr : Bytes) (tsi tsr : TS) (index : Nat) : τ × IterOut :=
  match c.sas.findIdx? fun s => s.core.peerAddr = peerAddr ∧ (s.core.isInit ∨ s.core.st ≥ stESTABLISHED) with
  | some i =>
    match c.sas[i]? with
    | none => (t, { ctl := c })
    | some s =>
      let (t, o) := processAcquire H t s now tsi tsr index
      (t, { ctl := { c with sas := c.sas.set i o.sa }, sent := (o.out.map fun m => (s.core.myAddr, s.core.peerAddr, m)).toList,
            nl := o.nl, escaped := o.escaped, ran := o.ran })
  | none =>
    match H.newSa t now true (List.replicate 8 0) myAddr peerAddr with
    | (t, none) => (t, { ctl := c, escaped := true })
    | (t, some n) =>
      let s : Sa := { core := n, succ := none }
      let (t, o) := processAcquire H t s now tsi tsr index
      (t, { ctl := { c with sas := c.sas ++ [o.sa] }, sent := (o.out.map fun m => (n.myAddr, n.peerAddr, m)).toList,
            nl := o.nl, escaped := o.escaped, ran := o.ran })

/-- controller `process_expire`: the IKE_SA that owns the SPI -/
def ctlExpire (t : τ) (c : Ctl) (now : Nat) (spi : Bytes) (hard : Bool) : τ × IterOut :=
  match c.sas.findIdx? fun s => s.core.children.any fun ch => ch.inSpi = spi ∨ ch.outSpi = spi with
  | none => (t, { ctl := c })
  | some i =>
    match c.sas[i]? with
    | none => (t, { ctl := c })
    | some s =>
      let (t, o) := processExpire H t s now spi hard
      (t, { ctl := { c with sas := c.sas.set i o.sa }, sent := (o.out.map fun m => (s.core.myAddr, s.core.peerAddr, m)).toList,
            nl := o.nl, escaped := o.escaped, ran := o.ran })

/-- the retransmission sweep of `main_loop`, including Python's behaviour when the list is
    modified while it is iterated (after a removal the element that moved into the slot is
    skipped until the next sweep) -/
def sweepRtx (now : Nat) : Nat → Nat → List Sa → List (Bytes × Bytes × Msg) → List NlOp → List Sa × List (Bytes × Bytes × Msg) × List NlOp × Bool
  | 0, _, sas, sent, nl => (sas, sent, nl, false)
  | fuel + 1, i, sas, sent, nl =>
    match sas[i]? with
    | none => (sas, sent, nl, false)
    | some s =>
      let o := checkRetransmission s now
      if o.escaped then (sas.set i o.sa, sent, nl, true)
      else
        let sent := sent ++ (o.out.map fun m => (s.core.myAddr, s.core.peerAddr, m)).toList
        if o.sa.core.st = stDELETED then
          let (c, ops) := deleteChildSas o.sa.core
          sweepRtx now fuel (i + 1) ((sas.set i { o.sa with core := c }).eraseIdx i) sent (nl ++ ops)
        else sweepRtx now fuel (i + 1) (sas.set i o.sa) sent nl

/-- a sweep that calls a timer on every IKE_SA in table order (DPD, lifetime) -/
def sweepTimer (f : τ → Sa → Nat → τ × StepOut) (now : Nat) :
    List Sa → τ → List Sa → List (Bytes × Bytes × Msg) → List NlOp → Nat → τ × List Sa × List (Bytes × Bytes × Msg) × List NlOp × Bool × Nat
  | [], t, done, sent, nl, ran => (t, done, sent, nl, false, ran)
  | s :: rest, t, done, sent, nl, ran =>
    let (t, o) := f t s now
    if o.escaped then (t, done ++ [o.sa] ++ rest, sent, nl ++ o.nl, true, ran + o.ran)
    else sweepTimer f now rest t (done ++ [o.sa]) (sent ++ (o.out.map fun m => (s.core.myAddr, s.core.peerAddr, m)).toList)
           (nl ++ o.nl) (ran + o.ran)

/-- events one `select` round can deliver -/
structure LoopEv where
  datagram : Option (Option Header × Option Msg × Bytes × Bytes) := none   -- header parse, full parse, my address, peer address
  acquire : Option (Bytes × Bytes × TS × TS × Nat) := none                  -- my address, peer address, selectors, index
  expire : Option (Bytes × Bool) := none
  control : Bool := false
  sendFails : Bool := false                                                -- the first sendto of this round raises OSError

/-- one iteration of `main_loop`; `escaped` means an exception reached the `while True` body's `except`
    clauses (since the repair of the loop they contain every `Exception`: the rest of the iteration is
    abandoned and the daemon goes on with the state reached so far) -/
def loopIter (t : τ) (c : Ctl) (now : Nat) (ev : LoopEv) : τ × IterOut :=
  -- 1. datagram
  let (t, o1) : τ × IterOut := match ev.datagram with
    | none => (t, { ctl := c })
    | some (h, p, me, peer) => dispatch H t c now h p me peer
  if o1.escaped ∨ (ev.sendFails ∧ ¬ o1.sent.isEmpty) then (t, { o1 with escaped := true }) else
  -- 2. kernel event
  let (t, o2) : τ × IterOut := match ev.acquire, ev.expire with
    | some (me, peer, tsi, tsr, idx), _ => ctlAcquire H t o1.ctl now me peer tsi tsr idx
    | none, some (spi, hard) => ctlExpire H t o1.ctl now spi hard
    | none, none => (t, { ctl := o1.ctl })
  let sent := o1.sent ++ o2.sent
  let nl := o1.nl ++ o2.nl
  if o2.escaped ∨ (ev.sendFails ∧ ¬ sent.isEmpty) then (t, { o2 with sent := sent, nl := nl, escaped := true, ran := o1.ran + o2.ran }) else
  -- 3. control connection
  let status := if ev.control then some o2.ctl.sas else none
  -- 4. retransmissions (with removal)
  let (sas, sent, nl, esc) := sweepRtx now (o2.ctl.sas.length + 1) 0 o2.ctl.sas sent nl
  if esc ∨ (ev.sendFails ∧ ¬ sent.isEmpty) then
    (t, { ctl := { o2.ctl with sas := sas }, sent := sent, nl := nl, escaped := true, ran := o1.ran + o2.ran, status := status }) else
  -- 5. dead peer detection, 6. lifetimes
  let (t, sas, sent, nl, esc, ran) := sweepTimer (checkDpd H) now sas t [] sent nl (o1.ran + o2.ran)
  if esc ∨ (ev.sendFails ∧ ¬ sent.isEmpty) then
    (t, { ctl := { o2.ctl with sas := sas }, sent := sent, nl := nl, escaped := true, ran := ran, status := status }) else
  let (t, sas, sent, nl, esc, ran) := sweepTimer (checkRekey H) now sas t [] sent nl ran
  (t, { ctl := { o2.ctl with sas := sas }, sent := sent, nl := nl, escaped := esc ∨ (ev.sendFails ∧ ¬ sent.isEmpty), ran := ran,
        status := status })

end controller

end PyIkev2.Impl
