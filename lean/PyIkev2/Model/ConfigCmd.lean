/- driver command for the configuration model:  cfgconn <encr> <integ> <prf> <dh> <lifetime> <dpd> n entry*
   algs := "-" absent | "!" not a list | "," empty list | name,name,...      opt := "-" | value
   entry := proto encr integ dh ipproto myport peerport index lifetime mode -/
import PyIkev2.Model.Config

namespace PyIkev2.ConfigCmd
open PyIkev2.Impl

def algs (s : String) : AlgsIn :=
  if s = "-" then .absent else if s = "!" then .notList else if s = "," then .list []
  else .list (s.splitOn ",")

def optS (s : String) : Option String := if s = "-" then none else some s
def optN (s : String) : Option (Option Nat) := if s = "-" then some none else s.toNat?.map some

def entries : Nat → List String → Option (List IpsecIn × List String)
  | 0, rest => some ([], rest)
  | n + 1, p :: e :: i :: d :: ip :: mp :: pp :: ix :: lt :: mo :: rest => do
      let mp ← optN mp; let pp ← optN pp; let ix ← optN ix; let lt ← optN lt
      let (xs, rest) ← entries n rest
      pure ({ proto := optS p, encr := algs e, integ := algs i, dh := algs d, ipProto := optS ip, myPort := mp, peerPort := pp,
              index := ix, lifetime := lt, mode := optS mo } :: xs, rest)
  | _, _ => none

def rTr (t : Tr) : String := toString t.1 ++ ":" ++ toString t.2.1 ++ ":" ++ toString t.2.2
def rTrs (l : List Tr) : String := if l.isEmpty then "," else ",".intercalate (l.map rTr)

def cmd (c : String) (args : List String) : Option String :=
  match c, args with
  | "cfgconn", e :: i :: p :: d :: lt :: dpd :: n :: rest => do
      let lt ← optN lt; let dpd ← optN dpd; let n ← n.toNat?
      let (es, left) ← entries n rest
      if left ≠ [] then none else
      match loadIke { encr := algs e, integ := algs i, prf := algs p, dh := algs d, lifetime := lt, dpd := dpd, protect := es } with
      | .configurationError => pure "ConfigurationError"
      | .ok o => pure ("ok " ++ rTrs o.transforms ++ " " ++ toString o.lifetime ++ " " ++ toString o.dpd ++ " " ++
          " ".intercalate (o.protect.map fun x => toString x.proto ++ " " ++ rTrs x.transforms ++ " " ++ toString x.ipProto ++ " " ++
            toString x.myPort ++ " " ++ toString x.peerPort ++ " " ++ (match x.index with | some v => toString v | none => "-") ++ " " ++
            toString x.lifetime ++ " " ++ toString x.mode))
  | _, _ => none

end PyIkev2.ConfigCmd
