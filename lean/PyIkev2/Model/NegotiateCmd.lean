/- driver commands for the negotiation model -/
import PyIkev2.Model.Negotiate
import PyIkev2.Model.Wire

namespace PyIkev2.NegotiateCmd
open PyIkev2 PyIkev2.Impl

def two : Wire.P (Proposal × Proposal) := do
  let a ← Wire.proposal; let b ← Wire.proposal; pure (a, b)

def optProp : Option Proposal → String
  | none => "none"
  | some p => "some " ++ Wire.join (Wire.rProposal p)

def cmd (c : String) (args : List String) : Option String :=
  match c with
  | "isect" => do
      let ((a, b), left) ← two.run args
      if left ≠ [] then none else pure (optProp (intersection a b))
  | "select" => do
      let ((a, ps), left) ← (do let a ← Wire.proposal; let ps ← Wire.listOf Wire.proposal; pure (a, ps) : Wire.P _).run args
      if left ≠ [] then none else pure (optProp (selectBest a ps))
  | "issubset" => do
      let ((a, b), left) ← two.run args
      if left ≠ [] then none else pure (if isSubset a b then "1" else "0")
  | "childok" => do
      let ((a, b), left) ← two.run args
      if left ≠ [] then none else pure (if childResponseOk a b then "1" else "0")
  | "propeq" => do
      let ((a, b), left) ← two.run args
      if left ≠ [] then none else pure (if propEq a b then "1" else "0")
  | "kecheck" => do
      let ((a, g), left) ← (do let a ← Wire.proposal; let g ← Wire.nat; pure (a, g) : Wire.P _).run args
      if left ≠ [] then none else
        pure (match keCheck a g with | .ok _ => "ok" | .error e => "err " ++ toString e)
  | "retry" => do
      let ((a, g), left) ← (do let a ← Wire.proposal; let g ← Wire.nat; pure (a, g) : Wire.P _).run args
      if left ≠ [] then none else
        pure (match retryGroup a g with | some x => "some " ++ toString x | none => "none")
  | _ => none

end PyIkev2.NegotiateCmd
