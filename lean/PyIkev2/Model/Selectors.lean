/-
  Executable model of the traffic-selector logic: `TrafficSelector.is_subset`, `from_network`,
  `get_network`, `get_port` (message.py), `IkeSa._get_ipsec_configuration`, the rekey-selector,
  mode and initiator-side narrowing checks (ikesa.py).

  A selector is kept as in the codec model (addresses as octet strings); comparisons use the
  integer value of the address, as `ipaddress` does for two addresses of the same version.
-/
import PyIkev2.Model.Codec

namespace PyIkev2.Impl
open PyIkev2

def TS.lo (s : TS) : Nat := rdBE s.startAddr
def TS.hi (s : TS) : Nat := rdBE s.endAddr

/-- `TrafficSelector.is_subset(self, other)` -/
def tsSubset (a b : TS) : Bool :=
  if a.tsType ≠ b.tsType then false
  else if b.ipProto ≠ 0 ∧ a.ipProto ≠ b.ipProto then false
  else if a.startPort < b.startPort ∨ a.endPort > b.endPort then false
  else if a.lo < b.lo ∨ a.hi > b.hi then false
  else true

/-- a packet as the selectors see it -/
structure Pkt where
  family : Nat      -- the selector type it can match (7 = IPv4, 8 = IPv6)
  proto : Nat
  port : Nat
  addr : Nat

/-- the set of packets a selector denotes (RFC 7296 section 3.13.1; protocol 0 = any) -/
def TS.matches (s : TS) (p : Pkt) : Prop :=
  p.family = s.tsType ∧ (s.ipProto = 0 ∨ p.proto = s.ipProto) ∧
  s.startPort ≤ p.port ∧ p.port ≤ s.endPort ∧ s.lo ≤ p.addr ∧ p.addr ≤ s.hi

def TS.nonEmpty (s : TS) : Prop := s.startPort ≤ s.endPort ∧ s.lo ≤ s.hi

/-! ### range <-> network -/

/-- `get_network`: widen the host network of `start` until it contains `end`; the loop is
    bounded by the address width (`supernet()` of /0 is /0).  Returns the number of host bits. -/
def hostBits : Nat → Nat → Nat → Nat → Nat
  | 0, _, _, k => k
  | fuel + 1, lo, hi, k => if hi / 2 ^ k = lo / 2 ^ k then k else hostBits fuel lo hi (k + 1)

/-- (network address, prefix length) for an address width `w` -/
def getNetwork (w lo hi : Nat) : Nat × Nat :=
  let k := hostBits (w + 1) lo hi 0
  (lo / 2 ^ k * 2 ^ k, w - k)

/-- `from_network(subnet, port, proto)`: (first, last, start port, end port) -/
def fromNetwork (w base plen port : Nat) : Nat × Nat × Nat × Nat :=
  (base, base + 2 ^ (w - plen) - 1, port, if port = 0 then 65535 else port)

/-- `get_port` -/
def getPort (startPort endPort : Nat) : Nat := if startPort = 0 ∧ endPort = 65535 then 0 else endPort

/-! ### responder policy lookup and narrowing -/

structure Policy where
  myTs : TS
  peerTs : TS
  mode : Nat          -- 0 transport, 1 tunnel

/-- the innermost loop of `_get_ipsec_configuration`: first protect entry that is larger or
    smaller than the proposed pair; returns (index, chosen TSr, chosen TSi) -/
def matchPolicies (tsi tsr : TS) : List Policy → Nat → Option (Nat × TS × TS)
  | [], _ => none
  | c :: rest, i =>
      if tsSubset tsi c.peerTs ∧ tsSubset tsr c.myTs then some (i, tsr, tsi)
      else if tsSubset c.peerTs tsi ∧ tsSubset c.myTs tsr then some (i, c.myTs, c.peerTs)
      else matchPolicies tsi tsr rest (i + 1)

def firstSome {α β} (f : α → Option β) : List α → Option β
  | [] => none
  | a :: rest => match f a with
      | some b => some b
      | none => firstSome f rest

/-- `_get_ipsec_configuration(payload_tsi, payload_tsr)`: both lists in reversed order;
    `none` is TS_UNACCEPTABLE -/
def getIpsecConf (tsis tsrs : List TS) (protect : List Policy) : Option (Nat × TS × TS) :=
  firstSome (fun tsi => firstSome (fun tsr => matchPolicies tsi tsr protect 0) tsrs.reverse) tsis.reverse

/-- mode check on the responder: USE_TRANSPORT_MODE present ⇔ transport -/
def modeOk (policyMode : Nat) (transportRequested : Bool) : Bool :=
  policyMode = (if transportRequested then 0 else 1)

/-- rekey: proposed selectors must be exactly those of the replaced SA (lists of one) -/
def rekeyTsOk (reqTsi reqTsr : List TS) (oldTsi oldTsr : TS) : Bool :=
  reqTsi = [oldTsr] ∧ reqTsr = [oldTsi]

/-- initiator: the first selector of each response payload must narrow something it offered -/
def initiatorTsOk (offTsi offTsr : List TS) (respTsi respTsr : TS) : Bool :=
  (offTsi.any fun x => tsSubset respTsi x) && (offTsr.any fun x => tsSubset respTsr x)

end PyIkev2.Impl
