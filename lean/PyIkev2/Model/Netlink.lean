/-
  Executable model of the ctypes side of xfrm.py / netlink.py:

  * `flatten`: the ctypes layout algorithm (natural alignment, little-endian host, explicit
    big-endian fields) applied to the `_fields_` tables extracted from the current source
    (`Gen.Layouts.structs`), producing a flat list of fields with explicit padding;
  * a generic record codec over such lists (`encFields` / `decFields`);
  * the request builders (NEWSA, DELSA, NEWPOLICY + template, FLUSH*) and the reply / event
    parsers, written over those layouts.
-/
import PyIkev2.Prim
import PyIkev2.Gen.Layouts

namespace PyIkev2.Impl
open PyIkev2

/-- flat field types -/
inductive FT where
  | int (size : Nat) (be : Bool)      -- unsigned integer of `size` octets
  | raw (n : Nat)                     -- octet string of exactly `n` octets (network order words included)
  | pad (n : Nat)                     -- alignment padding
  deriving DecidableEq, Repr

def FT.size : FT → Nat
  | .int s _ => s
  | .raw n => n
  | .pad n => n

inductive Val where
  | n (v : Nat)
  | b (bytes : Bytes)
  | z                                 -- padding carries no value
  deriving DecidableEq, Repr

def wrLE (size v : Nat) : Bytes := (wrBE size v).reverse
def rdLE (b : Bytes) : Nat := rdBE b.reverse

/-- ctypes stores what fits and silently drops the rest: callers state range conditions -/
def encField : FT → Val → Bytes
  | .int s true, .n v => wrBE s v
  | .int s false, .n v => wrLE s v
  | .raw n, .b bs => (bs ++ List.replicate n 0).take n
  | .pad n, _ => List.replicate n 0
  | .int s _, _ => List.replicate s 0
  | .raw n, _ => List.replicate n 0

def decField : FT → Bytes → Val
  | .int _ true, bs => .n (rdBE bs)
  | .int _ false, bs => .n (rdLE bs)
  | .raw _, bs => .b bs
  | .pad _, _ => .z

def encFields : List (FT × Val) → Bytes
  | [] => []
  | (t, v) :: rest => encField t v ++ encFields rest

/-- `NetlinkStructure.parse`: `memmove(min(len, sizeof))` — a short buffer reads as zero-extended -/
def decFields : List FT → Bytes → List Val
  | [], _ => []
  | t :: rest, bs => decField t ((bs ++ List.replicate t.size 0).take t.size) :: decFields rest (bs.drop t.size)

def totalSize (l : List FT) : Nat := (l.map FT.size).sum

/-! ### ctypes layout algorithm over the extracted `_fields_` tables -/

abbrev Table := List (String × List Gen.Layouts.Field)

def ctSize (base : String) : Nat :=
  if base = "c_ubyte" then 1 else if base = "c_uint16" then 2 else if base = "c_uint32" then 4
  else if base = "c_uint64" then 8 else if base = "c_int" then 4 else 0

def lookupStruct (t : Table) (name : String) : Option (List Gen.Layouts.Field) :=
  (t.find? fun e => e.1 = name).map (·.2)

def padTo (off align : Nat) : Nat := if align = 0 then 0 else (align - off % align) % align

mutual
/-- alignment of a field type (depth-bounded recursion through nested structures) -/
def alignOfStruct (t : Table) : Nat → String → Nat
  | 0, _ => 1
  | fuel + 1, name => match lookupStruct t name with
      | none => 1
      | some fs => fs.foldl (fun a f => Nat.max a (alignOfField t fuel f)) 1
def alignOfField (t : Table) : Nat → Gen.Layouts.Field → Nat
  | fuel, (_, kind, base, _, _) => if kind = "int" then ctSize base else alignOfStruct t fuel base
end

/-- (flat fields with paths, size) of a structure; padding made explicit -/
def flattenStruct (t : Table) : Nat → String → String → List (String × FT)
  | 0, _, _ => []
  | fuel + 1, name, pre =>
    match lookupStruct t name with
    | none => []
    | some fs =>
      let step := fun (acc : List (String × FT) × Nat) (f : Gen.Layouts.Field) =>
        let (out, off) := acc
        let (fname, kind, base, count, be) := f
        let al := alignOfField t fuel f
        let p := padTo off al
        let out := if p = 0 then out else out ++ [(pre ++ fname ++ "#pad", FT.pad p)]
        if kind = "int" then
          let sz := ctSize base
          if count ≤ 1 then (out ++ [(pre ++ fname, FT.int sz be)], off + p + sz)
          else (out ++ [(pre ++ fname, FT.raw (sz * count))], off + p + sz * count)
        else
          let inner := flattenStruct t fuel base (pre ++ fname ++ ".")
          let isz := (inner.map fun e => e.2.size).sum
          (out ++ inner, off + p + isz)
      let (out, off) := fs.foldl step ([], 0)
      let tail := padTo off (alignOfStruct t (fuel + 1) name)
      if tail = 0 then out else out ++ [(pre ++ "#tail", FT.pad tail)]

def layoutOf (name : String) : List (String × FT) := flattenStruct Gen.Layouts.structs 6 name ""

/-- (path, offset, size, big-endian int?) of the value-carrying fields: the form compared with the UAPI -/
def offsets : List (String × FT) → Nat → List (String × Nat × Nat × Bool)
  | [], _ => []
  | (p, .int s be) :: rest, off => (p, off, s, be) :: offsets rest (off + s)
  | (p, .raw n) :: rest, off => (p, off, n, true) :: offsets rest (off + n)
  | (_, .pad n) :: rest, off => offsets rest (off + n)

def constOf (name : String) : Nat := ((Gen.Layouts.consts.find? fun e => e.1 = name).map (·.2)).getD 0

end PyIkev2.Impl

namespace PyIkev2.Impl
open PyIkev2

/-! ### filling a layout with values (unset ctypes fields are zero) -/

def zeroVal : FT → Val
  | .int _ _ => .n 0
  | .raw n => .b (List.replicate n 0)
  | .pad _ => .z

def lookupPath (vals : List (String × Val)) (p : String) : Option Val :=
  match vals with
  | [] => none
  | (k, v) :: rest => if k = p then some v else lookupPath rest p

def fill (layout : List (String × FT)) (vals : List (String × Val)) : List (FT × Val) :=
  layout.map fun (p, t) => (t, (lookupPath vals p).getD (zeroVal t))

def structBytes (name : String) (vals : List (String × Val)) : Bytes := encFields (fill (layoutOf name) vals)

def structSize (name : String) : Nat := totalSize ((layoutOf name).map (·.2))

/-! ### request builders (xfrm.py) -/

structure IpNet where
  version : Nat
  first : Bytes        -- packed first address (4 or 16 octets)
  prefixlen : Nat

structure IpAddr where
  version : Nat
  packed : Bytes

def afOf (version : Nat) : Nat := if version = 4 then 2 else 10      -- socket.AF_INET / AF_INET6

/-- `XfrmAddress.from_ipaddr`: four network-order words; IPv4 fills the first -/
def addr16 (packed : Bytes) : Bytes := (packed ++ List.replicate 16 0).take 16

def selVals (pre : String) (srcSel dstSel : IpNet) (srcPort dstPort ipProto : Nat) : List (String × Val) :=
  [(pre ++ "family", .n (afOf srcSel.version)),
   (pre ++ "daddr.addr", .b (addr16 dstSel.first)),
   (pre ++ "saddr.addr", .b (addr16 srcSel.first)),
   (pre ++ "dport", .n dstPort), (pre ++ "sport", .n srcPort),
   (pre ++ "dport_mask", .n (if dstPort = 0 then 0 else 65535)),
   (pre ++ "sport_mask", .n (if srcPort = 0 then 0 else 65535)),
   (pre ++ "prefixlen_d", .n dstSel.prefixlen), (pre ++ "prefixlen_s", .n srcSel.prefixlen),
   (pre ++ "proto", .n ipProto)]

def infiniteLft (pre : String) (softAdd hardAdd : Nat) : List (String × Val) :=
  [(pre ++ "soft_byte_limit", .n 18446744073709551615), (pre ++ "hard_byte_limit", .n 18446744073709551615),
   (pre ++ "soft_packed_limit", .n 18446744073709551615), (pre ++ "hard_packet_limit", .n 18446744073709551615),
   (pre ++ "soft_add_expires_seconds", .n softAdd), (pre ++ "hard_add_expires_seconds", .n hardAdd),
   (pre ++ "soft_use_expires_seconds", .n 0), (pre ++ "hard_use_expires_seconds", .n 0)]

/-- netlink header + payload + attributes (`NetlinkProtocol.send_recv`) -/
def nlMessage (type flags seq pid : Nat) (body : Bytes) : Bytes :=
  structBytes "NetlinkHeader" [("length", .n (structSize "NetlinkHeader" + body.length)), ("type", .n type),
    ("flags", .n flags), ("seq", .n seq), ("pid", .n pid)] ++ body

/-- `_attribute_factory`: (len, code, data) with the data structure's own alignment -/
def attrBytes (code : Nat) (dataStruct : String) (vals : List (String × Val)) : Bytes :=
  let al := alignOfStruct Gen.Layouts.structs 6 dataStruct
  let p := padTo 4 al
  let size := 4 + p + structSize dataStruct
  let size := size + padTo size (Nat.max al 2)
  (wrLE 2 size ++ wrLE 2 code ++ List.replicate p 0 ++ structBytes dataStruct vals ++
    List.replicate 64 0).take size

def algoVals (name key : Bytes) : List (String × Val) :=
  [("alg_name", .b ((name ++ List.replicate 64 0).take 64)), ("alg_key_len", .n (key.length * 8)),
   ("key", .b ((key ++ List.replicate 64 0).take 64))]

def reqFlags : Nat := constOf "NLM_F_REQUEST" + constOf "NLM_F_ACK"

/-- `Xfrm.create_sa` (lifetime: `none` = -1 = infinite) -/
def newSa (srcSel dstSel : IpNet) (srcPort dstPort : Nat) (spi : Bytes) (ipProto ipsecProto mode : Nat)
    (src dst : IpAddr) (enc : Option Bytes) (skE : Bytes) (auth skA : Bytes) (lifetime : Option Nat)
    (seq pid : Nat) : Bytes :=
  let vals := selVals "sel." srcSel dstSel srcPort dstPort ipProto ++
    [("id.daddr.addr", .b (addr16 dst.packed)), ("id.proto", .n ipsecProto), ("id.spi", .b spi),
     ("family", .n (afOf src.version)), ("saddr.addr", .b (addr16 src.packed)), ("mode", .n mode)] ++
    (match lifetime with
     | none => infiniteLft "lft." 0 0
     | some l => infiniteLft "lft." l (l + 10))
  let attrs := (if ipsecProto = 50 then
                  attrBytes (constOf "XFRMA_ALG_CRYPT") "XfrmAlgo" (algoVals (enc.getD []) skE) else []) ++
               attrBytes (constOf "XFRMA_ALG_AUTH") "XfrmAlgo" (algoVals auth skA)
  nlMessage (constOf "XFRM_MSG_NEWSA") reqFlags seq pid (structBytes "XfrmUserSaInfo" vals ++ attrs)

/-- `Xfrm.delete_sa` -/
def delSa (daddr : IpAddr) (proto : Nat) (spi : Bytes) (seq pid : Nat) : Bytes :=
  nlMessage (constOf "XFRM_MSG_DELSA") reqFlags seq pid
    (structBytes "XfrmUserSaId" [("daddr.addr", .b (addr16 daddr.packed)), ("family", .n (afOf daddr.version)),
      ("proto", .n proto), ("spi", .b spi)])

/-- `Xfrm.create_policy` -/
def newPolicy (srcSel dstSel : IpNet) (srcPort dstPort ipProto direction ipsecProto mode : Nat) (src dst : IpAddr)
    (index seq pid : Nat) : Bytes :=
  let vals := selVals "sel." srcSel dstSel srcPort dstPort ipProto ++
    [("dir", .n direction), ("index", .n index), ("action", .n (constOf "XFRM_POLICY_ALLOW"))] ++ infiniteLft "lft." 0 0
  let tmpl := [("id.daddr.addr", Val.b (addr16 dst.packed)), ("id.proto", .n ipsecProto),
    ("family", .n (afOf src.version)), ("saddr.addr", .b (addr16 src.packed)),
    ("aalgos", .n 4294967295), ("ealgos", .n 4294967295), ("calgos", .n 4294967295), ("mode", .n mode)]
  nlMessage (constOf "XFRM_MSG_NEWPOLICY") reqFlags seq pid
    (structBytes "XfrmUserPolicyInfo" vals ++ attrBytes (constOf "XFRMA_TMPL") "XfrmUserTmpl" tmpl)

def flush (msgType : Nat) (seq pid : Nat) : Bytes :=
  nlMessage msgType reqFlags seq pid (structBytes "XfrmUserSaFlush" [("proto", .n 0)])

/-! ### parsing replies and events (netlink.py) -/

def parseStruct (name : String) (data : Bytes) : List (String × Val) :=
  let lay := layoutOf name
  (lay.map (·.1)).zip (decFields (lay.map (·.2)) data)

def getN (vals : List (String × Val)) (p : String) : Nat :=
  match lookupPath vals p with
  | some (.n v) => v
  | _ => 0

def getB (vals : List (String × Val)) (p : String) : Bytes :=
  match lookupPath vals p with
  | some (.b v) => v
  | _ => []

/-- `_parse_attributes`: TLVs walked by their length — padded to a multiple of four when the source does so
    (`Gen.Layouts.attrAligned`, read from the statement that advances) —, stop at length 0, needs more than 4 octets left;
    returns the XFRMA_TMPL attribute's fields if present (last one wins) -/
def parseNlAttrs : Nat → Bytes → Option (List (String × Val)) → Option (List (String × Val))
  | 0, _, acc => acc
  | fuel + 1, data, acc =>
    if data.length > 4 then
      let length := rdLE (data.take 2)
      let ty := rdLE ((data.drop 2).take 2)
      if length = 0 then acc
      else
        let acc := if ty = constOf "XFRMA_TMPL" then some (parseStruct "XfrmUserTmpl" ((data.take length).drop 4)) else acc
        parseNlAttrs fuel (data.drop (if Gen.Layouts.attrAligned then (length + 3) / 4 * 4 else length)) acc
    else acc

/-- the fields the controller reads from an ACQUIRE / EXPIRE event -/
structure Event where
  msgType : Nat
  payload : List (String × Val)
  tmpl : Option (List (String × Val))

def parseEvent (data : Bytes) : Event :=
  let hdr := parseStruct "NetlinkHeader" data
  let ty := getN hdr "type"
  let name := if ty = constOf "XFRM_MSG_ACQUIRE" then "XfrmUserAcquire"
              else if ty = constOf "XFRM_MSG_EXPIRE" then "XfrmUserExpire"
              else if ty = constOf "XFRM_MSG_NEWPOLICY" then "XfrmUserPolicyInfo"
              else if ty = constOf "NLMSG_ERROR" then "NetlinkErrorMsg" else ""
  if name = "" then { msgType := ty, payload := [], tmpl := none }
  else
    let body := data.drop 16
    let attrs := (data.take (getN hdr "length")).drop (16 + structSize name)
    { msgType := ty, payload := parseStruct name body, tmpl := parseNlAttrs (attrs.length + 1) attrs none }

/-- `send_recv`'s reply loop: an NLMSG_ERROR with a non-zero code raises NetlinkError (1); acks and
    other messages are collected; NLMSG_DONE or the end of the data ends the loop (0).  A reply
    whose header announces length 0 would never advance (2 = fuel exhausted). -/
def replyOutcome : Nat → Bytes → Nat
  | 0, _ => 2
  | fuel + 1, data =>
    if data.length = 0 then 0
    else
      let hdr := parseStruct "NetlinkHeader" data
      let ty := getN hdr "type"
      if ty = constOf "NLMSG_ERROR" ∧ getN (parseStruct "NetlinkErrorMsg" (data.drop 16)) "error" ≠ 0 then 1
      else if ty = constOf "NLMSG_DONE" then 0
      else replyOutcome fuel (data.drop (getN hdr "length"))

end PyIkev2.Impl

namespace PyIkev2.Impl
open PyIkev2

/-! ### the same layout algorithm over the numeric table (no strings: evaluable by the kernel) -/

abbrev FieldN := Nat × Nat × Nat × Bool

def alignN (t : List (List FieldN)) : Nat → Nat → Nat
  | 0, _ => 1
  | fuel + 1, id =>
    (t.getD id []).foldl (fun a (f : FieldN) =>
      Nat.max a (if f.1 = 0 then f.2.1 else alignN t fuel f.2.1)) 1

def flattenN (t : List (List FieldN)) : Nat → Nat → List FT
  | 0, _ => []
  | fuel + 1, id =>
    let step := fun (acc : List FT × Nat) (f : FieldN) =>
      let al := if f.1 = 0 then f.2.1 else alignN t fuel f.2.1
      let p := padTo acc.2 al
      let out := if p = 0 then acc.1 else acc.1 ++ [FT.pad p]
      if f.1 = 0 then
        if f.2.2.1 ≤ 1 then (out ++ [FT.int f.2.1 f.2.2.2], acc.2 + p + f.2.1)
        else (out ++ [FT.raw (f.2.1 * f.2.2.1)], acc.2 + p + f.2.1 * f.2.2.1)
      else
        let inner := flattenN t fuel f.2.1
        (out ++ inner, acc.2 + p + totalSize inner)
    let r := (t.getD id []).foldl step ([], 0)
    let tail := padTo r.2 (alignN t (fuel + 1) id)
    if tail = 0 then r.1 else r.1 ++ [FT.pad tail]

def layoutN (id : Nat) : List FT := flattenN Gen.Layouts.structsN 6 id

/-- (offset, size, network-order?) of the value-carrying fields -/
def offsetsN : List FT → Nat → List (Nat × Nat × Bool)
  | [], _ => []
  | .int s be :: rest, off => (off, s, be) :: offsetsN rest (off + s)
  | .raw n :: rest, off => (off, n, true) :: offsetsN rest (off + n)
  | .pad n :: rest, off => offsetsN rest (off + n)

def structId (name : String) : Nat := (idxOfStrN Gen.Layouts.structNames name 0).getD 99
where
  idxOfStrN : List String → String → Nat → Option Nat
    | [], _, _ => none
    | x :: xs, s, i => if x = s then some i else idxOfStrN xs s (i + 1)

end PyIkev2.Impl
