/- driver commands for the key-schedule model (prf instantiated with the Lean HMAC) -/
import PyIkev2.Model.Keys
import PyIkev2.Model.Hash

namespace PyIkev2.KeysCmd
open PyIkev2 PyIkev2.Impl

def alg (s : String) : Option Hash.Alg :=
  if s = "sha1" then some .sha1 else if s = "sha256" then some .sha256 else if s = "sha512" then some .sha512 else none

def oh (b : Option Bytes) : String := match b with | some x => hexOut x | none => "None"

def rKeyring (k : Keyring) : String :=
  " ".intercalate [oh k.skD, oh k.skAi, oh k.skAr, oh k.skEi, oh k.skEr, oh k.skPi, oh k.skPr]

def powMod (b e m : Nat) : Nat := Id.run do
  let mut r := 1 % m
  let mut base := b % m
  let mut ex := e
  while ex > 0 do
    if ex % 2 = 1 then r := r * base % m
    base := base * base % m
    ex := ex / 2
  return r

def cmd (c : String) (args : List String) : Option String :=
  match c, args with
  | "hash", [a, d] => do
      let a ← alg a; let d ← fromHex d
      pure (hexOut (a.hash d))
  | "hmac", [a, k, d] => do
      let a ← alg a; let k ← fromHex k; let d ← fromHex d
      pure (hexOut (Hash.hmac a k d))
  | "prfplus", [a, k, s, n] => do
      let a ← alg a; let k ← fromHex k; let s ← fromHex s; let n ← n.toNat?
      pure (match prfplus (Hash.hmac a) k s n with
        | .ok b => "ok " ++ hexOut b
        | r => r.tag)
  | "specprfplus", [a, k, s, n] => do
      let a ← alg a; let k ← fromHex k; let s ← fromHex s; let n ← n.toNat?
      pure ("ok " ++ hexOut (Spec.prfplus (Hash.hmac a) k s n))
  | "ikekeys", [a, ps, is, es, ni, nr, si, sr, sec, old] => do
      let a ← alg a; let ps ← ps.toNat?; let is ← is.toNat?; let es ← es.toNat?
      let ni ← fromHex ni; let nr ← fromHex nr; let si ← fromHex si; let sr ← fromHex sr; let sec ← fromHex sec
      let old ← (if old = "none" then some none else (fromHex old).map some)
      pure (match ikeKeyring (Hash.hmac a) ⟨ps, is, es⟩ ni nr si sr sec old with
        | .ok k => "ok " ++ rKeyring k
        | r => r.tag)
  | "speckeys", [a, ps, is, es, ni, nr, si, sr, sec, old] => do
      let a ← alg a; let ps ← ps.toNat?; let is ← is.toNat?; let es ← es.toNat?
      let ni ← fromHex ni; let nr ← fromHex nr; let si ← fromHex si; let sr ← fromHex sr; let sec ← fromHex sec
      let seedKey ← (if old = "none" then some (Spec.skeyseed (Hash.hmac a) ni nr sec)
                     else (fromHex old).map fun o => Spec.skeyseedRekey (Hash.hmac a) o ni nr sec)
      pure ("ok " ++ rKeyring (Spec.ikeKeys (Hash.hmac a) ⟨ps, is, es⟩ seedKey ni nr si sr))
  | "childkeys", [a, is, es, skd, seed] => do
      let a ← alg a; let is ← is.toNat?; let es ← es.toNat?; let skd ← fromHex skd; let seed ← fromHex seed
      pure (match childKeyring (Hash.hmac a) ⟨0, is, es⟩ skd seed with
        | .ok k => "ok " ++ rKeyring k
        | r => r.tag)
  | "specchildkeys", [a, is, es, skd, seed] => do
      let a ← alg a; let is ← is.toNat?; let es ← es.toNat?; let skd ← fromHex skd; let seed ← fromHex seed
      pure ("ok " ++ rKeyring (Spec.childKeys (Hash.hmac a) ⟨0, is, es⟩ skd seed))
  | "modexp", [g, base, x] => do
      let g ← g.toNat?; let base ← fromHex base; let x ← fromHex x
      let p ← (Gen.Crypto.modpPrimes.find? fun e => e.1 = g).map (·.2)
      let w ← (Gen.Crypto.modpHexLen.find? fun e => e.1 = g).map (·.2 / 2)
      pure (hexOut (wrBE w (powMod (rdBE base) (rdBE x) p)))
  | "rolekeys", [i] =>
      let k : Keyring := { skD := some [0], skAi := some [1], skAr := some [2], skEi := some [3], skEr := some [4],
                           skPi := some [5], skPr := some [6] }
      let m := myCryptoKeys k (i = "1")
      let p := peerCryptoKeys k (i = "1")
      some (" ".intercalate [oh m.1, oh m.2.1, oh m.2.2, oh p.1, oh p.2.1, oh p.2.2])
  | _, _ => none

end PyIkev2.KeysCmd
