/- driver commands for the netlink / XFRM model -/
import PyIkev2.Model.Netlink

namespace PyIkev2.NetlinkCmd
open PyIkev2 PyIkev2.Impl

def net (s : String) : Option IpNet :=
  match s.splitOn ":" with
  | [v, a, p] => do pure { version := ← v.toNat?, first := ← fromHex a, prefixlen := ← p.toNat? }
  | _ => none

def addr (s : String) : Option IpAddr :=
  match s.splitOn ":" with
  | [v, a] => do pure { version := ← v.toNat?, packed := ← fromHex a }
  | _ => none

def rVal : Val → String
  | .n v => toString v
  | .b bs => hexOut bs
  | .z => "_"

def rFields (fs : List (String × Val)) (want : List String) : String :=
  " ".intercalate (want.map fun p => p ++ "=" ++ (match lookupPath fs p with | some v => rVal v | none => "?"))

def acquireFields : List String :=
  ["id.daddr.addr", "id.spi", "id.proto", "saddr.addr", "sel.daddr.addr", "sel.saddr.addr", "sel.dport", "sel.sport",
   "sel.family", "sel.prefixlen_d", "sel.prefixlen_s", "sel.proto", "policy.index", "policy.dir", "seq"]
def expireFields : List String := ["state.id.daddr.addr", "state.id.spi", "state.id.proto", "state.family", "hard"]
def tmplFields : List String := ["id.daddr.addr", "id.proto", "family", "saddr.addr", "reqid", "mode"]

def cmd (c : String) (args : List String) : Option String :=
  match c, args with
  | "layout", [n] =>
      some (" ".intercalate ((offsets (layoutOf n) 0).map fun (p, o, s, be) =>
        p ++ ":" ++ toString o ++ ":" ++ toString s ++ ":" ++ (if be then "1" else "0")) ++ " size=" ++ toString (structSize n))
  | "newsa", [ss, ds, sp, dp, spi, ipp, isp, mode, src, dst, enc, ske, auth, ska, lt, seq, pid] => do
      let ss ← net ss; let ds ← net ds; let sp ← sp.toNat?; let dp ← dp.toNat?; let spi ← fromHex spi
      let ipp ← ipp.toNat?; let isp ← isp.toNat?; let mode ← mode.toNat?; let src ← addr src; let dst ← addr dst
      let enc ← (if enc = "none" then some none else (fromHex enc).map some)
      let ske ← fromHex ske; let auth ← fromHex auth; let ska ← fromHex ska
      let lt ← (if lt = "-1" then some none else lt.toNat?.map some)
      let seq ← seq.toNat?; let pid ← pid.toNat?
      pure (hexOut (newSa ss ds sp dp spi ipp isp mode src dst enc ske auth ska lt seq pid))
  | "delsa", [a, proto, spi, seq, pid] => do
      let a ← addr a; let proto ← proto.toNat?; let spi ← fromHex spi; let seq ← seq.toNat?; let pid ← pid.toNat?
      pure (hexOut (delSa a proto spi seq pid))
  | "newpolicy", [ss, ds, sp, dp, ipp, dir, isp, mode, src, dst, idx, seq, pid] => do
      let ss ← net ss; let ds ← net ds; let sp ← sp.toNat?; let dp ← dp.toNat?
      let ipp ← ipp.toNat?; let dir ← dir.toNat?; let isp ← isp.toNat?; let mode ← mode.toNat?
      let src ← addr src; let dst ← addr dst; let idx ← idx.toNat?; let seq ← seq.toNat?; let pid ← pid.toNat?
      pure (hexOut (newPolicy ss ds sp dp ipp dir isp mode src dst idx seq pid))
  | "flush", [t, seq, pid] => do
      let t ← t.toNat?; let seq ← seq.toNat?; let pid ← pid.toNat?
      pure (hexOut (flush t seq pid))
  | "event", [h] => do
      let d ← fromHex h
      let e := parseEvent d
      let body := if e.msgType = constOf "XFRM_MSG_ACQUIRE" then rFields e.payload acquireFields
                  else if e.msgType = constOf "XFRM_MSG_EXPIRE" then rFields e.payload expireFields else "-"
      let t := match e.tmpl with | some t => rFields t tmplFields | none => "notmpl"
      pure (toString e.msgType ++ " " ++ body ++ " | " ++ t)
  | "reply", [h] => do
      let d ← fromHex h
      pure (toString (replyOutcome (d.length + 1) d))
  | _, _ => none

end PyIkev2.NetlinkCmd
