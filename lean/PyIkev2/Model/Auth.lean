/-
  The authentication rule of ikesa.py (`_generate_auth_payload`, `_verify_auth_payload`, the two IKE_AUTH handlers),
  with prf and signature verification as parameters.
-/
import PyIkev2.Prim
import PyIkev2.Gen.Auth
import PyIkev2.Gen.Machine

namespace PyIkev2.Impl
open PyIkev2

/-- `message_data + nonce + prf(sk_p, payload_id.to_bytes())`: InitiatorSignedOctets / ResponderSignedOctets of RFC 7296 2.15 -/
def signedOctets (prf : Bytes → Bytes → Bytes) (initMsg nonce skP idBody : Bytes) : Bytes :=
  initMsg ++ nonce ++ prf skP idBody

/-- b'Key Pad for IKEv2' -/
def keyPad : Bytes := [75, 101, 121, 32, 80, 97, 100, 32, 102, 111, 114, 32, 73, 75, 69, 118, 50]

/-- `_generate_psk_auth_payload`: prf(prf(psk, "Key Pad for IKEv2"), octets) -/
def pskAuth (prf : Bytes → Bytes → Bytes) (psk octets : Bytes) : Bytes := prf (prf psk keyPad) octets

/-- the credential configured for the peer (`peer_auth`): a PSK and / or a public key (empty PSK counts as absent, as in Python) -/
structure PeerAuth (κ : Type) where
  psk : Option Bytes
  pub : Option κ

/-- `_verify_auth_payload`: method 2 = shared key, 1 = RSA signature; anything else, or a method whose credential is not
    configured, is refused -/
def verifyAuth {κ : Type} (prf : Bytes → Bytes → Bytes) (sigOk : κ → Bytes → Bytes → Bool) (cfg : PeerAuth κ)
    (method : Nat) (authData octets : Bytes) : Bool :=
  match cfg.psk, cfg.pub with
  | some psk, pub =>
    if method = 2 ∧ psk ≠ [] then pskAuth prf psk octets = authData
    else match pub with
      | some k => if method = 1 then sigOk k authData octets else false
      | none => false
  | none, some k => if method = 1 then sigOk k authData octets else false
  | none, none => false

/-- the decision of an IKE_AUTH handler (request on the responder, response on the initiator), in the order of the code:
    identity type, identity data, AUTH; only then the CHILD_SA negotiation and ESTABLISHED -/
inductive AuthOutcome where
  | failed           -- AuthenticationFailed: the IKE_SA ends, nothing is installed
  | established (childAttempted : Bool)
  deriving DecidableEq, Repr

def ikeAuthDecision (cfgIdType : Nat) (cfgIdData : Bytes) (idType : Nat) (idData : Bytes) (authOk : Bool) : AuthOutcome :=
  if idType ≠ cfgIdType then .failed
  else if idData ≠ cfgIdData then .failed
  else if ¬ authOk then .failed
  else .established true

def lenField (m : Bytes) : Nat := u32 m 24

end PyIkev2.Impl
