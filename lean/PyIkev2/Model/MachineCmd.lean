/-
  Driver command for the shell model: one loop iteration, stateless.

    miter now threshold  table  event  tape
      table := n sa*                       sa := core succ      succ := 0 | 1 core
      core  := st isInit mySpi peerSpi myId peerId keyed  msg?  msg?  rtxAt rtx dpdAt rekeyAt deleteAt dpd
               n (in out proto)*  n pend*  n idx*  myAddr peerAddr cookie
      msg?  := 0 | 1 msg                   pend := a sel sel idx | e spi hard
      event := dg? acq? exp? control sendFails
      dg?   := 0 | 1 hdr? msg? myAddr peerAddr        hdr? := 0 | 1 spiI spiR major minor exch resp higher init msgId
      acq?  := 0 | 1 myAddr peerAddr sel sel idx      exp? := 0 | 1 spi hard
      tape  := n rec*
      rec   := req|resp|gen  sa  res  n nlop*   |  new core
      res   := reply msg | request msg | nothing | ikeerr payload | othererr payload
      nlop  := N daddr proto spi | D daddr proto spi

  The handlers are instantiated with the recorded outcomes (`τ` = remaining tape × "tape did not fit").
-/
import PyIkev2.Model.Machine
import PyIkev2.Model.Wire

namespace PyIkev2.MachineCmd
open PyIkev2 PyIkev2.Impl PyIkev2.Wire

inductive Rec where
  | call (kind : String) (o : HOut)
  | new (c : SaCore)

abbrev Tape := List Rec × Bool

def optOf {α} (p : P α) : P (Option α) := do
  let b ← bool
  if b then (do let a ← p; pure (some a)) else pure none

def child : P ChildRef := do
  let i ← hex; let o ← hex; let p ← nat
  pure { inSpi := i, outSpi := o, proto := p }

def pend : P Pend := do
  let k ← tok
  if k == "a" then do let a ← sel; let b ← sel; let i ← nat; pure (.acquire a b i)
  else if k == "e" then do let s ← hex; let h ← bool; pure (.expire s h)
  else failure

def core : P SaCore := do
  let st ← nat; let isInit ← bool; let mySpi ← hex; let peerSpi ← hex; let myId ← nat; let peerId ← nat
  let keyed ← bool; let lastResp ← optOf msg; let request ← optOf msg
  let rtxAt ← nat; let rtx ← nat; let dpdAt ← nat; let rekeyAt ← nat; let deleteAt ← nat; let dpd ← nat
  let children ← listOf child; let pending ← listOf pend; let indices ← listOf nat
  let myAddr ← hex; let peerAddr ← hex; let cookie ← bool
  pure { st, isInit, mySpi, peerSpi, myId, peerId, keyed, lastResp, request, rtxAt, rtx, dpdAt, rekeyAt, deleteAt, dpd,
         children, pending, indices, myAddr, peerAddr, cookie }

def sa : P Sa := do
  let c ← core; let s ← optOf core
  pure { core := c, succ := s }

def nlop : P NlOp := do
  let k ← tok
  let d ← hex; let p ← nat; let s ← hex
  if k == "N" then pure (.newSa d p s) else if k == "D" then pure (.delSa d p s) else failure

def hres : P HRes := do
  let k ← tok
  match k with
  | "reply" => do let m ← msg; pure (.reply m)
  | "request" => do let m ← msg; pure (.request m)
  | "nothing" => pure .nothing
  | "ikeerr" => do let p ← payload; pure (.ikeError p)
  | "othererr" => do let p ← payload; pure (.otherError p)
  | _ => failure

def rec : P Rec := do
  let k ← tok
  if k == "new" then do let c ← core; pure (.new c)
  else do
    let s ← sa; let r ← hres; let nl ← listOf nlop
    pure (.call k { sa := s, res := r, nl := nl })

def hdr : P Header := do
  let si ← hex; let sr ← hex; let ma ← nat; let mi ← nat; let ex ← nat
  let r ← bool; let h ← bool; let i ← bool; let id ← nat
  pure { spiI := si, spiR := sr, major := ma, minor := mi, exch := ex, isResp := r, higher := h, isInit := i, msgId := id }

def event : P LoopEv := do
  let dg ← optOf (do let h ← optOf hdr; let m ← optOf msg; let a ← hex; let b ← hex; pure (h, m, a, b))
  let acq ← optOf (do let a ← hex; let b ← hex; let s1 ← sel; let s2 ← sel; let i ← nat; pure (a, b, s1, s2, i))
  let exp ← optOf (do let s ← hex; let h ← bool; pure (s, h))
  let c ← bool; let f ← bool
  pure { datagram := dg, acquire := acq, expire := exp, control := c, sendFails := f }

/-! the handlers: replay of the recorded outcomes -/

def dummyOut (s : Sa) : HOut := { sa := s, res := .nothing, nl := [] }

def popCall (kind : String) (t : Tape) (s : Sa) : Tape × HOut :=
  match t.1 with
  | .call k o :: rest => if k = kind then ((rest, t.2), o) else ((t.1, true), dummyOut s)
  | _ => ((t.1, true), dummyOut s)

def knownExch (e : Nat) : Bool := e = 34 ∨ e = 35 ∨ e = 36 ∨ e = 37

def tapeHandlers : Handlers Tape :=
  { req := fun t s _ m => if knownExch m.hdr.exch then let (t, o) := popCall "req" t s; (t, some o) else (t, none),
    resp := fun t s _ m => if knownExch m.hdr.exch then let (t, o) := popCall "resp" t s; (t, some o) else (t, none),
    genAcquire := fun t s _ _ _ _ => popCall "gen" t s,
    genExpire := fun t s _ _ _ => popCall "gen" t s,
    genDpd := fun t s _ => popCall "gen" t s,
    genDeleteIke := fun t s _ => popCall "gen" t s,
    genRekeyIke := fun t s _ => popCall "gen" t s,
    newSa := fun t _ _ _ _ _ => match t.1 with
      | .new c :: rest => ((rest, t.2), some c)
      | _ => (t, none) }

/-! rendering -/

def rOpt {α} (f : α → List String) : Option α → List String
  | none => ["0"]
  | some a => "1" :: f a

def rChild (c : ChildRef) : List String := [hexOut c.inSpi, hexOut c.outSpi, toString c.proto]

def rPend : Pend → List String
  | .acquire a b i => ["a"] ++ rSel a ++ rSel b ++ [toString i]
  | .expire s h => ["e", hexOut s, rB h]

def rCore (c : SaCore) : List String :=
  [toString c.st, rB c.isInit, hexOut c.mySpi, hexOut c.peerSpi, toString c.myId, toString c.peerId, rB c.keyed] ++
  rOpt rMsg c.lastResp ++ rOpt rMsg c.request ++
  [toString c.rtxAt, toString c.rtx, toString c.dpdAt, toString c.rekeyAt, toString c.deleteAt, toString c.dpd] ++
  rList rChild c.children ++ rList rPend c.pending ++ rList (fun i => [toString i]) c.indices ++
  [hexOut c.myAddr, hexOut c.peerAddr, rB c.cookie]

def rSa (s : Sa) : List String := rCore s.core ++ rOpt rCore s.succ

/-- a successor that is already a table entry is an alias of that entry in the implementation: it is rendered once, as the entry -/
def rSaIn (sas : List Sa) (s : Sa) : List String :=
  rCore s.core ++ rOpt rCore (match s.succ with | some n => if registered sas n then none else some n | none => none)

def rNl : NlOp → List String
  | .newSa d p s => ["N", hexOut d, toString p, hexOut s]
  | .delSa d p s => ["D", hexOut d, toString p, hexOut s]
  | .refusedNewSa d p s => ["N", hexOut d, toString p, hexOut s]
  | .flushSa => ["FS"]
  | .flushPolicy => ["FP"]
  | .newPolicy i d => ["P", toString i, toString d]

def cmd (c : String) (args : List String) : Option String :=
  match c with
  | "miter" => do
      let ((now, thr, sas, ev, tape), left) ← (do
        let now ← nat; let thr ← nat; let sas ← listOf sa; let ev ← event; let tape ← listOf rec
        pure (now, thr, sas, ev, tape) : P _).run args
      if left ≠ [] then none else
      let (t, o) := loopIter tapeHandlers ((tape, false) : Tape) { sas := sas, threshold := thr } now ev
      pure (join ([rB o.escaped, toString o.ran] ++ rList (rSaIn o.ctl.sas) o.ctl.sas ++
        rList (fun (x : Bytes × Bytes × Msg) => [hexOut x.1, hexOut x.2.1] ++ rMsg x.2.2) o.sent ++ rList rNl o.nl ++
        [toString t.1.length, rB t.2] ++ rOpt (fun l => rList (fun (s : Sa) => [hexOut s.core.mySpi, toString s.core.st]) l) o.status))
  | _ => none

end PyIkev2.MachineCmd
