/-
  Executable model of the algorithm / protocol / mode / port part of `configuration.py` (`_load_ike_conf`,
  `_load_ipsec_conf`, `_load_crypto_algs`, `_load_from_dict`), interpreting the tables and defaults extracted from the
  source (`Gen.Config`).  Addresses, networks, identities and credentials are compared directly by the harness.
-/
import PyIkev2.Gen.Config

namespace PyIkev2.Impl

abbrev Tr := Nat × Nat × Int          -- (type, id, key length or -1)

/-- a value that should be a list of names, as found in the dictionary -/
inductive AlgsIn where
  | absent
  | notList
  | list (names : List String)        -- `str(x)` of each element
  deriving DecidableEq, Repr

inductive CfgRes (α : Type) where
  | ok (a : α)
  | configurationError
  deriving DecidableEq, Repr

instance : Monad CfgRes where
  pure := CfgRes.ok
  bind r f := match r with | .ok a => f a | .configurationError => .configurationError

def tableLookup {β} (t : List (String × β)) (k : String) : CfgRes β :=
  match t.find? fun e => e.1 = k with
  | some e => .ok e.2
  | none => .configurationError

def mapNames (t : List (String × Tr)) : List String → CfgRes (List Tr)
  | [] => .ok []
  | n :: rest => do let x ← tableLookup t n; let xs ← mapNames t rest; pure (x :: xs)

/-- `_load_crypto_algs(key, conf_dict.get(key, default), table)` -/
def loadAlgs (t : List (String × Tr)) (dflt : List String) : AlgsIn → CfgRes (List Tr)
  | .absent => mapNames t dflt
  | .notList => .configurationError
  | .list ns => mapNames t ns

def noEsn : Tr := (5, 0, -1)

structure IpsecIn where
  proto : Option String
  encr : AlgsIn
  integ : AlgsIn
  dh : AlgsIn
  ipProto : Option String
  myPort : Option Nat
  peerPort : Option Nat
  index : Option Nat
  lifetime : Option Nat
  mode : Option String

structure IpsecOut where
  proto : Nat
  transforms : List Tr
  ipProto : Nat
  myPort : Nat
  peerPort : Nat
  index : Option Nat            -- none = drawn at random
  lifetime : Nat
  mode : Nat
  deriving DecidableEq, Repr

/-- `_load_ipsec_conf` (order of evaluation as in the source: protocol, encr, integ, dh, [AH rule], ip_proto, …, mode) -/
def loadIpsec (c : IpsecIn) : CfgRes IpsecOut := do
  let proto ← tableLookup Gen.Config.ipsecProtoTable (c.proto.getD "esp")
  let encr ← loadAlgs Gen.Config.encrTable ["aes256"] c.encr
  let integ ← loadAlgs Gen.Config.integTable ["sha256"] c.integ
  let dh ← loadAlgs Gen.Config.dhTable [] c.dh
  let encr := if proto = 2 then [] else encr
  let ipProto ← tableLookup Gen.Config.ipProtoTable (c.ipProto.getD "any")
  let mode ← tableLookup Gen.Config.modeTable (c.mode.getD "tunnel")
  pure { proto := proto, transforms := encr ++ integ ++ dh ++ [noEsn], ipProto := ipProto, myPort := c.myPort.getD 0,
         peerPort := c.peerPort.getD 0, index := c.index, lifetime := c.lifetime.getD 300, mode := mode }

structure IkeIn where
  encr : AlgsIn
  integ : AlgsIn
  prf : AlgsIn
  dh : AlgsIn
  lifetime : Option Nat
  dpd : Option Nat
  protect : List IpsecIn

structure IkeOut where
  transforms : List Tr
  lifetime : Nat
  dpd : Nat
  protect : List IpsecOut
  deriving DecidableEq, Repr

def loadProtect : List IpsecIn → CfgRes (List IpsecOut)
  | [] => .ok []
  | c :: rest => do let x ← loadIpsec c; let xs ← loadProtect rest; pure (x :: xs)

/-- `_load_ike_conf` -/
def loadIke (c : IkeIn) : CfgRes IkeOut := do
  let encr ← loadAlgs Gen.Config.encrTable ["aes256"] c.encr
  let integ ← loadAlgs Gen.Config.integTable ["sha256"] c.integ
  let prf ← loadAlgs Gen.Config.prfTable ["sha256"] c.prf
  let dh ← loadAlgs Gen.Config.dhTable ["14"] c.dh
  -- `Proposal(1, IKE, b'', encr + integ + prf + dh)`: a proposal without transforms is an InvalidSyntax, which the loader turns
  -- into the configuration error (the per-entry proposals always carry the ESN transform)
  if (encr ++ integ ++ prf ++ dh).isEmpty then .configurationError
  else do
    let protect ← loadProtect c.protect
    pure { transforms := encr ++ integ ++ prf ++ dh, lifetime := c.lifetime.getD 900, dpd := c.dpd.getD 60, protect := protect }

end PyIkev2.Impl
