/-
  Executable model of the per-exchange handlers and request generators of ikesa.py — the part the shell model
  (Model/Machine.lean) takes as a parameter.  Together they are a model of the whole IKE_SA object.

  The handlers are modelled *crypto-free*: every value that comes out of a cryptographic or random source, and
  every verdict of the kernel, is read from an **oracle tape** in the order the code consults the source:

      rand n        os.urandom(n)                                  (SPIs)
      nonce         PayloadNONCE()                                 (SystemRandom length + os.urandom)
      dhPub         DiffieHellman.from_group(g).public_key         (fails for an unsupported group)
      dhSecret      dh.compute_secret(peer KE data)                (ok / raises)
      cookie        HMAC(cookie_secret, spi_i | nonce | address)   (the expected cookie)
      authGen       _generate_auth_payload(...)                    ((method, data) / AuthenticationFailed)
      authVerify    _verify_auth_payload(...)                      (verdict: ok / AuthenticationFailed)
      install       Xfrm.create_child_sa(...)                      (0 ok / 1 first NEWSA refused / 2 second refused)
      uniform       random.uniform(a, b)                           (ticks)

  What remains is everything else the handlers do: admission by state, payload look-up, negotiation, selector
  narrowing, mode check, the bookkeeping of CHILD_SAs (`child_sas`, `creating_child_sa`, `rekeying_child_sa`,
  `deleting_child_sa`), the IKE_SA rekey hand-over, the composition of every reply and request payload by payload,
  the netlink requests, and the mapping of every exception to its NOTIFY.  Key derivation itself has no observable
  effect at this level except `peer_crypto is not None` (`keyed`); what the keys are is C04/C01's subject.

  Correspondence: harness/handlers.py records every real handler call (object before, arguments, oracle values in
  consultation order, object after, result, netlink requests) and replays it on this model (driver command `hcall`).
-/
import PyIkev2.Model.Machine
import PyIkev2.Model.Negotiate
import PyIkev2.Model.Selectors

namespace PyIkev2.Impl
open PyIkev2

/-! ### the oracle tape -/

inductive TVal where
  | bytes (b : Bytes)
  | flag (b : Bool)
  | num (n : Nat)
  | auth (method : Nat) (data : Bytes)
  | verdict (ok : Bool)          -- what `_verify_auth_payload` said about the peer's AUTH payload
  deriving DecidableEq, Repr

/-- `bad` is set when the tape does not have the kind of value the model asks for (the model and the code consulted
    their sources in a different order): a correspondence failure, never a legitimate run -/
structure Tape where
  vals : List TVal
  bad : Bool := false
  deriving Repr

/-! ### the rest of an `IkeSa` object -/

/-- `ChildSa` namedtuple.  `tsi`/`tsr` hold one selector once installed, the offered list while being created. -/
structure Child where
  inSpi : Bytes
  outSpi : Bytes
  orig : Proposal
  proposal : Proposal
  tsi : List TS
  tsr : List TS
  mode : Nat                 -- xfrm.Mode: 0 transport, 1 tunnel
  lifetime : Int
  deriving DecidableEq, Repr

/-- `IpsecConfiguration` -/
structure Protect where
  myTs : TS
  peerTs : TS
  index : Nat
  mode : Nat
  lifetime : Int
  proposal : Proposal
  deriving DecidableEq, Repr

/-- the fields of `IkeConfiguration` the handlers read -/
structure Conf where
  proposal : Proposal
  protect : List Protect
  myIdType : Nat
  myIdData : Bytes
  peerIdType : Nat
  peerIdData : Bytes
  dpd : Nat                  -- ticks
  lifetime : Nat             -- ticks
  deriving DecidableEq, Repr

structure Ext where
  conf : Conf
  chosen : Option Proposal := none
  kids : List Child := []
  creating : Option Child := none
  rekeying : Option Child := none
  deleting : Option Child := none
  deriving DecidableEq, Repr

/-- one `IkeSa` object -/
structure XSa where
  core : SaCore
  ext : Ext
  deriving DecidableEq, Repr

def Child.ref (c : Child) : ChildRef := { inSpi := c.inSpi, outSpi := c.outSpi, proto := c.proposal.proto }

/-- `child_sas` is kept in the extension; the shell's view of it is its projection -/
def XSa.setKids (x : XSa) (kids : List Child) : XSa :=
  { core := { x.core with children := kids.map Child.ref }, ext := { x.ext with kids := kids } }

/-- namedtuple equality (`in`, `remove`, `==`): field by field with `Proposal.__eq__` -/
def childEq (a b : Child) : Bool :=
  a.inSpi = b.inSpi ∧ a.outSpi = b.outSpi ∧ propEq a.orig b.orig ∧ propEq a.proposal b.proposal ∧
  a.tsi = b.tsi ∧ a.tsr = b.tsr ∧ a.mode = b.mode ∧ a.lifetime = b.lifetime

/-- `get_child_sa(spi)` on the full records -/
def getKid (kids : List Child) (spi : Bytes) : Option Child :=
  kids.find? fun c => spi = c.inSpi ∨ spi = c.outSpi

/-- `get_child_sa(spi, named_by_peer=True)`: the peer names a CHILD_SA by the SPI of its own inbound SA = our outbound one -/
def getKidOut (kids : List Child) (spi : Bytes) : Option Child :=
  kids.find? fun c => spi = c.outSpi

/-- `list.remove(x)`: the first element equal to `x` -/
def removeKid (kids : List Child) (x : Child) : List Child := kids.eraseP (childEq x)

/-! ### the handler monad: state that survives an exception -/

structure HSt where
  me : XSa
  succ : Option XSa          -- `self.new_ike_sa`
  tmp : Option XSa := none   -- a local `new_ike_sa` that is not (yet) assigned to the attribute
  tape : Tape
  nl : List NlOp := []
  sad : List (Bytes × Nat × Bytes) := []     -- the kernel's SAD as the requests issued so far have left it (daddr, protocol, SPI)
  deriving Repr

inductive Exc where
  | ike (n : Payload)        -- an IkeSaError; `n` = PayloadNOTIFY.from_exception(ex)
  | other (n : Payload)      -- anything else
  | netlink                  -- xfrm.NetlinkError (caught by name in one place)
  deriving DecidableEq, Repr

def HM (α : Type) := HSt → Except Exc α × HSt

instance : Monad HM where
  pure a := fun s => (.ok a, s)
  bind m f := fun s => match m s with
    | (.ok a, s') => f a s'
    | (.error e, s') => (.error e, s')

def HM.get : HM HSt := fun s => (.ok s, s)
def HM.modify (f : HSt → HSt) : HM Unit := fun s => (.ok (), f s)
def HM.raise {α} (e : Exc) : HM α := fun s => (.error e, s)
/-- `try … except` for the listed kinds: the handler sees the exception, the state is kept -/
def HM.tryCatch {α} (m : HM α) (h : Exc → Option (HM α)) : HM α := fun s =>
  match m s with
  | (.ok a, s') => (.ok a, s')
  | (.error e, s') => match h e with
      | some k => k s'
      | none => (.error e, s')

/-! ### NOTIFY payloads and `PayloadNOTIFY.from_exception` -/

def ptSA := 33
def ptKE := 34
def ptIDi := 35
def ptIDr := 36
def ptAUTH := 39
def ptNONCE := 40
def ptNOTIFY := 41
def ptDELETE := 42
def ptVENDOR := 43
def ptTSi := 44
def ptTSr := 45

def nINVALID_SYNTAX := 7
def nNO_PROPOSAL_CHOSEN := 14
def nINVALID_KE_PAYLOAD := 17
def nAUTHENTICATION_FAILED := 24
def nNO_ADDITIONAL_SAS := 35
def nTS_UNACCEPTABLE := 38
def nTEMPORARY_FAILURE := 43
def nCHILD_SA_NOT_FOUND := 44
def nCOOKIE := 16390
def nUSE_TRANSPORT_MODE := 16391
def nREKEY_SA := 16393

def mkNotify (proto ntype : Nat) (spi data : Bytes) : Payload :=
  { ptype := ptNOTIFY, critical := false, body := .notify proto ntype spi data }

def mkP (ptype : Nat) (b : Body) : Payload := { ptype := ptype, critical := false, body := b }

/-- the exceptions the handlers raise, with what `from_exception` makes of them -/
def excStateError : Exc := .other (mkNotify 0 nINVALID_SYNTAX [] [])          -- IkeSaStateError
def excPayloadNotFound : Exc := .ike (mkNotify 0 nINVALID_SYNTAX [] [])       -- PayloadNotFound (not in the table: default)
def excIkeSaError : Exc := .ike (mkNotify 0 nINVALID_SYNTAX [] [])            -- plain IkeSaError (error notification received)
def excNoProposal : Exc := .ike (mkNotify 0 nNO_PROPOSAL_CHOSEN [] [])
def excAuthFailed : Exc := .ike (mkNotify 0 nAUTHENTICATION_FAILED [] [])
def excTsUnacceptable : Exc := .ike (mkNotify 0 nTS_UNACCEPTABLE [] [])
def excTemporaryFailure : Exc := .ike (mkNotify 0 nTEMPORARY_FAILURE [] [])
def excInvalidKe (g : Nat) : Exc := .ike (mkNotify 0 nINVALID_KE_PAYLOAD [] (wrBE 2 g))
def excCookie (c : Bytes) : Exc := .ike (mkNotify 0 nCOOKIE [] c)
def excChildNotFound (proto : Nat) (spi : Bytes) : Exc := .ike (mkNotify proto nCHILD_SA_NOT_FOUND spi [])
def excPython : Exc := .other (mkNotify 0 nINVALID_SYNTAX [] [])              -- IndexError, struct.error, AssertionError, NetlinkError, …

/-! ### tape access -/

def popVal : HM (Option TVal) := fun s =>
  match s.tape.vals with
  | [] => (.ok none, { s with tape := { s.tape with bad := true } })
  | v :: rest => (.ok (some v), { s with tape := { s.tape with vals := rest } })

def markBad : HM Unit := HM.modify fun s => { s with tape := { s.tape with bad := true } }

def popBytes : HM Bytes := do
  match ← popVal with
  | some (.bytes b) => pure b
  | _ => markBad; pure []

/-- a source that may raise (any non-protocol exception) -/
def popBytesOrFail : HM Bytes := do
  match ← popVal with
  | some (.bytes b) => pure b
  | some (.flag false) => HM.raise excPython
  | _ => markBad; pure []

def popOk : HM Unit := do
  match ← popVal with
  | some (.flag true) => pure ()
  | some (.flag false) => HM.raise excPython
  | _ => markBad

def popNum : HM Nat := do
  match ← popVal with
  | some (.num n) => pure n
  | _ => markBad; pure 0

/-! ### message access -/

def payloadsOf (m : Msg) (encrypted : Bool) : List Payload := if encrypted then m.enc else m.payloads

/-- a pure look-up lifted into the handler monad: the state is not touched -/
def liftE {α} (x : Except Exc α) : HM α := fun s => (x, s)

/-- `get_payload(type, encrypted)`; `PayloadNotFound` when absent -/
def findPayload (m : Msg) (pt : Nat) (encrypted : Bool) : Except Exc Payload :=
  match (payloadsOf m encrypted).find? fun p => p.ptype = pt with
  | some p => .ok p
  | none => .error excPayloadNotFound

def getPayload (m : Msg) (pt : Nat) (encrypted : Bool) : HM Payload := liftE (findPayload m pt encrypted)

/-- `get_notifies(type, encrypted)`: (protocol, spi, data) of each -/
def getNotifies (m : Msg) (nt : Nat) (encrypted : Bool) : List (Nat × Bytes × Bytes) :=
  (payloadsOf m encrypted).filterMap fun p =>
    if p.ptype = ptNOTIFY then
      match p.body with
      | .notify proto t spi data => if t = nt then some (proto, spi, data) else none
      | _ => none
    else none

/-- the content of the first payload of a type (an ill-typed payload — type octet and body disagree — is never produced by
    the parser; it is treated like any other programming error) -/
def paySA (m : Msg) (encrypted : Bool) : Except Exc (List Proposal) :=
  match findPayload m ptSA encrypted with
  | .error e => .error e
  | .ok p => match p.body with | .sa ps => .ok ps | _ => .error excPython

def payKE (m : Msg) (encrypted : Bool) : Except Exc (Nat × Bytes) :=
  match findPayload m ptKE encrypted with
  | .error e => .error e
  | .ok p => match p.body with | .ke g d => .ok (g, d) | _ => .error excPython

def payNonce (m : Msg) (encrypted : Bool) : Except Exc Bytes :=
  match findPayload m ptNONCE encrypted with
  | .error e => .error e
  | .ok p => match p.body with | .nonce d => .ok d | _ => .error excPython

def payTS (m : Msg) (pt : Nat) (encrypted : Bool) : Except Exc (List TS) :=
  match findPayload m pt encrypted with
  | .error e => .error e
  | .ok p => match p.body with | .ts l => .ok l | _ => .error excPython

def payId (m : Msg) (pt : Nat) (encrypted : Bool) : Except Exc (Nat × Bytes) :=
  match findPayload m pt encrypted with
  | .error e => .error e
  | .ok p => match p.body with | .ident t d => .ok (t, d) | _ => .error excPython

/-- a NOTIFY payload whose type satisfies `f` -/
def isNotifyWith (f : Nat → Bool) (p : Payload) : Bool :=
  p.ptype = ptNOTIFY && (match p.body with
    | .notify _ t _ _ => f t
    | _ => false)

/-- `abort_on_error_notifies(message, encrypted, ignore)` -/
def abortOnErrorNotifies (m : Msg) (encrypted : Bool) (ignore : List Nat) : HM Unit :=
  if (payloadsOf m encrypted).any (isNotifyWith fun t => t < 16384 && !ignore.contains t)
  then HM.raise excIkeSaError else pure ()

/-! ### state access -/

def getMe : HM XSa := fun s => (.ok s.me, s)
def modMe (f : XSa → XSa) : HM Unit := HM.modify fun s => { s with me := f s.me }
/-- `self.child_sas.append(child)` -/
def addKid (c : Child) : HM Unit := modMe fun x => x.setKids (x.ext.kids ++ [c])
/-- `self.child_sas.remove(child)` -/
def dropKid (c : Child) : HM Unit := modMe fun x => x.setKids (removeKid x.ext.kids c)
/-- IKE_SA rekey: the successor takes over the CHILD_SAs and becomes ESTABLISHED, this IKE_SA keeps none and is REKEYED.
    `fromTmp`: the successor is the local variable, which is assigned to `self.new_ike_sa` at the same time. -/
def handOver (fromTmp : Bool) : HM Unit := HM.modify fun s =>
  let new := if fromTmp then s.tmp else s.succ
  let new := new.map fun n => { (n.setKids s.me.ext.kids) with core := { (n.setKids s.me.ext.kids).core with st := stESTABLISHED } }
  { s with succ := new, tmp := if fromTmp then none else s.tmp,
           me := { (s.me.setKids []) with core := { (s.me.setKids []).core with st := stREKEYED } } }
def modCore (f : SaCore → SaCore) : HM Unit := HM.modify fun s => { s with me := { s.me with core := f s.me.core } }
def modExt (f : Ext → Ext) : HM Unit := HM.modify fun s => { s with me := { s.me with ext := f s.me.ext } }
def setState (st : Nat) : HM Unit := modCore fun c => { c with st := st }
def emitNl (ops : List NlOp) : HM Unit := HM.modify fun s => { s with nl := s.nl ++ ops }

/-- `_check_in_states` -/
def checkInStates (states : List Nat) : HM Unit := do
  let me ← getMe
  if states.contains me.core.st then pure () else HM.raise excStateError

/-- `assert (self.state == …)` -/
def assertState (states : List Nat) : HM Unit := do
  let me ← getMe
  if states.contains me.core.st then pure () else HM.raise excPython

/-- `generate_request(exchange, payloads)` -/
def mkRequest (s : SaCore) (exch : Nat) (payloads : List Payload) : Msg :=
  { hdr := { spiI := s.spiI, spiR := s.spiR, major := 2, minor := 0, exch := exch, isResp := false,
             higher := false, isInit := s.isInit, msgId := s.myId },
    payloads := if exch = 34 then payloads else [],
    enc := if exch = 34 then [] else payloads,
    iv := none }

/-- the states of `range(ESTABLISHED, REKEYED)` and `range(ESTABLISHED, REKEYED + 1)` -/
def liveStates : List Nat := [10, 11, 12, 13, 14, 15, 16, 17]
def liveStatesAndRekeyed : List Nat := liveStates ++ [20]

def vendorId : Bytes := [112, 121, 105, 107, 101, 118, 50, 45, 48, 46, 49]     -- b'pyikev2-0.1'

def hasType (p : Proposal) (ty : Nat) : Bool := p.transforms.any fun t => t.ttype = ty
def hasDh (p : Proposal) : Bool := p.transforms.any fun t => t.ttype = 4
def withoutDh (p : Proposal) : Proposal := { p with transforms := p.transforms.filter fun t => t.ttype ≠ 4 }

/-! ### kernel -/

/-- the kernel's keys of the two SAs of a CHILD_SA as this object installs them: outbound towards the peer, inbound towards us -/
abbrev Key := Bytes × Nat × Bytes

/-- the kernel's reaction to one request (a refused NEWSA is listed but has no effect; NEWSA of a key it holds and DELSA of one
    it does not hold are refused) -/
def applyNl (sad : List Key) : NlOp → List Key
  | .newSa d q s => if sad.contains (d, q, s) then sad else sad ++ [(d, q, s)]
  | .delSa d q s => sad.filter fun e => e ≠ (d, q, s)
  | _ => sad

def outKey (x : XSa) (c : Child) : Bytes × Nat × Bytes := (x.core.peerAddr, ipsecProto c.proposal.proto, c.outSpi)
def inKey (x : XSa) (c : Child) : Bytes × Nat × Bytes := (x.core.myAddr, ipsecProto c.proposal.proto, c.inSpi)

/-- the kernel-verdict oracle: how far `create_child_sa` got, as far as the oracle has a say -/
def popVerdict (t : Tape) : Nat × Tape :=
  match t.vals with
  | .num n :: rest => (n, { t with vals := rest })
  | _ :: rest => (0, { vals := rest, bad := true })
  | [] => (0, { t with bad := true })

/-- `Xfrm.create_child_sa` followed by `child_sas.append`: outbound SA first, then inbound; if the second is refused the first
    is removed again; the CHILD_SA is tracked only when the kernel holds both.  The kernel refuses a key it already holds
    (EEXIST) and whatever else the oracle says it refuses (1: the first request, 2: the second); every attempted request is
    listed, the SAD follows the accepted ones. -/
def trackChild (c : Child) : HM Unit := fun s =>
  let ok := outKey s.me c
  let ik := inKey s.me c
  let v := (popVerdict s.tape).1
  let tape := (popVerdict s.tape).2
  -- (an SPI that is not four octets does not fit the kernel structure: ctypes raises before anything is sent)
  if c.outSpi.length ≠ 4 ∨ c.inSpi.length ≠ 4 then (.error excPython, s)
  else if s.sad.contains ok ∨ v = 1 then
    (.error .netlink, { s with tape := { tape with bad := tape.bad || (v = 0) || (v ≥ 2) }, nl := s.nl ++ [.refusedNewSa ok.1 ok.2.1 ok.2.2] })
  else if s.sad.contains ik ∨ ik = ok ∨ v ≥ 2 then
    (.error .netlink, { s with tape := { tape with bad := tape.bad || (v = 0) },
                               nl := s.nl ++ [.newSa ok.1 ok.2.1 ok.2.2, .refusedNewSa ik.1 ik.2.1 ik.2.2, .delSa ok.1 ok.2.1 ok.2.2] })
  else
    (.ok (), { s with tape := tape, nl := s.nl ++ [.newSa ok.1 ok.2.1 ok.2.2, .newSa ik.1 ik.2.1 ik.2.2], sad := s.sad ++ [ok, ik],
                      me := s.me.setKids (s.me.ext.kids ++ [c]) })

/-- "if the record is (still) in `child_sas`": `Xfrm.delete_child_sa` (a refusal is logged, never raised) followed by
    `child_sas.remove`; otherwise nothing.  (Both call sites have just established membership: `get_child_sa` returned the
    record, or `deleting_child_sa in self.child_sas` was tested.) -/
def untrackChild (c : Child) : HM Unit := fun s =>
  if s.me.ext.kids.any (childEq c) then
    let ok := outKey s.me c
    let ik := inKey s.me c
    (.ok (), { s with nl := s.nl ++ [.delSa ok.1 ok.2.1 ok.2.2, .delSa ik.1 ik.2.1 ik.2.2], sad := s.sad.filter fun e => e ≠ ok ∧ e ≠ ik,
                      me := s.me.setKids (removeKid s.me.ext.kids c) })
  else (.ok (), s)

/-! ### which object a negotiation routine works on -/

inductive Slot where
  | me          -- `self`
  | succ        -- `self.new_ike_sa`
  | tmp         -- the local variable `new_ike_sa` of `process_create_child_sa_request`
  deriving DecidableEq, Repr

def getSlot : Slot → HM XSa
  | .me => getMe
  | .succ => fun s => match s.succ with | some x => (.ok x, s) | none => (.error excPython, s)
  | .tmp => fun s => match s.tmp with | some x => (.ok x, s) | none => (.error excPython, s)

def modSlot (sl : Slot) (f : XSa → XSa) : HM Unit := HM.modify fun s =>
  match sl with
  | .me => { s with me := f s.me }
  | .succ => { s with succ := s.succ.map f }
  | .tmp => { s with tmp := s.tmp.map f }

/-! ### IKE_SA negotiation -/

/-- `IkeSa(is_initiator, peer_spi, configuration, my_addr, peer_addr)`: SPI and lifetime jitter from the tape -/
def newXSa (conf : Conf) (now : Nat) (isInit : Bool) (peerSpi myAddr peerAddr : Bytes) : HM XSa := do
  let spi ← popBytes
  let jitter ← popNum
  let rekeyAt := now + conf.lifetime + jitter
  pure { core := { st := stINITIAL, isInit := isInit, mySpi := spi, peerSpi := peerSpi, myId := 0, peerId := 0, keyed := false,
                   lastResp := none, request := none, rtxAt := 0, rtx := 0, dpdAt := now + conf.dpd, rekeyAt := rekeyAt,
                   deleteAt := rekeyAt + 30 * tick, dpd := conf.dpd, children := [], pending := [],
                   indices := conf.protect.map (·.index), myAddr := myAddr, peerAddr := peerAddr, cookie := false },
         ext := { conf := conf } }

/-- "check cookie": when the controller handed this IKE_SA the cookie secret, the first COOKIE notification of the request must
    carry HMAC(secret, SPIi | Ni | address) — the oracle value — or the request is answered with that cookie and nothing else -/
def cookieGate (x : XSa) (request : Msg) : HM Unit :=
  if x.core.cookie then do
    let expected ← popBytes
    match getNotifies request nCOOKIE false with
    | [] => HM.raise (excCookie expected)
    | (_, _, d) :: _ => if d ≠ expected then HM.raise (excCookie expected) else pure ()
  else pure ()

/-- `_process_ike_sa_negotiation_request(request, encrypted, old_sk_d)` run on the object in `sl`; returns the
    response payloads (SA, Nr, KEr) -/
def negotiateIkeRequest (sl : Slot) (request : Msg) (encrypted : Bool) : HM (List Payload) := do
  let sa ← liftE (paySA request encrypted)
  let _ ← liftE (payNonce request encrypted)
  let (keGroup, _) ← liftE (payKE request encrypted)
  let x ← getSlot sl
  -- cookie first: no negotiation state and no DH work before it is passed
  cookieGate x request
  match selectBest x.ext.conf.proposal sa with
  | none => HM.raise excNoProposal
  | some chosen0 =>
    let chosen := if chosen0.spi ≠ [] then { chosen0 with spi := x.core.mySpi } else chosen0
    -- (the attribute is assigned before the remaining checks: it survives their exceptions)
    modSlot sl fun x => { x with ext := { x.ext with chosen := some chosen } }
    let myNonce ← popBytes
    match dhGroup chosen with
    | none => HM.raise excPython                   -- StopIteration: the IKE policy always has a DH transform
    | some g =>
      if g ≠ keGroup then HM.raise (excInvalidKe g)
      let pub ← popBytesOrFail                     -- DiffieHellman.from_group
      popOk                                        -- compute_secret
      modSlot sl fun x => { x with core := { x.core with keyed := true } }
      pure [mkP ptSA (.sa [chosen]), mkP ptNONCE (.nonce myNonce), mkP ptKE (.ke g pub)]

/-- `process_ike_sa_init_request` -/
def processIkeSaInitRequest (request : Msg) : HM HRes := do
  checkInStates [stINITIAL]
  let payloads ← negotiateIkeRequest .me request false
  let me ← getMe
  let response := mkResponse me.core 34 (payloads ++ [mkP ptVENDOR (.vendor vendorId)])
  setState stINIT_RES_SENT
  pure (.reply response)

/-- `_generate_ike_sa_negotiation_request` run on the object in `sl` -/
def generateIkeNegotiation (sl : Slot) : HM (List Payload) := do
  let x ← getSlot sl
  let p := x.ext.conf.proposal
  let chosen : Proposal := { num := p.num, proto := p.proto, spi := x.core.mySpi, transforms := p.transforms }
  modSlot sl fun x => { x with ext := { x.ext with chosen := some chosen } }
  let nonce ← popBytes
  match dhGroup chosen with
  | none => HM.raise excPython
  | some g =>
    let pub ← popBytesOrFail
    pure [mkP ptSA (.sa [chosen]), mkP ptNONCE (.nonce nonce), mkP ptKE (.ke g pub)]

/-- `_generate_child_sa_negotiation_req(child_sa)` -/
def generateChildNegotiation (c : Child) : HM (List Payload) := do
  let base := [mkP ptTSi (.ts c.tsi), mkP ptTSr (.ts c.tsr),
               mkP ptSA (.sa [{ num := c.proposal.num, proto := c.proposal.proto, spi := c.inSpi, transforms := c.proposal.transforms }])]
  let ke ← match dhGroup c.proposal with
    | some g => do let pub ← popBytesOrFail; pure [mkP ptKE (.ke g pub)]
    | none => pure []
  let mode := if c.mode = 0 then [mkNotify 0 nUSE_TRANSPORT_MODE [] []] else []
  pure (base ++ ke ++ mode)

/-- `generate_ike_sa_init_request(child_sa)` -/
def generateIkeSaInitRequest (c : Child) : HM Msg := do
  assertState [stINITIAL]
  let payloads ← generateIkeNegotiation .me
  let me ← getMe
  let r := mkRequest me.core 34 (payloads ++ [mkP ptVENDOR (.vendor vendorId)])
  modCore fun k => { k with request := some r, st := stINIT_REQ_SENT }
  modExt fun e => { e with creating := some c }
  pure r

/-- `generate_create_child_sa_request(child_sa, rekeyed_child_sa)` -/
def generateCreateChildSaRequest (c : Child) (rekeyed : Option Child) : HM Msg := do
  assertState [stESTABLISHED]
  modExt fun e => { e with creating := some c }
  let payloads ← generateChildNegotiation c
  let payloads ← match rekeyed with
    | some old => do
        modExt fun e => { e with rekeying := some old }
        pure (mkNotify old.proposal.proto nREKEY_SA old.inSpi [] :: payloads)
    | none => pure payloads
  let nonce ← popBytes
  let me ← getMe
  let r := mkRequest me.core 36 (payloads ++ [mkP ptNONCE (.nonce nonce)])
  modCore fun k => { k with request := some r, st := if rekeyed.isNone then stNEW_CHILD_REQ_SENT else stREK_CHILD_REQ_SENT }
  pure r

/-- `generate_delete_child_sa_request(child_sa)` -/
def generateDeleteChildSaRequest (c : Child) : HM Msg := do
  assertState [stESTABLISHED]
  let me ← getMe
  let r := mkRequest me.core 37 [mkP ptDELETE (.delete c.proposal.proto [c.inSpi])]
  modCore fun k => { k with request := some r, st := stDEL_CHILD_REQ_SENT }
  modExt fun e => { e with deleting := some c }
  pure r

/-- `generate_dead_peer_detection_request` -/
def generateDpdRequest : HM Msg := do
  assertState [stESTABLISHED]
  let me ← getMe
  let r := mkRequest me.core 37 []
  modCore fun k => { k with request := some r, st := stDPD_REQ_SENT }
  pure r

/-- `generate_delete_ike_sa_request` -/
def generateDeleteIkeSaRequest : HM Msg := do
  assertState [stESTABLISHED, stREKEYED]
  let me ← getMe
  let r := mkRequest me.core 37 [mkP ptDELETE (.delete 1 [])]
  modCore fun k => { k with request := some r,
                            st := if k.st = stESTABLISHED then stDEL_IKE_SA_REQ_SENT else stDEL_AFTER_REKEY_IKE_SA_REQ_SENT }
  pure r

/-- `generate_rekey_ike_sa_request` -/
def generateRekeyIkeSaRequest (now : Nat) : HM Msg := do
  assertState [stESTABLISHED]
  let me ← getMe
  let new ← newXSa me.ext.conf now true [] me.core.myAddr me.core.peerAddr
  HM.modify fun s => { s with succ := some new }
  let payloads ← generateIkeNegotiation .succ
  let r := mkRequest me.core 36 payloads
  modCore fun k => { k with request := some r, st := stREK_IKE_SA_REQ_SENT }
  pure r

/-- the `ChildSa` built by `process_acquire` -/
def acquireChild (p : Protect) (tsi tsr : TS) (spi : Bytes) : Child :=
  { inSpi := spi, outSpi := [0, 0, 0, 0], orig := p.proposal, proposal := p.proposal, tsi := [tsi, p.myTs], tsr := [tsr, p.peerTs],
    mode := p.mode, lifetime := p.lifetime }

/-- the generator part of `process_acquire` (state INITIAL or ESTABLISHED, index known: checked by the shell) -/
def genAcquireH (tsi tsr : TS) (index : Nat) : HM Msg := do
  let me ← getMe
  match me.ext.conf.protect.find? fun p => p.index = index with
  | none => HM.raise excPython                       -- unreachable: the shell looked the index up
  | some p =>
    let spi ← popBytes
    let c := acquireChild p tsi tsr spi
    if me.core.st = stINITIAL then generateIkeSaInitRequest c else generateCreateChildSaRequest c none

/-- the generator part of `process_expire` -/
def genExpireH (c : ChildRef) (hard : Bool) : HM Msg := do
  let me ← getMe
  match me.ext.kids.find? fun k => k.inSpi = c.inSpi ∧ k.outSpi = c.outSpi with
  | none => do markBad; HM.raise excPython           -- the projection and the records always agree
  | some old =>
    if hard then generateDeleteChildSaRequest old
    else do
      let spi ← popBytes
      let new : Child := { inSpi := spi, outSpi := [0, 0, 0, 0], mode := old.mode, proposal := old.orig, orig := old.orig,
                           tsi := old.tsi, tsr := old.tsr, lifetime := old.lifetime }
      generateCreateChildSaRequest new (some old)

/-! ### CHILD_SA negotiation, responder -/

def policyOf (p : Protect) : Policy := { myTs := p.myTs, peerTs := p.peerTs, mode := p.mode }

/-- "handle REKEY specifics": the replaced CHILD_SA must exist, must not be in the middle of our own delete or rekey,
    and the proposed selectors must be exactly its selectors; the response starts with the REKEY_SA notification -/
def childRekeyPrelude (request : Msg) (sa : List Proposal) (tsi tsr : List TS) : HM (List Payload) := do
  let me ← getMe
  match getNotifies request nREKEY_SA true with
  | [] => pure []
  | (proto, spi, _) :: _ =>
    match getKidOut me.ext.kids spi with
    | none => HM.raise (excChildNotFound proto spi)
    | some old => do
      if me.core.st = stDEL_CHILD_REQ_SENT ∧ (me.ext.deleting.map (childEq old)) = some true then HM.raise excTemporaryFailure
      if me.core.st = stREK_CHILD_REQ_SENT ∧ (me.ext.rekeying.map (childEq old)) = some true then HM.raise excTemporaryFailure
      if tsi ≠ old.tsr ∨ tsr ≠ old.tsi then HM.raise excTsUnacceptable
      match sa with
      | [] => HM.raise excPython
      | p0 :: _ => pure [mkNotify p0.proto nREKEY_SA old.inSpi []]

/-- the nonce part: none in IKE_AUTH (the IKE_SA_INIT nonces are used), else the peer's must be there and ours is drawn -/
def childNonce (request : Msg) : HM (List Payload) :=
  if request.hdr.exch = 35 then pure [] else do
    let _ ← liftE (payNonce request true)
    let n ← popBytes
    pure [mkP ptNONCE (.nonce n)]

/-- "if KE exchange is required": group check, key pair, shared secret -/
def childKe (request : Msg) (chosen : Proposal) : HM (List Payload) :=
  if hasDh chosen then do
    let (keGroup, _) ← liftE (payKE request true)
    match dhGroup chosen with
    | none => HM.raise excPython
    | some g =>
      if g ≠ keGroup then HM.raise (excInvalidKe g)
      let pub ← popBytesOrFail
      popOk
      pure [mkP ptKE (.ke g pub)]
  else pure []

/-- the CHILD_SA record the responder creates and the kernel is asked to install; tracked only when installed -/
def childCreateResponder (chosen : Proposal) (chosenTsr chosenTsi : TS) (mode : Nat) (pol : Protect) : HM Child := do
  let spi ← popBytes
  -- (`chosen.spi = inbound_spi` is later assigned to the very object the ChildSa refers to)
  let child : Child := { outSpi := chosen.spi, inSpi := spi, proposal := { chosen with spi := spi }, tsi := [chosenTsr], tsr := [chosenTsi],
                         mode := mode, lifetime := pol.lifetime, orig := pol.proposal }
  trackChild child
  pure child

/-- the body of the `try` of `_process_create_child_sa_negotiation_req` -/
def childNegotiationReqBody (request : Msg) : HM (List Payload) := do
  let sa ← liftE (paySA request true)
  let tsi ← liftE (payTS request ptTSi true)
  let tsr ← liftE (payTS request ptTSr true)
  let me ← getMe
  if me.core.st = stREK_IKE_SA_REQ_SENT ∨ me.core.st = stDEL_IKE_SA_REQ_SENT then HM.raise excTemporaryFailure
  let pre ← childRekeyPrelude request sa tsi tsr
  let nonce ← childNonce request
  -- policy and narrowing
  match getIpsecConf tsi tsr (me.ext.conf.protect.map policyOf) with
  | none => HM.raise excTsUnacceptable
  | some (i, chosenTsr, chosenTsi) =>
    match me.ext.conf.protect[i]? with
    | none => HM.raise excPython
    | some pol =>
      let transport := ¬ (getNotifies request nUSE_TRANSPORT_MODE true).isEmpty
      let requestedMode := if transport then 0 else 1
      let modeN := if transport then [mkNotify 0 nUSE_TRANSPORT_MODE [] []] else []
      if pol.mode ≠ requestedMode then HM.raise excTsUnacceptable
      let mine := if request.hdr.exch = 35 then withoutDh pol.proposal else pol.proposal
      match selectBest mine sa with
      | none => HM.raise excNoProposal
      | some chosen =>
        let ke ← childKe request chosen
        let child ← childCreateResponder chosen chosenTsr chosenTsi requestedMode pol
        pure (pre ++ nonce ++ modeN ++ ke ++
              [mkP ptSA (.sa [{ chosen with spi := child.inSpi }]), mkP ptTSi (.ts [chosenTsi]), mkP ptTSr (.ts [chosenTsr])])

/-- `_process_create_child_sa_negotiation_req`: the two `except` clauses turn protocol errors and kernel refusals
    into one NOTIFY; anything else escapes -/
def childNegotiationReq (request : Msg) : HM (List Payload) :=
  HM.tryCatch (childNegotiationReqBody request) fun e =>
    match e with
    | .ike n =>
      match n.body with
      | .notify _ t _ _ =>
        -- TsUnacceptable, NoProposalChosen, ChildSaNotFound, TemporaryFailure, InvalidKePayload keep their NOTIFY;
        -- any other IkeSaError is reported as NO_PROPOSAL_CHOSEN
        if t = nTS_UNACCEPTABLE ∨ t = nNO_PROPOSAL_CHOSEN ∨ t = nCHILD_SA_NOT_FOUND ∨ t = nTEMPORARY_FAILURE ∨ t = nINVALID_KE_PAYLOAD
        then some (pure [n]) else some (pure [mkNotify 0 nNO_PROPOSAL_CHOSEN [] []])
      | _ => some (pure [mkNotify 0 nNO_PROPOSAL_CHOSEN [] []])
    | .netlink => some (pure [mkNotify 0 nNO_PROPOSAL_CHOSEN [] []])
    | .other _ => none

/-! ### request handlers -/

def popAuthGen : HM (Nat × Bytes) := do
  match ← popVal with
  | some (.auth m d) => pure (m, d)
  | some (.flag false) => HM.raise excAuthFailed
  | _ => markBad; pure (0, [])

/-- `_verify_auth_payload`: nothing but an explicit positive verdict lets the caller go on -/
def popAuthVerify : HM Unit := do
  match ← popVal with
  | some (.verdict true) => pure ()
  | some (.verdict false) => HM.raise excAuthFailed
  | _ => do markBad; HM.raise excAuthFailed

/-- `process_ike_auth_request` -/
def processIkeAuthRequest (request : Msg) : HM HRes := do
  checkInStates [stINIT_RES_SENT]
  let (idType, idData) ← liftE (payId request ptIDi true)
  let _ ← getPayload request ptAUTH true
  let me ← getMe
  if idType ≠ me.ext.conf.peerIdType then HM.raise excAuthFailed
  if idData ≠ me.ext.conf.peerIdData then HM.raise excAuthFailed
  popAuthVerify
  let payloads ← childNegotiationReq request
  let me ← getMe
  let idr := mkP ptIDr (.ident me.ext.conf.myIdType me.ext.conf.myIdData)
  let (method, data) ← popAuthGen
  let response := mkResponse me.core 35 (payloads ++ [idr, mkP ptAUTH (.auth method data)])
  setState stESTABLISHED
  pure (.reply response)

/-- the loop over the DELETE payloads of `process_informational_request`; `acc` = response payloads so far -/
def deleteSpis (proto : Nat) : List Bytes → List Payload → HM (List Payload)
  | [], acc => pure acc
  | spi :: rest, acc => do
    let me ← getMe
    match getKidOut me.ext.kids spi with
    | some c =>
      if c.proposal.proto = proto then do
        untrackChild c
        deleteSpis proto rest (acc ++ [mkP ptDELETE (.delete proto [c.inSpi])])
      else deleteSpis proto rest acc
    | none => deleteSpis proto rest acc

def deleteLoop : List Payload → List Payload → HM (List Payload)
  | [], acc => pure acc
  | p :: rest, acc =>
    match p.body with
    | .delete proto spis =>
      if proto = 1 then do setState stDELETED; pure []
      else if proto = 2 ∨ proto = 3 then do
        let acc ← deleteSpis proto spis acc
        deleteLoop rest acc
      else deleteLoop rest acc
    | _ => HM.raise excPython          -- a DELETE payload whose body is not one: never produced by the parser

/-- `process_informational_request` -/
def processInformationalRequest (request : Msg) : HM HRes := do
  checkInStates liveStatesAndRekeyed
  let deletes := request.enc.filter fun p => p.ptype = ptDELETE
  let payloads ← deleteLoop deletes []
  let me ← getMe
  pure (.reply (mkResponse me.core 37 payloads))

/-- the IKE_SA rekey branch of `process_create_child_sa_request`: refuse while anything else is going on; else create the
    successor, negotiate on it, and — only when that succeeded — hand the CHILD_SAs over and become REKEYED -/
def ikeRekeyRequest (now : Nat) (request : Msg) (p0 : Proposal) : HM (List Payload) := do
  let me ← getMe
  if me.core.st ≠ stESTABLISHED then pure [mkNotify 0 nTEMPORARY_FAILURE [] []]
  else do
    let new ← newXSa me.ext.conf now false p0.spi me.core.myAddr me.core.peerAddr
    HM.modify fun s => { s with tmp := some new }
    HM.tryCatch (do
        let payloads ← negotiateIkeRequest .tmp request true
        -- take over the existing CHILD_SAs
        handOver true
        pure payloads)
      fun e => match e with
        | .ike n => match n.body with
            | .notify _ t _ _ =>
              if t = nNO_PROPOSAL_CHOSEN ∨ t = nINVALID_KE_PAYLOAD then
                some (do HM.modify (fun s => { s with tmp := none }); pure [n])
              else none
            | _ => none
        | _ => none

/-- `process_create_child_sa_request` -/
def processCreateChildSaRequest (now : Nat) (request : Msg) : HM HRes := do
  checkInStates liveStates
  let sa ← liftE (paySA request true)
  match sa with
  | [] => HM.raise excPython
  | p0 :: _ =>
    let payloads ← if p0.proto = 1 then ikeRekeyRequest now request p0 else childNegotiationReq request
    let me ← getMe
    pure (.reply (mkResponse me.core 36 payloads))

/-! ### response handlers -/

/-- the first payload of type KE only (`get_payload` returns the first; the others, if any, stay) -/
def replaceFirstKe (g : Nat) (pub : Bytes) : List Payload → List Payload
  | [] => []
  | p :: rest => if p.ptype = ptKE then { p with body := .ke g pub } :: rest else p :: replaceFirstKe g pub rest

/-- `handle_invalid_ke(invalid_ke)`: the new request (the caller stores it) -/
def handleInvalidKe (data : Bytes) : HM Msg := do
  let me ← getMe
  match me.core.request with
  | none => HM.raise excPython
  | some req =>
    let encrypted := req.hdr.exch > 34
    let sa ← liftE (paySA req encrypted)
    match sa with
    | [] => HM.raise excPython
    | mine :: _ =>
      if data.length ≠ 2 then HM.raise excPython       -- struct.error
      let suggested := rdBE data
      match retryGroup mine suggested with
      | none => HM.raise excNoProposal
      | some g =>
        let pub ← popBytesOrFail
        let _ ← getPayload req ptKE encrypted
        pure (mkRequest me.core req.hdr.exch (replaceFirstKe g pub (payloadsOf req encrypted)))

/-- `process_ike_sa_negotiation_response(response, nonce, encrypted, old_sk_d)` run on the object in `sl` -/
def negotiateIkeResponse (sl : Slot) (response : Msg) (encrypted rekey : Bool) : HM Unit := do
  let sa ← liftE (paySA response encrypted)
  let _ ← liftE (payNonce response encrypted)
  let _ ← liftE (payKE response encrypted)
  let x ← getSlot sl
  match sa, x.ext.chosen with
  | p0 :: _, some offer =>
    -- one transform of every type that was offered, each from the offer (the same test as for a CHILD_SA response)
    if ¬ childResponseOk offer p0 then HM.raise excNoProposal
    modSlot sl fun x => { core := { x.core with peerSpi := if rekey then p0.spi else response.hdr.spiR },
                          ext := { x.ext with chosen := some p0 } }
    popOk                                            -- compute_secret
    -- `generate_ike_sa_key_material` looks up the PRF, INTEG and ENCR transforms of what the peer returned (StopIteration)
    if ¬ (hasType p0 2 ∧ hasType p0 3 ∧ hasType p0 1) then HM.raise excPython
    modSlot sl fun x => { x with core := { x.core with keyed := true } }
  | _, _ => HM.raise excPython

/-- `generate_ike_auth_request` -/
def generateIkeAuthRequest : HM Msg := do
  assertState [stINIT_REQ_SENT]
  let me ← getMe
  match me.ext.creating with
  | none => HM.raise excPython
  | some c =>
    let payloads ← generateChildNegotiation c
    let idi := mkP ptIDi (.ident me.ext.conf.myIdType me.ext.conf.myIdData)
    let (method, data) ← popAuthGen
    let me ← getMe
    let r := mkRequest me.core 35 (payloads ++ [idi, mkP ptAUTH (.auth method data)])
    modCore fun k => { k with request := some r, st := stAUTH_REQ_SENT }
    pure r

/-- `process_ike_sa_init_response` -/
def processIkeSaInitResponse (response : Msg) : HM HRes := do
  checkInStates [stINIT_REQ_SENT]
  match getNotifies response nINVALID_KE_PAYLOAD false with
  | (_, _, data) :: _ => do
    modCore fun k => { k with myId := 0 }
    let r ← handleInvalidKe data
    modCore fun k => { k with request := some r }
    pure (.request r)
  | [] =>
  match (payloadsOf response false).find? (isNotifyWith fun t => t = nCOOKIE) with
  | some cookie => do
    let me ← getMe
    match me.core.request with
    | none => HM.raise excPython
    | some req =>
      let r := { req with payloads := cookie :: req.payloads }
      modCore fun k => { k with request := some r, myId := 0 }
      pure (.request r)
  | none => do
    abortOnErrorNotifies response false []
    let me ← getMe
    match me.core.request with
    | none => HM.raise excPython
    | some req =>
      let _ ← liftE (payNonce req false)
      negotiateIkeResponse .me response false false
      let r ← generateIkeAuthRequest
      pure (.request r)

/-- outcome of `_process_create_child_sa_negotiation_res` as its callers distinguish it -/
inductive ChildRes where
  | created
  | rejected            -- ChildSaRejectedError: the peer said no
  | invalid             -- an IkeSaError: what the peer created is not acceptable
  deriving DecidableEq, Repr

/-- `_process_create_child_sa_negotiation_res(response)` -/
def childNegotiationResBody (response : Msg) : HM Unit := do
  let sa ← liftE (paySA response true)
  let tsi ← liftE (payTS response ptTSi true)
  let tsr ← liftE (payTS response ptTSr true)
  let transport := ¬ (getNotifies response nUSE_TRANSPORT_MODE true).isEmpty
  let me ← getMe
  if response.hdr.exch ≠ 35 then do
    match me.core.request with
    | none => HM.raise excPython
    | some req => let _ ← liftE (payNonce req true)
    let _ ← liftE (payNonce response true)
  match me.ext.creating with
  | none => HM.raise excPython
  | some creating =>
    let responseMode := if transport then 0 else 1
    if creating.mode ≠ responseMode then HM.raise excTsUnacceptable
    let mine := if response.hdr.exch = 35 then withoutDh creating.proposal else creating.proposal
    match sa with
    | [] => HM.raise excPython
    | chosen :: _ =>
      if ¬ childResponseOk mine chosen then HM.raise excNoProposal
      if hasDh chosen then do
        let _ ← liftE (payKE response true)
        popOk
      match tsi, tsr with
      | chosenTsi :: _, chosenTsr :: _ =>
        if ¬ initiatorTsOk creating.tsi creating.tsr chosenTsi chosenTsr then HM.raise excTsUnacceptable
        let child := { creating with outSpi := chosen.spi, proposal := chosen, tsi := [chosenTsi], tsr := [chosenTsr] }
        modExt fun e => { e with creating := some child }
        trackChild child
      | _, _ => HM.raise excPython

def childNegotiationRes (response : Msg) : HM ChildRes := do
  if [nNO_PROPOSAL_CHOSEN, nTS_UNACCEPTABLE, nCHILD_SA_NOT_FOUND, nTEMPORARY_FAILURE, nNO_ADDITIONAL_SAS].any
      (fun t => ¬ (getNotifies response t true).isEmpty) then pure .rejected
  else
    HM.tryCatch (do childNegotiationResBody response; pure .created) fun e =>
      match e with
      | .ike _ => some (pure .invalid)
      | _ => none

/-- `process_ike_auth_response` -/
def processIkeAuthResponse (response : Msg) : HM HRes := do
  checkInStates [stAUTH_REQ_SENT]
  abortOnErrorNotifies response true [nNO_PROPOSAL_CHOSEN, nTS_UNACCEPTABLE]
  let (idType, idData) ← liftE (payId response ptIDr true)
  let _ ← getPayload response ptAUTH true
  let me ← getMe
  if idType ≠ me.ext.conf.peerIdType then HM.raise excAuthFailed
  if idData ≠ me.ext.conf.peerIdData then HM.raise excAuthFailed
  popAuthVerify
  match ← childNegotiationRes response with
  | .invalid => do
    let me ← getMe
    match me.ext.creating with
    | none => HM.raise excPython
    | some c => let r ← generateDeleteChildSaRequest c; pure (.request r)      -- (asserts ESTABLISHED: fails here)
  | _ => do
    setState stESTABLISHED
    pure .nothing

/-- the IKE_SA rekey branch of `process_create_child_sa_response` (`me`: the object as read on entry) -/
def ikeRekeyResponse (now : Nat) (response : Msg) (me : XSa) : HM HRes :=
  match getNotifies response nINVALID_KE_PAYLOAD true with
  | (_, _, data) :: _ => do
    let r ← handleInvalidKe data
    modCore fun k => { k with request := some r }
    pure (.request r)
  | [] =>
    if ¬ (getNotifies response nTEMPORARY_FAILURE true).isEmpty then do
      let j ← popNum
      modCore fun k => { k with st := stESTABLISHED, rekeyAt := now + j }
      pure .nothing
    else if ¬ (getNotifies response nNO_ADDITIONAL_SAS true).isEmpty then do
      setState stESTABLISHED
      let r ← generateDeleteIkeSaRequest
      pure (.request r)
    else do
      match me.core.request with
      | none => HM.raise excPython
      | some req => let _ ← liftE (payNonce req true)
      negotiateIkeResponse .succ response true true
      handOver false
      let r ← generateDeleteIkeSaRequest
      pure (.request r)

/-- the CHILD_SA branch of `process_create_child_sa_response` (`prev`: the state on entry) -/
def childSaResponse (prev : Nat) (response : Msg) : HM HRes :=
  match getNotifies response nINVALID_KE_PAYLOAD true with
  | (_, _, data) :: _ => do
    let r ← handleInvalidKe data
    modCore fun k => { k with request := some r }
    pure (.request r)
  | [] => do
    setState stESTABLISHED
    match ← childNegotiationRes response with
    | .created =>
      if prev = stREK_CHILD_REQ_SENT then do
        let me ← getMe
        match me.ext.rekeying with
        | some old =>
          if me.ext.kids.any (childEq old) then do
            let r ← generateDeleteChildSaRequest old
            pure (.request r)
          else pure .nothing
        | none => pure .nothing
      else pure .nothing
    | .rejected => pure .nothing
    | .invalid => do
      let me ← getMe
      match me.ext.creating with
      | none => HM.raise excPython
      | some c => let r ← generateDeleteChildSaRequest c; pure (.request r)

/-- `process_create_child_sa_response` -/
def processCreateChildSaResponse (now : Nat) (response : Msg) : HM HRes := do
  checkInStates [stNEW_CHILD_REQ_SENT, stREK_CHILD_REQ_SENT, stREK_IKE_SA_REQ_SENT]
  abortOnErrorNotifies response true [38, 14, 35, 34, 44, 43, 36, 37, 17]
  let me ← getMe
  if me.core.st = stREK_IKE_SA_REQ_SENT then ikeRekeyResponse now response me else childSaResponse me.core.st response

/-- `process_informational_response` -/
def processInformationalResponse (response : Msg) : HM HRes := do
  checkInStates [stDEL_CHILD_REQ_SENT, stDEL_IKE_SA_REQ_SENT, stDPD_REQ_SENT, stDEL_AFTER_REKEY_IKE_SA_REQ_SENT]
  abortOnErrorNotifies response true []
  let me ← getMe
  if me.core.st = stDEL_CHILD_REQ_SENT then do
    match me.ext.deleting with
    | some d =>
      untrackChild d            -- `if self.deleting_child_sa not in self.child_sas: (log) else: delete, remove`
    | none => pure ()
    setState stESTABLISHED
    pure .nothing
  else if me.core.st = stDEL_IKE_SA_REQ_SENT ∨ me.core.st = stDEL_AFTER_REKEY_IKE_SA_REQ_SENT then do
    setState stDELETED
    pure .nothing
  else do
    setState stESTABLISHED
    pure .nothing

/-! ### dispatch by exchange type, and the outcome in the shell's vocabulary -/

def requestHandler (now : Nat) (m : Msg) : Option (HM HRes) :=
  if m.hdr.exch = 34 then some (processIkeSaInitRequest m)
  else if m.hdr.exch = 35 then some (processIkeAuthRequest m)
  else if m.hdr.exch = 36 then some (processCreateChildSaRequest now m)
  else if m.hdr.exch = 37 then some (processInformationalRequest m)
  else none

def responseHandler (now : Nat) (m : Msg) : Option (HM HRes) :=
  if m.hdr.exch = 34 then some (processIkeSaInitResponse m)
  else if m.hdr.exch = 35 then some (processIkeAuthResponse m)
  else if m.hdr.exch = 36 then some (processCreateChildSaResponse now m)
  else if m.hdr.exch = 37 then some (processInformationalResponse m)
  else none

/-- the result of running a handler: the object(s) after the call, what it returned or raised, the netlink requests -/
structure XOut where
  me : XSa
  succ : Option XSa
  res : HRes
  nl : List NlOp
  tape : Tape
  sad : List (Bytes × Nat × Bytes)
  deriving Repr

def runH (h : HM HRes) (me : XSa) (succ : Option XSa) (tape : Tape) (sad : List (Bytes × Nat × Bytes)) : XOut :=
  match h { me := me, succ := succ, tape := tape, sad := sad } with
  | (.ok r, s) => { me := s.me, succ := s.succ, res := r, nl := s.nl, tape := s.tape, sad := s.sad }
  | (.error (.ike n), s) => { me := s.me, succ := s.succ, res := .ikeError n, nl := s.nl, tape := s.tape, sad := s.sad }
  | (.error (.other n), s) => { me := s.me, succ := s.succ, res := .otherError n, nl := s.nl, tape := s.tape, sad := s.sad }
  | (.error .netlink, s) => { me := s.me, succ := s.succ, res := .otherError (mkNotify 0 nINVALID_SYNTAX [] []), nl := s.nl, tape := s.tape, sad := s.sad }

def runGen (h : HM Msg) (me : XSa) (succ : Option XSa) (tape : Tape) (sad : List (Bytes × Nat × Bytes)) : XOut :=
  runH (do let r ← h; pure (.request r)) me succ tape sad

end PyIkev2.Impl
