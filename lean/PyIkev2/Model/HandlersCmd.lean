/-
  The concrete instance of the shell's `Handlers` parameter (Model/Handlers.lean), and the driver commands that
  replay recorded executions of the real code on it.

    hcall kind now  xsa succ?  args  tape      one handler / generator call
    xiter now threshold  n confent*  n xent*  event  tape      one loop iteration of the WHOLE model (shell + handlers)

      xsa     := core ext                          (core as in `miter`)
      ext     := conf chosen? n kid* creating? rekeying? deleting?          x? := 0 | 1 x
      conf    := proposal n protect* myIdType myIdData peerIdType peerIdData dpd lifetime
      protect := sel sel index mode lifetime proposal
      kid     := inSpi outSpi proposal(original) proposal n sel* n sel* mode lifetime
      kind    := req msg | resp msg | geninit kid | gencreate kid kid? | gendelchild kid | gendpd | gendelike | genrekeyike
      tape    := n tval*         tval := b hex | f 0/1 | n nat | a method hex
      confent := myAddr peerAddr conf
      xent    := xsa succ?                          (a successor that is already a table entry: 0)
      event   := as in `miter`
-/
import PyIkev2.Model.Handlers
import PyIkev2.Model.MachineCmd

namespace PyIkev2.HandlersCmd
open PyIkev2 PyIkev2.Impl PyIkev2.Wire PyIkev2.MachineCmd

/-! ### the whole-model tape: oracle values, the extension of every IKE_SA object, the configurations -/

structure XWorld where
  tape : Impl.Tape
  exts : List (Bytes × Ext)                  -- keyed by the object's own SPI
  confs : List (Bytes × Bytes × Conf)        -- (my address, peer address) → connection
  deriving Repr

def emptyConf : Conf :=
  { proposal := { num := 0, proto := 0, spi := [], transforms := [] }, protect := [], myIdType := 0, myIdData := [],
    peerIdType := 0, peerIdData := [], dpd := 0, lifetime := 0 }

def XWorld.extOf (w : XWorld) (spi : Bytes) : Option Ext := (w.exts.find? fun e => e.1 = spi).map (·.2)

def XWorld.put (w : XWorld) (spi : Bytes) (e : Ext) : XWorld :=
  if w.exts.any fun x => x.1 = spi then { w with exts := w.exts.map fun x => if x.1 = spi then (spi, e) else x }
  else { w with exts := w.exts ++ [(spi, e)] }

/-- the object for a core: its extension from the store (a missing one is a correspondence failure) -/
def XWorld.obj (w : XWorld) (c : SaCore) : XSa × Bool :=
  match w.extOf c.mySpi with
  | some e => ({ core := c, ext := e }, false)
  | none => ({ core := c, ext := { conf := emptyConf } }, true)

def runOn (w : XWorld) (s : Sa) (h : HM HRes) : XWorld × HOut :=
  let (me, b1) := w.obj s.core
  let (succ, b2) : Option XSa × Bool := match s.succ with
    | some n => let (x, b) := w.obj n; (some x, b)
    | none => (none, false)
  let o := runH h me succ { w.tape with bad := w.tape.bad || b1 || b2 }
  let w := { w with tape := o.tape }
  let w := w.put o.me.core.mySpi o.me.ext
  let w := match o.succ with | some n => w.put n.core.mySpi n.ext | none => w
  (w, { sa := { core := o.me.core, succ := o.succ.map (·.core) }, res := o.res, nl := o.nl })

def asRequest (h : HM Msg) : HM HRes := do let r ← h; pure (.request r)

/-- the real handlers as an instance of the shell's parameter -/
def concreteHandlers : Handlers XWorld :=
  { req := fun w s now m => match requestHandler now m with
      | some h => let (w, o) := runOn w s h; (w, some o)
      | none => (w, none),
    resp := fun w s now m => match responseHandler now m with
      | some h => let (w, o) := runOn w s h; (w, some o)
      | none => (w, none),
    genAcquire := fun w s _ tsi tsr idx => runOn w s (asRequest (genAcquireH tsi tsr idx)),
    genExpire := fun w s _ c hard => runOn w s (asRequest (genExpireH c hard)),
    genDpd := fun w s _ => runOn w s (asRequest generateDpdRequest),
    genDeleteIke := fun w s _ => runOn w s (asRequest generateDeleteIkeSaRequest),
    genRekeyIke := fun w s now => runOn w s (asRequest (generateRekeyIkeSaRequest now)),
    newSa := fun w now isInit peerSpi myAddr peerAddr =>
      match w.confs.find? fun c => c.1 = myAddr ∧ c.2.1 = peerAddr with
      | none => (w, none)
      | some (_, _, conf) =>
        let dummy : XSa := { core := { st := 0, isInit := isInit, mySpi := [], peerSpi := [], myId := 0, peerId := 0, keyed := false,
                                       lastResp := none, request := none, rtxAt := 0, rtx := 0, dpdAt := 0, rekeyAt := 0, deleteAt := 0, dpd := 0,
                                       children := [], pending := [], indices := [], myAddr := myAddr, peerAddr := peerAddr, cookie := false },
                             ext := { conf := conf } }
        match newXSa conf now isInit peerSpi myAddr peerAddr { me := dummy, succ := none, tape := w.tape } with
        | (.ok x, s) => (({ w with tape := s.tape }).put x.core.mySpi x.ext, some x.core)
        | (.error _, s) => ({ w with tape := s.tape }, none) }

/-! ### parsing -/

def int : P Int := do
  let t ← tok
  match t.toInt? with
  | some n => pure n
  | none => failure

def kid : P Child := do
  let i ← hex; let o ← hex; let orig ← proposal; let p ← proposal; let tsi ← listOf sel; let tsr ← listOf sel
  let m ← nat; let l ← int
  pure { inSpi := i, outSpi := o, orig := orig, proposal := p, tsi := tsi, tsr := tsr, mode := m, lifetime := l }

def protect : P Protect := do
  let a ← sel; let b ← sel; let i ← nat; let m ← nat; let l ← int; let p ← proposal
  pure { myTs := a, peerTs := b, index := i, mode := m, lifetime := l, proposal := p }

def conf : P Conf := do
  let p ← proposal; let pr ← listOf protect
  let a ← nat; let b ← hex; let c ← nat; let d ← hex; let dpd ← nat; let lt ← nat
  pure { proposal := p, protect := pr, myIdType := a, myIdData := b, peerIdType := c, peerIdData := d, dpd := dpd, lifetime := lt }

def ext : P Ext := do
  let c ← conf; let ch ← optOf proposal; let kids ← listOf kid
  let cr ← optOf kid; let rk ← optOf kid; let dl ← optOf kid
  pure { conf := c, chosen := ch, kids := kids, creating := cr, rekeying := rk, deleting := dl }

def xsa : P XSa := do
  let c ← core; let e ← ext
  pure { core := c, ext := e }

def tval : P TVal := do
  let k ← tok
  match k with
  | "b" => do let b ← hex; pure (.bytes b)
  | "f" => do let b ← bool; pure (.flag b)
  | "n" => do let n ← nat; pure (.num n)
  | "a" => do let m ← nat; let d ← hex; pure (.auth m d)
  | _ => failure

/-! ### rendering -/

def rInt (i : Int) : String := toString i

def rKid (c : Child) : List String :=
  [hexOut c.inSpi, hexOut c.outSpi] ++ rProposal c.orig ++ rProposal c.proposal ++ rList rSel c.tsi ++ rList rSel c.tsr ++
  [toString c.mode, rInt c.lifetime]

def rProtect (p : Protect) : List String :=
  rSel p.myTs ++ rSel p.peerTs ++ [toString p.index, toString p.mode, rInt p.lifetime] ++ rProposal p.proposal

def rConf (c : Conf) : List String :=
  rProposal c.proposal ++ rList rProtect c.protect ++
  [toString c.myIdType, hexOut c.myIdData, toString c.peerIdType, hexOut c.peerIdData, toString c.dpd, toString c.lifetime]

def rExt (e : Ext) : List String :=
  rConf e.conf ++ rOpt rProposal e.chosen ++ rList rKid e.kids ++ rOpt rKid e.creating ++ rOpt rKid e.rekeying ++ rOpt rKid e.deleting

def rXSa (x : XSa) : List String := rCore x.core ++ rExt x.ext

def rHRes : HRes → List String
  | .reply m => "reply" :: rMsg m
  | .request m => "request" :: rMsg m
  | .nothing => ["nothing"]
  | .ikeError p => "ikeerr" :: rPayload p
  | .otherError p => "othererr" :: rPayload p

/-! ### commands -/

def hkind : P (Nat → HM HRes) := do
  let k ← tok
  match k with
  | "req" => do let m ← msg; pure fun now => (requestHandler now m).getD (HM.raise excPython)
  | "resp" => do let m ← msg; pure fun now => (responseHandler now m).getD (HM.raise excPython)
  | "geninit" => do let c ← kid; pure fun _ => asRequest (generateIkeSaInitRequest c)
  | "gencreate" => do let c ← kid; let r ← optOf kid; pure fun _ => asRequest (generateCreateChildSaRequest c r)
  | "gendelchild" => do let c ← kid; pure fun _ => asRequest (generateDeleteChildSaRequest c)
  | "gendpd" => pure fun _ => asRequest generateDpdRequest
  | "gendelike" => pure fun _ => asRequest generateDeleteIkeSaRequest
  | "genrekeyike" => pure fun now => asRequest (generateRekeyIkeSaRequest now)
  | _ => failure

def cmd (c : String) (args : List String) : Option String :=
  match c with
  | "hcall" => do
      let ((now, me, succ, h, tape), left) ← (do
        let now ← nat; let me ← xsa; let succ ← optOf xsa; let h ← hkind; let tape ← listOf tval
        pure (now, me, succ, h, tape) : P _).run args
      if left ≠ [] then none else
      let o := runH (h now) me succ { vals := tape }
      pure (join (rXSa o.me ++ rOpt rXSa o.succ ++ rHRes o.res ++ rList rNl o.nl ++ [toString o.tape.vals.length, rB o.tape.bad]))
  | "xiter" => do
      let ((now, thr, confs, ents, ev, tape), left) ← (do
        let now ← nat; let thr ← nat
        let confs ← listOf (do let a ← hex; let b ← hex; let c ← conf; pure (a, b, c))
        let ents ← listOf (do let x ← xsa; let s ← optOf xsa; pure (x, s))
        let ev ← event; let tape ← listOf tval
        pure (now, thr, confs, ents, ev, tape) : P _).run args
      if left ≠ [] then none else
      let sas : List Sa := ents.map fun (x, s) => { core := x.core, succ := s.map (·.core) }
      let exts := ents.flatMap fun (x, s) => (x.core.mySpi, x.ext) :: (match s with | some n => [(n.core.mySpi, n.ext)] | none => [])
      let w : XWorld := { tape := { vals := tape }, exts := exts, confs := confs }
      let (w, o) := loopIter concreteHandlers w { sas := sas, threshold := thr } now ev
      let rEnt := fun (s : Sa) =>
        rSaIn o.ctl.sas s ++ rOpt rExt (w.extOf s.core.mySpi) ++
          rOpt rExt (match s.succ with | some n => if registered o.ctl.sas n then none else w.extOf n.mySpi | none => none)
      pure (join ([rB o.escaped, toString o.ran] ++ rList rEnt o.ctl.sas ++
        rList (fun (x : Bytes × Bytes × Msg) => [hexOut x.1, hexOut x.2.1] ++ rMsg x.2.2) o.sent ++ rList rNl o.nl ++
        [toString w.tape.vals.length, rB w.tape.bad] ++ rOpt (fun l => rList (fun (s : Sa) => [hexOut s.core.mySpi, toString s.core.st]) l) o.status))
  | _ => none

end PyIkev2.HandlersCmd
