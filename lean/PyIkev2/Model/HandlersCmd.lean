/-
  The concrete instance of the shell's `Handlers` parameter (Model/Handlers.lean), and the driver commands that
  replay recorded executions of the real code on it.

    hcall kind now  xsa succ?  args  tape  sad      one handler / generator call     sad := n (daddr proto spi)*
    xiter now threshold  n confent*  n xent*  event  tape  sad      one loop iteration of the WHOLE model (shell + handlers)

      xsa     := core ext                          (core as in `miter`)
      ext     := conf chosen? n kid* creating? rekeying? deleting?          x? := 0 | 1 x
      conf    := proposal n protect* myIdType myIdData peerIdType peerIdData dpd lifetime
      protect := sel sel index mode lifetime proposal
      kid     := inSpi outSpi proposal(original) proposal n sel* n sel* mode lifetime
      kind    := req msg | resp msg | geninit kid | gencreate kid kid? | gendelchild kid | gendpd | gendelike | genrekeyike
      tape    := n tval*         tval := b hex | f 0/1 | n nat | a method hex | v 0/1
      confent := myAddr peerAddr conf
      xent    := xsa succ?                          (a successor that is already a table entry: 0)
      event   := as in `miter`
-/
import PyIkev2.Model.Whole
import PyIkev2.Model.MachineCmd

namespace PyIkev2.HandlersCmd
open PyIkev2 PyIkev2.Impl PyIkev2.Wire PyIkev2.MachineCmd

/-! ### parsing -/

def int : P Int := do
  let t ← tok
  match t.toInt? with
  | some n => pure n
  | none => failure

def kid : P Child := do
  let i ← hex; let o ← hex; let orig ← proposal; let p ← proposal; let tsi ← listOf sel; let tsr ← listOf sel
  let m ← nat; let l ← int
  pure { inSpi := i, outSpi := o, orig := orig, proposal := p, tsi := tsi, tsr := tsr, mode := m, lifetime := l }

def protect : P Protect := do
  let a ← sel; let b ← sel; let i ← nat; let m ← nat; let l ← int; let p ← proposal
  pure { myTs := a, peerTs := b, index := i, mode := m, lifetime := l, proposal := p }

def conf : P Conf := do
  let p ← proposal; let pr ← listOf protect
  let a ← nat; let b ← hex; let c ← nat; let d ← hex; let dpd ← nat; let lt ← nat
  pure { proposal := p, protect := pr, myIdType := a, myIdData := b, peerIdType := c, peerIdData := d, dpd := dpd, lifetime := lt }

def ext : P Ext := do
  let c ← conf; let ch ← optOf proposal; let kids ← listOf kid
  let cr ← optOf kid; let rk ← optOf kid; let dl ← optOf kid
  pure { conf := c, chosen := ch, kids := kids, creating := cr, rekeying := rk, deleting := dl }

def xsa : P XSa := do
  let c ← core; let e ← ext
  pure { core := c, ext := e }

def key : P (Bytes × Nat × Bytes) := do
  let d ← hex; let p ← nat; let s ← hex
  pure (d, p, s)

def rKey (k : Bytes × Nat × Bytes) : List String := [hexOut k.1, toString k.2.1, hexOut k.2.2]

def tval : P TVal := do
  let k ← tok
  match k with
  | "b" => do let b ← hex; pure (.bytes b)
  | "f" => do let b ← bool; pure (.flag b)
  | "n" => do let n ← nat; pure (.num n)
  | "a" => do let m ← nat; let d ← hex; pure (.auth m d)
  | "v" => do let b ← bool; pure (.verdict b)
  | _ => failure

/-! ### rendering -/

def rInt (i : Int) : String := toString i

def rKid (c : Child) : List String :=
  [hexOut c.inSpi, hexOut c.outSpi] ++ rProposal c.orig ++ rProposal c.proposal ++ rList rSel c.tsi ++ rList rSel c.tsr ++
  [toString c.mode, rInt c.lifetime]

def rProtect (p : Protect) : List String :=
  rSel p.myTs ++ rSel p.peerTs ++ [toString p.index, toString p.mode, rInt p.lifetime] ++ rProposal p.proposal

def rConf (c : Conf) : List String :=
  rProposal c.proposal ++ rList rProtect c.protect ++
  [toString c.myIdType, hexOut c.myIdData, toString c.peerIdType, hexOut c.peerIdData, toString c.dpd, toString c.lifetime]

def rExt (e : Ext) : List String :=
  rConf e.conf ++ rOpt rProposal e.chosen ++ rList rKid e.kids ++ rOpt rKid e.creating ++ rOpt rKid e.rekeying ++ rOpt rKid e.deleting

def rXSa (x : XSa) : List String := rCore x.core ++ rExt x.ext

def rHRes : HRes → List String
  | .reply m => "reply" :: rMsg m
  | .request m => "request" :: rMsg m
  | .nothing => ["nothing"]
  | .ikeError p => "ikeerr" :: rPayload p
  | .otherError p => "othererr" :: rPayload p

/-! ### commands -/

def hkind : P (Nat → HM HRes) := do
  let k ← tok
  match k with
  | "req" => do let m ← msg; pure fun now => (requestHandler now m).getD (HM.raise excPython)
  | "resp" => do let m ← msg; pure fun now => (responseHandler now m).getD (HM.raise excPython)
  | "geninit" => do let c ← kid; pure fun _ => asRequest (generateIkeSaInitRequest c)
  | "gencreate" => do let c ← kid; let r ← optOf kid; pure fun _ => asRequest (generateCreateChildSaRequest c r)
  | "gendelchild" => do let c ← kid; pure fun _ => asRequest (generateDeleteChildSaRequest c)
  | "gendpd" => pure fun _ => asRequest generateDpdRequest
  | "gendelike" => pure fun _ => asRequest generateDeleteIkeSaRequest
  | "genrekeyike" => pure fun now => asRequest (generateRekeyIkeSaRequest now)
  | _ => failure

/-- what one loop iteration shows: entries (with the objects behind them), datagrams, netlink requests, oracle values left, status,
    and the kernel after the round -/
def renderIter (w : XWorld) (o : IterOut) (sad : List Key) (tapeLeft : Nat) : String :=
  let rEnt := fun (s : Sa) =>
    rSaIn o.ctl.sas s ++ rOpt rExt (w.extOf s.core.mySpi) ++
      rOpt rExt (match s.succ with | some n => if registered o.ctl.sas n then none else w.extOf n.mySpi | none => none)
  join ([rB o.escaped, toString o.ran] ++ rList rEnt o.ctl.sas ++
    rList (fun (x : Bytes × Bytes × Msg) => [hexOut x.1, hexOut x.2.1] ++ rMsg x.2.2) o.sent ++ rList rNl o.nl ++
    [toString (w.tape.vals.length - tapeLeft), rB (w.tape.bad || w.clash)] ++
    rOpt (fun l => rList (fun (s : Sa) => [hexOut s.core.mySpi, toString s.core.st]) l) o.status ++
    rList rKey (o.nl.foldl applyNl sad))

def cmd (c : String) (args : List String) : Option String :=
  match c with
  | "xrun" => do
      -- several rounds in a row, the model carrying its own state from round to round (`wholeStep2`); the oracle values of all
      -- rounds are one tape
      let ((thr, confs, ents, sad, rounds), left) ← (do
        let thr ← nat
        let confs ← listOf (do let a ← hex; let b ← hex; let c ← conf; pure (a, b, c))
        let ents ← listOf (do let x ← xsa; let s ← optOf xsa; pure (x, s))
        let sad ← listOf key
        let rounds ← listOf (do let now ← nat; let ev ← event; let tape ← listOf tval; pure (now, ev, tape))
        pure (thr, confs, ents, sad, rounds) : P _).run args
      if left ≠ [] then none else
      let sas : List Sa := ents.map fun (x, s) => { core := x.core, succ := s.map (·.core) }
      let exts := ents.flatMap fun (x, s) => (x.core.mySpi, x.ext) :: (match s with | some n => [(n.core.mySpi, n.ext)] | none => [])
      let total := (rounds.map fun r => r.2.2.length).sum
      let w0 : XWorld := { tape := { vals := rounds.flatMap fun r => r.2.2 }, exts := exts, confs := confs, sad := sad }
      let res := rounds.foldl (fun (acc : (XWorld × Ctl) × Nat × List String) r =>
          let wc := acc.1
          let used := acc.2.1 + r.2.2.length
          let (w1, o) := loopIter concreteHandlers wc.1 wc.2 r.1 r.2.1
          (wholeStep2 wc (r.1, r.2.1), used, acc.2.2 ++ [renderIter w1 o wc.1.sad (total - used)]))
        ((w0, ({ sas := sas, threshold := thr } : Ctl)), 0, [])
      pure (String.intercalate " | " res.2.2)
  | "hcall" => do
      let ((now, me, succ, h, tape, sad), left) ← (do
        let now ← nat; let me ← xsa; let succ ← optOf xsa; let h ← hkind; let tape ← listOf tval; let sad ← listOf key
        pure (now, me, succ, h, tape, sad) : P _).run args
      if left ≠ [] then none else
      let o := runH (h now) me succ { vals := tape } sad
      pure (join (rXSa o.me ++ rOpt rXSa o.succ ++ rHRes o.res ++ rList rNl o.nl ++ [toString o.tape.vals.length, rB o.tape.bad] ++ rList rKey o.sad))
  | "xiter" => do
      let ((now, thr, confs, ents, ev, tape, sad), left) ← (do
        let now ← nat; let thr ← nat
        let confs ← listOf (do let a ← hex; let b ← hex; let c ← conf; pure (a, b, c))
        let ents ← listOf (do let x ← xsa; let s ← optOf xsa; pure (x, s))
        let ev ← event; let tape ← listOf tval; let sad ← listOf key
        pure (now, thr, confs, ents, ev, tape, sad) : P _).run args
      if left ≠ [] then none else
      let sas : List Sa := ents.map fun (x, s) => { core := x.core, succ := s.map (·.core) }
      let exts := ents.flatMap fun (x, s) => (x.core.mySpi, x.ext) :: (match s with | some n => [(n.core.mySpi, n.ext)] | none => [])
      let w : XWorld := { tape := { vals := tape }, exts := exts, confs := confs, sad := sad }
      let (w, o) := loopIter concreteHandlers w { sas := sas, threshold := thr } now ev
      pure (renderIter w o sad 0)
  | _ => none

end PyIkev2.HandlersCmd
