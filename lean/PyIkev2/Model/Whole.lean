/-
  The whole model: the shell (Model/Machine.lean) instantiated with the concrete handlers (Model/Handlers.lean).
  The shell threads an opaque tape; here it is the oracle tape together with the part of every IKE_SA object the
  shell does not know about (`Ext`, keyed by the object's own SPI) and the configured connections.
-/
import PyIkev2.Model.Handlers

namespace PyIkev2.Impl
open PyIkev2

/-! ### the whole-model tape: oracle values, the extension of every IKE_SA object, the configurations -/

structure XWorld where
  tape : Impl.Tape
  exts : List (Bytes × Ext)                  -- keyed by the object's own SPI
  confs : List (Bytes × Bytes × Conf)        -- (my address, peer address) → connection
  sad : List (Bytes × Nat × Bytes) := []     -- the kernel's SAD as the handlers' requests have left it
  /-- a NEW object was given an SPI under which another object is already stored: Python objects have identity, the model
      only has the SPI (64 random bits), so from here on the model may confuse the two objects; sticky -/
  clash : Bool := false
  deriving Repr

def emptyConf : Conf :=
  { proposal := { num := 0, proto := 0, spi := [], transforms := [] }, protect := [], myIdType := 0, myIdData := [],
    peerIdType := 0, peerIdData := [], dpd := 0, lifetime := 0 }

def XWorld.extOf (w : XWorld) (spi : Bytes) : Option Ext := (w.exts.find? fun e => e.1 = spi).map (·.2)

def XWorld.put (w : XWorld) (spi : Bytes) (e : Ext) : XWorld :=
  if w.exts.any fun x => x.1 = spi then { w with exts := w.exts.map fun x => if x.1 = spi then (spi, e) else x }
  else { w with exts := w.exts ++ [(spi, e)] }

/-- store the extension of an object that did not exist before the call -/
def XWorld.putNew (w : XWorld) (spi : Bytes) (e : Ext) : XWorld :=
  { w.put spi e with clash := w.clash || w.exts.any fun x => x.1 = spi }

/-- the object for a core: its extension from the store (a missing one is a correspondence failure) -/
def XWorld.obj (w : XWorld) (c : SaCore) : XSa × Bool :=
  match w.extOf c.mySpi with
  | some e => ({ core := c, ext := e }, false)
  | none => ({ core := c, ext := { conf := emptyConf } }, true)

def runOn (w : XWorld) (s : Sa) (h : HM HRes) : XWorld × HOut :=
  let (me, b1) := w.obj s.core
  let (succ, b2) : Option XSa × Bool := match s.succ with
    | some n => let (x, b) := w.obj n; (some x, b)
    | none => (none, false)
  let o := runH h me succ { w.tape with bad := w.tape.bad || b1 || b2 } w.sad
  let w := { w with tape := o.tape, sad := o.sad }
  let w := w.put o.me.core.mySpi o.me.ext
  let w := match o.succ with
    | some n => if s.succ.map (·.mySpi) = some n.core.mySpi then w.put n.core.mySpi n.ext else w.putNew n.core.mySpi n.ext
    | none => w
  (w, { sa := { core := o.me.core, succ := o.succ.map (·.core) }, res := o.res, nl := o.nl })

def asRequest (h : HM Msg) : HM HRes := do let r ← h; pure (.request r)

/-- the real handlers as an instance of the shell's parameter -/
def concreteHandlers : Handlers XWorld :=
  { req := fun w s now m => match requestHandler now m with
      | some h => let (w, o) := runOn w s h; (w, some o)
      | none => (w, none),
    resp := fun w s now m => match responseHandler now m with
      | some h => let (w, o) := runOn w s h; (w, some o)
      | none => (w, none),
    genAcquire := fun w s _ tsi tsr idx => runOn w s (asRequest (genAcquireH tsi tsr idx)),
    genExpire := fun w s _ c hard => runOn w s (asRequest (genExpireH c hard)),
    genDpd := fun w s _ => runOn w s (asRequest generateDpdRequest),
    genDeleteIke := fun w s _ => runOn w s (asRequest generateDeleteIkeSaRequest),
    genRekeyIke := fun w s now => runOn w s (asRequest (generateRekeyIkeSaRequest now)),
    newSa := fun w now isInit peerSpi myAddr peerAddr =>
      match w.confs.find? fun c => c.1 = myAddr ∧ c.2.1 = peerAddr with
      | none => (w, none)
      | some (_, _, conf) =>
        let dummy : XSa := { core := { st := 0, isInit := isInit, mySpi := [], peerSpi := [], myId := 0, peerId := 0, keyed := false,
                                       lastResp := none, request := none, rtxAt := 0, rtx := 0, dpdAt := 0, rekeyAt := 0, deleteAt := 0, dpd := 0,
                                       children := [], pending := [], indices := [], myAddr := myAddr, peerAddr := peerAddr, cookie := false },
                             ext := { conf := conf } }
        match newXSa conf now isInit peerSpi myAddr peerAddr { me := dummy, succ := none, tape := w.tape } with
        | (.ok x, s) => (({ w with tape := s.tape }).putNew x.core.mySpi x.ext, some x.core)
        | (.error _, s) => ({ w with tape := s.tape }, none) }

/-! ### rounds

  One `select` round of the whole model: the loop iteration, after which the kernel has executed the netlink requests the iteration issued —
  in order — and the handlers' picture of the kernel is that kernel.  Between two rounds an entry that is past its hand-over drops its
  successor reference: in the implementation `new_ike_sa` is a reference to an object that then *is* a table entry (and evolves as that
  entry) or has ended; the replay of every real iteration hands the model a successor only while it is pending. -/

/-- REKEYED, DEL_AFTER_REKEY_IKE_SA_REQ_SENT, DELETED: the states after the hand-over -/
def inPost (st : Nat) : Prop := st = stREKEYED ∨ st = stDEL_AFTER_REKEY_IKE_SA_REQ_SENT ∨ st = stDELETED

instance : DecidablePred inPost := fun x => by unfold inPost; infer_instance

def wholeStep (wc : XWorld × Ctl) (x : Nat × LoopEv) : XWorld × Ctl :=
  let r := loopIter concreteHandlers wc.1 wc.2 x.1 x.2
  ({ r.1 with sad := r.2.nl.foldl applyNl wc.1.sad }, r.2.ctl)

def wholeRun (wc : XWorld × Ctl) (evs : List (Nat × LoopEv)) : XWorld × Ctl := evs.foldl wholeStep wc

def normSas (c : List Sa) : List Sa := c.map fun s => if inPost s.core.st then { s with succ := none } else s

def wholeStep2 (wc : XWorld × Ctl) (x : Nat × LoopEv) : XWorld × Ctl :=
  let r := wholeStep wc x
  (r.1, { r.2 with sas := normSas r.2.sas })

def wholeRun2 (wc : XWorld × Ctl) (evs : List (Nat × LoopEv)) : XWorld × Ctl := evs.foldl wholeStep2 wc


end PyIkev2.Impl
