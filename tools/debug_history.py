#!/venv/bin/python
"""tools/debug_history.py <replay.json>  — re-executes a schedule printing states and emitted headers after every operation"""
import json, sys
sys.path.insert(0, '/verif/harness')
import common; common.import_repo()
import campaign as CP, stateful as S, message as M
rep = json.load(open(sys.argv[1]))
r = rep['replay'] if 'replay' in rep else rep
with CP.History(r['seed'], trace=False, **(r.get('conf') or {})) as h:
    if r.get('faults'): S.apply_faults(h, r['faults'])
    for op in r['ops']:
        h.op(op[0], *[S.conv(a) for a in op[1:]])
        def hd(d):
            try:
                x = M.Message.parse(d.data, header_only=True); return (d.id, d.sender, int(x.exchange_type), 'R' if x.is_response else 'Q', x.message_id)
            except Exception: return (d.id, d.sender, '?')
        print(op, '->', [(e.name, [(CP.ST[int(s.state)], 'I' if s.is_initiator else 'R', s.my_msg_id, s.peer_msg_id, len(s.child_sas), s.retransmissions) for s in e.sas()], len(e.kernel.sad)) for e in (h.w.A, h.w.B)],
              [hd(d) for d in h.w.sent[h.sent_before:]], 'esc', h.w.A.escaped[-1:], h.w.B.escaped[-1:])
