#!/usr/bin/env python3
"""tools/run_all.py [tier] [seed ...]  — runs every claimed check on the current tree; prints one line per check and seed"""
import json, os, subprocess, sys, time
VERIF = os.path.dirname(os.path.dirname(os.path.abspath(__file__)))
tier = sys.argv[1] if len(sys.argv) > 1 else 'quick'
seeds = [int(x) for x in sys.argv[2:]] or [0]
man = json.load(open(os.path.join(VERIF, 'MANIFEST.json')))
bad = 0
# what MANIFEST.setup_cmd does: the whole library must build (name clashes between modules only show here)
p0 = subprocess.run(man['setup_cmd'], shell=True, cwd=VERIF, capture_output=True, text=True)
if p0.returncode != 0:
    print('SETUP FAILED:', (p0.stdout + p0.stderr)[-1500:])
    bad += 1
for seed in seeds:
    for c in man['checks']:
        cmd = c['quick_cmd'] if tier == 'quick' else c.get('thorough_cmd', c['quick_cmd'])
        t0 = time.time()
        p = subprocess.run(cmd, shell=True, cwd=VERIF, capture_output=True, text=True, env=dict(os.environ, VERIF_SEED=str(seed)))
        out = p.stdout + p.stderr
        last = [l for l in out.split('\n') if l.startswith(c['property_id'] + ' ')]
        viol = [l for l in out.split('\n') if 'VIOLATION' in l or 'KNOWN-FINDING' in l]
        print('%s seed=%d rc=%d %.0fs %s %s' % (c['property_id'], seed, p.returncode, time.time() - t0, last[-1][len(c['property_id']) + 1:] if last else out[-200:], viol))
        if p.returncode != 0:
            bad += 1
            what = [l for l in out.split('\n') if l.strip() and 'Warning' not in l and 'WARNING' not in l]
            i = next((i for i, l in enumerate(what) if 'VIOLATION' in l), None)
            if i:
                print('     ', what[i - 1][:300])
sys.exit(1 if bad else 0)
