#!/usr/bin/env python3
"""tools/keep_mutant.py <src dir> <seeded id> <caught-by note>  — copies patch.diff, demo.py, meta.json into seeded/<id>/ and records what was run"""
import json, os, shutil, sys
src, sid, note = sys.argv[1], sys.argv[2], sys.argv[3]
dst = os.path.join(os.path.dirname(os.path.dirname(os.path.abspath(__file__))), 'seeded', sid)
os.makedirs(dst, exist_ok=True)
for f in ('patch.diff', 'demo.py'):
    shutil.copy(os.path.join(src, f), os.path.join(dst, f))
meta = json.load(open(os.path.join(src, 'meta.json')))
meta['confirmed'] = ('applied to a scratch state of /repo (git apply, reverted afterwards): baseline suite still 176 passed / 11 '
                     'environment failures; demo.py exits 0 on the clean tree and 1 with the patch')
meta['ran'] = note
json.dump(meta, open(os.path.join(dst, 'meta.json'), 'w'), indent=1)
print('kept', dst)
