#!/usr/bin/env python3
"""tools/try_mutant.py <dir with patch.diff [demo.py]> <check id>[,<check id>...] [--tier quick] [--no-tests]

Applies the patch to /repo, runs (a) the repository's baseline tests, (b) the demonstration, (c) the named checks,
and restores /repo.  Prints one summary line per stage.  Never leaves /repo modified."""
import json
import os
import re
import subprocess
import sys

REPO = '/repo'
VERIF = os.path.dirname(os.path.dirname(os.path.abspath(__file__)))


def sh(cmd, cwd=None, timeout=3600, env=None):
    p = subprocess.run(cmd, shell=True, cwd=cwd, capture_output=True, text=True, timeout=timeout, env=env)
    return p.returncode, p.stdout + p.stderr


def main():
    d = os.path.abspath(sys.argv[1])
    checks = sys.argv[2].split(',')
    tier = 'quick'
    if '--tier' in sys.argv:
        tier = sys.argv[sys.argv.index('--tier') + 1]
    patch = os.path.join(d, 'patch.diff')
    rc, out = sh('git -C %s status --porcelain' % REPO)
    if out.strip():
        print('REPO DIRTY, refusing:', out)
        return 2
    result = {}
    # demo on clean tree
    demo = os.path.join(d, 'demo.py')
    if os.path.exists(demo):
        rc, out = sh('/venv/bin/python %s' % demo, cwd=REPO, timeout=600)
        result['demo_clean_rc'] = rc
        print('demo on clean tree: rc=%d %s' % (rc, out.strip().split('\n')[-1][:120] if out.strip() else ''))
    rc, out = sh('git -C %s apply --whitespace=nowarn %s' % (REPO, patch))
    if rc != 0:
        print('patch does not apply:', out)
        return 2
    try:
        if '--no-tests' not in sys.argv:
            rc, out = sh('/venv/bin/python -m pytest -q -p no:cacheprovider --timeout=900 --continue-on-collection-errors 2>&1 | tail -3',
                         cwd=REPO)
            m = re.search(r'(\d+) failed, (\d+) passed', out) or re.search(r'(\d+) passed', out)
            print('baseline tests with patch:', out.strip().split('\n')[-1])
            result['tests'] = out.strip().split('\n')[-1]
        if os.path.exists(demo):
            rc, out = sh('/venv/bin/python %s' % demo, cwd=REPO, timeout=600)
            result['demo_patched_rc'] = rc
            print('demo on patched tree: rc=%d %s' % (rc, out.strip().split('\n')[-1][:120] if out.strip() else ''))
        for c in checks:
            rc, out = sh('./check %s %s' % (c, tier), cwd=VERIF, timeout=7200)
            lines = [l for l in out.split('\n') if 'VIOLATION' in l or 'KNOWN-FINDING' in l or l.startswith(c + ' ')]
            first = [l for l in out.split('\n') if l.strip()][:0]
            print('check %s %s: rc=%d' % (c, tier, rc))
            for l in out.split('\n'):
                if 'VIOLATION' in l or 'broken:' in l or 'KNOWN-FINDING' in l:
                    print('    ' + l[:300])
            key = [l for l in out.split('\n') if l.strip() and 'Warning' not in l and 'WARNING' not in l]
            idx = next((i for i, l in enumerate(key) if 'VIOLATION' in l), None)
            if idx is not None and idx > 0:
                print('    what: ' + key[idx - 1][:300])
            result['check_' + c] = rc
    finally:
        sh('git -C %s checkout -- .' % REPO)
        rc, out = sh('git -C %s status --porcelain' % REPO)
        if out.strip():
            print('WARNING repo not clean after restore:', out)
    print(json.dumps(result))
    return 0


if __name__ == '__main__':
    sys.exit(main())
