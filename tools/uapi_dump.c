/* Prints the layout of the xfrm / netlink UAPI structures as this machine's kernel headers define them.
   One line per value-carrying field: STRUCT path offset size be(1 = network order / octet string, 0 = host order). */
#include <stdio.h>
#include <stddef.h>
#include <linux/netlink.h>
#include <linux/xfrm.h>

#define F(S, path, be) printf("%s %s %zu %zu %d\n", #S, #path, offsetof(struct S, path), sizeof(((struct S *)0)->path), be)
#define END(S) printf("%s #size %zu 0 0\n", #S, sizeof(struct S))

#define SEL(S, p) F(S, p.daddr, 1); F(S, p.saddr, 1); F(S, p.dport, 1); F(S, p.dport_mask, 0); F(S, p.sport, 1); \
  F(S, p.sport_mask, 0); F(S, p.family, 0); F(S, p.prefixlen_d, 0); F(S, p.prefixlen_s, 0); F(S, p.proto, 0); \
  F(S, p.ifindex, 0); F(S, p.user, 0)
#define LFT(S, p) F(S, p.soft_byte_limit, 0); F(S, p.hard_byte_limit, 0); F(S, p.soft_packet_limit, 0); \
  F(S, p.hard_packet_limit, 0); F(S, p.soft_add_expires_seconds, 0); F(S, p.hard_add_expires_seconds, 0); \
  F(S, p.soft_use_expires_seconds, 0); F(S, p.hard_use_expires_seconds, 0)
#define CUR(S, p) F(S, p.bytes, 0); F(S, p.packets, 0); F(S, p.add_time, 0); F(S, p.use_time, 0)
#define ID(S, p) F(S, p.daddr, 1); F(S, p.spi, 1); F(S, p.proto, 0)
#define POL(S, p) SEL(S, p.sel); LFT(S, p.lft); CUR(S, p.curlft); F(S, p.priority, 0); F(S, p.index, 0); F(S, p.dir, 0); \
  F(S, p.action, 0); F(S, p.flags, 0); F(S, p.share, 0)
#define SA(S, p) SEL(S, p.sel); ID(S, p.id); F(S, p.saddr, 1); LFT(S, p.lft); CUR(S, p.curlft); \
  F(S, p.stats.replay_window, 0); F(S, p.stats.replay, 0); F(S, p.stats.integrity_failed, 0); F(S, p.seq, 0); \
  F(S, p.reqid, 0); F(S, p.family, 0); F(S, p.mode, 0); F(S, p.replay_window, 0); F(S, p.flags, 0)

struct wrap_sel { struct xfrm_selector s; };
struct wrap_sa { struct xfrm_usersa_info s; };
struct wrap_pol { struct xfrm_userpolicy_info s; };
struct wrap_id { struct xfrm_id s; };

int main(void) {
  F(nlmsghdr, nlmsg_len, 0); F(nlmsghdr, nlmsg_type, 0); F(nlmsghdr, nlmsg_flags, 0); F(nlmsghdr, nlmsg_seq, 0); F(nlmsghdr, nlmsg_pid, 0); END(nlmsghdr);
  F(nlmsgerr, error, 0); F(nlmsgerr, msg.nlmsg_len, 0); F(nlmsgerr, msg.nlmsg_type, 0); F(nlmsgerr, msg.nlmsg_flags, 0);
  F(nlmsgerr, msg.nlmsg_seq, 0); F(nlmsgerr, msg.nlmsg_pid, 0); END(nlmsgerr);
  SEL(wrap_sel, s); END(wrap_sel);
  ID(wrap_id, s); END(wrap_id);
  SA(wrap_sa, s); END(wrap_sa);
  POL(wrap_pol, s); END(wrap_pol);
  ID(xfrm_user_tmpl, id); F(xfrm_user_tmpl, family, 0); F(xfrm_user_tmpl, saddr, 1); F(xfrm_user_tmpl, reqid, 0);
  F(xfrm_user_tmpl, mode, 0); F(xfrm_user_tmpl, share, 0); F(xfrm_user_tmpl, optional, 0); F(xfrm_user_tmpl, aalgos, 0);
  F(xfrm_user_tmpl, ealgos, 0); F(xfrm_user_tmpl, calgos, 0); END(xfrm_user_tmpl);
  F(xfrm_usersa_id, daddr, 1); F(xfrm_usersa_id, spi, 1); F(xfrm_usersa_id, family, 0); F(xfrm_usersa_id, proto, 0); END(xfrm_usersa_id);
  F(xfrm_usersa_flush, proto, 0); END(xfrm_usersa_flush);
  ID(xfrm_user_acquire, id); F(xfrm_user_acquire, saddr, 1); SEL(xfrm_user_acquire, sel); POL(xfrm_user_acquire, policy);
  F(xfrm_user_acquire, aalgos, 0); F(xfrm_user_acquire, ealgos, 0); F(xfrm_user_acquire, calgos, 0); F(xfrm_user_acquire, seq, 0); END(xfrm_user_acquire);
  SA(xfrm_user_expire, state); F(xfrm_user_expire, hard, 0); END(xfrm_user_expire);
  SEL(xfrm_userpolicy_id, sel); F(xfrm_userpolicy_id, index, 0); F(xfrm_userpolicy_id, dir, 0); END(xfrm_userpolicy_id);
  F(xfrm_algo, alg_name, 1); F(xfrm_algo, alg_key_len, 0); printf("xfrm_algo alg_key %zu 0 1\n", offsetof(struct xfrm_algo, alg_key)); END(xfrm_algo);
  printf("const XFRM_MSG_NEWSA %d\nconst XFRM_MSG_DELSA %d\nconst XFRM_MSG_NEWPOLICY %d\nconst XFRM_MSG_ACQUIRE %d\nconst XFRM_MSG_EXPIRE %d\n"
         "const XFRM_MSG_FLUSHSA %d\nconst XFRM_MSG_FLUSHPOLICY %d\nconst XFRMA_ALG_AUTH %d\nconst XFRMA_ALG_CRYPT %d\nconst XFRMA_TMPL %d\n"
         "const XFRM_POLICY_IN %d\nconst XFRM_POLICY_OUT %d\nconst XFRM_POLICY_FWD %d\nconst XFRM_MODE_TRANSPORT %d\nconst XFRM_MODE_TUNNEL %d\n"
         "const NLM_F_REQUEST %d\nconst NLM_F_ACK %d\nconst NLMSG_ERROR %d\nconst NLMSG_DONE %d\nconst XFRMGRP_ACQUIRE %d\nconst XFRMGRP_EXPIRE %d\n",
         XFRM_MSG_NEWSA, XFRM_MSG_DELSA, XFRM_MSG_NEWPOLICY, XFRM_MSG_ACQUIRE, XFRM_MSG_EXPIRE, XFRM_MSG_FLUSHSA, XFRM_MSG_FLUSHPOLICY,
         XFRMA_ALG_AUTH, XFRMA_ALG_CRYPT, XFRMA_TMPL, XFRM_POLICY_IN, XFRM_POLICY_OUT, XFRM_POLICY_FWD, XFRM_MODE_TRANSPORT,
         XFRM_MODE_TUNNEL, NLM_F_REQUEST, NLM_F_ACK, NLMSG_ERROR, NLMSG_DONE, XFRMGRP_ACQUIRE, XFRMGRP_EXPIRE);
  return 0;
}
