#!/usr/bin/env python3
"""Regenerates MANIFEST.json from the table below (keeps it valid and consistent)."""
import json, os
HERE = os.path.dirname(os.path.dirname(os.path.abspath(__file__)))
ALL = ['C%02d' % i for i in range(1, 21)]

CHECKS = {
 'C03': dict(
  text="Lean 4 theorem c03_noninterference, composing the codec model with the shell model: for EVERY byte string, every state of an IKE_SA that has keys (both roles, every request-outstanding state, REKEYED, successors), every key context and every handler instance — if the datagram's trailing checksum is not the peer-key MAC of the preceding octets, then after process_message the IKE_SA is exactly as before (state, both counters, CHILD_SAs, liveness timer, cache), no handler ran, no netlink request was issued, nothing escaped, and nothing is sent except possibly the stored response to a retransmitted IKE_SA_INIT request. It rests on c07_accept_requires_valid_checksum (whatever the parser accepts under a key context has a valid checksum or is IKE_SA_INIT) and on the shell's gate (cleartext IKE_SA_INIT after keys is dropped). Tied to the code by the codec correspondence (C05-C07) and the per-iteration shell replay. Oracle on the real code: forged cleartext of exchange types 34..38/99 x request/response x IDs around both windows, bit flips, truncations and extensions of authentic datagrams, reflections, messages under other keys, against every keyed IKE_SA reached by seeded histories, comparing the complete endpoint snapshot, kernel log and emitted datagrams.",
  note="Trusted: Lean kernel; codec and shell models (validated by their correspondences); that a forged checksum does not match by accident is the hypothesis of the theorem itself (MAC separation is not assumed: the statement is about datagrams whose checksum is wrong). IKE_SA_INIT requests never reach an existing IKE_SA at the controller (a fresh responder IKE_SA answers them: C16/C18). One genuine defect (cleartext IKE_SA_INIT responses deleted keyed IKE_SAs) was repaired in /repo.",
  technique="Lean 4 proof (composition of the parser theorem of C07 with the shell's gate, case analysis on the parse outcome) + correspondences + forgery oracle in every reached keyed state", ref="DESIGN.md §5 C03"),

 'C04': dict(
  text="Lean 4 theorems, parametric in the prf: prf+ as coded (loop shape, counter start and operand order extracted from crypto.py) equals the RFC 7296 2.13 stream T1|T2|... for every key, seed and output length up to 255 blocks and raises beyond; SKEYSEED and the seven SK_* (initial and rekey), CHILD KEYMAT with/without g^ir equal the RFC split for all nonces/SPIs/secrets and all size triples, where the split template, argument order and keymat-slot to Keyring-field data flow are regenerated from ikesa.py on every run; algorithm size tables, the five MODP primes (= RFC 3526 formula by kernel evaluation), generator, hex widths and the RFC 5903 curve table are compared by `decide`; MODP agreement (g^a)^b = (g^b)^a proved. Model validated differentially (Lean SHA-1/256/512 + HMAC driver vs the real Prf/IkeSa.generate_*_key_material/DiffieHellman).",
  note="Trusted: Lean kernel, extract/ (gen_crypto.py), the prf as an uninterpreted function of fixed output length in the theorems (HMAC itself is validated only differentially), OpenSSL for curve arithmetic. Primality of the MODP constants is not proved. piBits literal is recomputed only when mpmath is available.",
  technique="Lean 4 proof (loop invariant for prf+, list algebra for the key split interpreted from extracted data flow, decide +kernel for constants) + differential correspondence", ref="DESIGN.md §5 C04"),
 'C08': dict(
  text="Lean 4 theorems over the executable shell model of ikesa.py (process_message, _process_request, _process_response, timers), for EVERY instance of the delegated per-exchange handlers: a copy of the previous request returns the stored response and changes nothing but the liveness timer; any other ID is dropped without effect; the expected request is executed exactly once, the counter advances and the reply is cached; a response is accepted only for the outstanding ID, which is consumed before the handler runs; wrong initiator flag / foreign SPIs are dropped; and for every input history whatsoever (any duplication, reordering, loss) the IDs of executed requests are strictly increasing, hence each is executed at most once (induction over the history, under the frame condition that handlers do not write the peer counter). Retransmission re-emits the stored request; the shell's error reply carries version 2.0, the SPIs, exchange type, flags and ID. The model is tied to the code by replaying every iteration of the real event loop (real main_loop on a fake OS) on the compiled model with the recorded handler outcomes and comparing the complete post-state; the property is also evaluated directly on the real code after every event of seeded schedules.",
  note="Trusted: Lean kernel; the shell model as transcription of ikesa.py/ikesacontroller.py control flow (validated by the per-iteration replay: table, every IKE_SA field, datagrams, netlink requests); the frame condition PeerFrame (handlers never assign peer_msg_id) is checked on the real code by the executed-ID oracle, not proved of the Python handlers. Header fields of messages built inside the handlers (generate_request/response) and ID consecutiveness are checked by the oracle on every emitted datagram, not proved.",
  technique="Lean 4 proof (decision logic + induction over input histories with a monotone-counter invariant) + per-iteration replay correspondence + oracle on seeded schedules", ref="DESIGN.md §5 C08"),
 'C10': dict(
  text="Lean 4 theorems over the shell/controller model, for every handler instance: removing an IKE_SA (delete exchange, fatal error, retransmission time-out sweep) issues DELSA for exactly the outbound and inbound SA of every tracked CHILD_SA, in order, and nothing else; applied to any SAD this removes exactly those entries and leaves every other entry; registering a rekeyed successor issues no netlink request and does not touch CHILD_SA lists; the retransmission timer alone never touches CHILD_SAs or the kernel. The per-exchange part (a handler installs exactly what it starts tracking) is stated as the contract installsWhatItTracks and evaluated on the real code: after EVERY event of every seeded history (all negotiation paths, collisions, losses, time-outs, INVALID_KE retries, IKE rekeys) the model kernel's SAD equals the SAs of the tracked CHILD_SAs, with a kernel refusal injected at individual NEWSA requests.",
  note="Trusted: Lean kernel; shell model validated by per-iteration replay; model kernel semantics (NEWSA of a present key / DELSA of an absent key refused). The SAD invariant across handlers is an oracle result on explored histories, not a theorem (handlers are parameters of the model). Two genuine defects found by this check were repaired in /repo (see known_findings.json).",
  technique="Lean 4 proof (list algebra over netlink request lists) + per-iteration replay correspondence + SAD = tracked oracle after every event with kernel fault injection", ref="DESIGN.md §5 C10"),
 'C16': dict(
  text="Lean 4 theorems over the controller model, for every handler instance: a datagram that is not an IKE_SA_INIT request is handed to the first IKE_SA whose local SPI equals the header SPI selected by the initiator flag and every other table entry is left exactly as it was; unknown SPIs change nothing and elicit nothing; an IKE_SA_INIT request appends a fresh responder IKE_SA (none without configuration); an IKE_SA that reaches DELETED is removed in the same step together with DELSA for its pairs; a successor is registered at most once however many further datagrams reach the rekeyed IKE_SA; expiry notices for untracked SPIs do nothing; the status query returns the table. Tied to the code by per-iteration replay; oracle on the real code after every event: routing, no duplicates, no DELETED entries, successor registered, status = table, swapped / unknown / flag-flipped SPI games, every duplication pattern of the rekey messages.",
  note="Trusted: Lean kernel; controller model validated by replay; IKE SPIs unique per object (fresh 64-bit draws). One genuine defect (successor listed again on every further datagram) was repaired in /repo.",
  technique="Lean 4 proof (list lemmas on findIdx?/set/eraseIdx, decision logic) + per-iteration replay correspondence + oracle on seeded schedules", ref="DESIGN.md §5 C16"),

 'C11': dict(
  text="Lean 4 theorems over the executable negotiation model, for all proposals of any size: the intersection lies within both offers (type, id, key length), has exactly one transform per locally required type, chosen in local preference order, carries the peer's number/SPI; none iff protocols differ or a required type has no common transform; the first acceptable peer proposal is answered else NO_PROPOSAL_CHOSEN; initiator accepts only responses drawn from its offer; KE group mismatch names the chosen group; a never-offered suggested group is refused. Model validated differentially against Proposal.intersection/is_subset/__eq__, IkeSa._select_best_sa_proposal and handle_invalid_ke on exhaustive small universes and random larger ones.",
  note="Trusted: Lean kernel, extract/, Transform.__eq__ (hash of a 3-tuple) modelled as structural equality; the placement of the negotiation calls inside the IKE_SA handlers is covered by the state-machine checks, not here.",
  technique="Lean 4 proof (induction over transform lists with accumulator invariant) + exhaustive differential correspondence", ref="DESIGN.md §5 C11"),
 'C12': dict(
  text="Lean 4 theorems over the executable selector model, for all address widths, ranges, ports and protocols: is_subset coincides with inclusion of the denoted packet sets (non-empty selectors); range->network->range round trip for every prefix block and port, the supernet loop bounded by the address width; the responder's policy lookup returns selectors contained in an offered pair and in the policy or refuses (TS_UNACCEPTABLE) exactly when no policy matches; rekey selectors must equal the replaced SA's; mode must match; an initiator never installs a widened response. Model validated differentially against TrafficSelector and IkeSa._get_ipsec_configuration exhaustively over a small universe and on random IPv4/IPv6 ranges.",
  note="Trusted: Lean kernel, extract/, ipaddress ordering/supernet semantics. Kernel selectors are exact only for prefix-aligned ranges (everything from_network produces); a foreign non-aligned range is widened to the enclosing prefix (observation N3).",
  technique="Lean 4 proof (interval arithmetic with omega, packet-set semantics) + exhaustive differential correspondence", ref="DESIGN.md §5 C12"),
 'C13': dict(
  text="Lean 4 theorems over the timer functions of the shell model, for every tick sequence and every handler instance: the transmissions made by the retransmission timer plus those already counted never exceed the built-in maximum and each is the stored request (induction over the tick list); deadlines back off by n x 2 s (gaps 2, 4, 6, 8 s never decrease), first deadline 2 s after sending; budget exhausted and deadline passed => DELETED with nothing sent; outside the nine request-outstanding states the timer does nothing (an answered request is never retransmitted); a DPD probe is generated exactly when ESTABLISHED and nothing authentic arrived for the interval, every accepted message re-arms it; lifetime decisions (delete past the hard deadline, else rekey past the rekey time, only when ESTABLISHED). Tied to the code by per-iteration replay. Oracle on the real code under a virtual clock: 11 request kinds (incl. COOKIE and INVALID_KE_PAYLOAD retries on IKE_SA_INIT, CREATE_CHILD_SA and IKE rekey) x subsets of lost transmissions x tick grains: byte-identical copies, count <= built-in, schedule 2/4/6 s, silence after an answer, removal with kernel SAs after the budget; DPD time; rekey at lifetime + jitter in [0,5], hard expiry 30 s later; peer crash after every step => all kernel SAs gone within DPD interval + budget.",
  note="Trusted: Lean kernel; shell model validated by replay; virtual clock in units of 1/1024 s (exact in binary floating point). That the stored request is the one last sent after a retry is handler behaviour: checked by the oracle (one defect found and repaired), not proved. Real select() timing, sockets and the wall clock are outside the model (partial).",
  technique="Lean 4 proof (induction over tick sequences, arithmetic by omega) + per-iteration replay correspondence + virtual-clock oracle over request kinds x loss subsets x grains", ref="DESIGN.md §5 C13"),

 'C14': dict(
  text="Lean 4 theorems: every ctypes structure of xfrm.py/netlink.py, laid out by the ctypes algorithm (natural alignment, little-endian host, explicit big-endian fields) from the `_fields_` tables regenerated from the source on every run, has exactly the offsets, sizes, byte order and total size of its <linux/xfrm.h>/<linux/netlink.h> counterpart (kernel evaluation over the complete table; xfrm_algo with its fixed 64-octet key tail treated explicitly); the record codec round-trips for every field list and all in-range values whatever follows (so the kernel reads what the daemon wrote and vice versa); ports are network order; message types, flags, attribute codes and the argument-to-field data flow of create_sa/create_policy/delete_sa/flush equal the kernel's/intended ones (`decide` over extracted tables); error replies fail and acks succeed. The executable request builders and event/reply parsers are validated byte-for-byte against the real Xfrm.* (socket replaced by a recorder), requests are decoded with layouts printed by a C program compiled against the kernel headers on every run, and events encoded with them are parsed by the real code.",
  note="Trusted: Lean kernel, extract/ (gen_layouts.py), Spec/Uapi.lean (regenerated from gcc + kernel headers and compared on every run when gcc is present), x86-64 ABI. That each builder puts the intended parameter into the intended field for all parameter values is established by the extracted data-flow table plus the byte-exact correspondence and the UAPI decoder oracle on generated requests, not by a closed Lean theorem per request (string-keyed layouts do not reduce in the kernel).",
  technique="Lean 4 proof (decide +kernel over extracted layout tables, induction for the record codec) + byte-exact differential correspondence + UAPI decoder oracle", ref="DESIGN.md §5 C14"),

 'C05': dict(
  text="Lean 4 theorems over the executable codec model: parse(to_bytes(m)) = m for every well-formed cleartext message of any size (all payload classes, nested SA), per-payload round trips, extension of a chain rejected, unknown non-critical payloads skipped and critical ones rejected; format strings, pack formats and the payload-class table are regenerated from message.py on every run and compared by `decide`; the model is validated differentially (Lean encoder/parser vs Message.to_bytes/parse) and the dump clause by an oracle on the real code.",
  note="Trusted: Lean kernel, extract/, hand transcription of RFC 7296 section 3 layouts in Impl.enc* (cross-checked against the implementation on every generated message), Wf predicate = what struct.pack accepts. Idempotence on arbitrary accepted byte strings, rejection of proper prefixes and the dump clause are checked by oracle on generated inputs, not proved.",
  technique="Lean 4 proof (structural induction on payload lists, step lemma per loop iteration) + differential correspondence", ref="DESIGN.md §5 C05"),
 'C06': dict(
  text="Lean 4 theorems over the executable parser model: for all byte strings and all lawful key contexts parse returns or raises a protocol error and never exhausts its fuel (no hang); the model is parameterised by guard facts extracted from the source on every run and validated differentially against Message.parse.",
  note="Trusted: Lean kernel (axioms propext/Classical.choice/Quot.sound), extract/, the hand model's transcription of slicing/struct semantics (validated by the correspondence on every generated input), the CBC failure law of the cipher. The linear-time clause is checked by executed-line counts on sampled inputs, not proved.",
  technique="Lean 4 proof (induction on fuel, guard facts from source) + differential correspondence", ref="DESIGN.md §5 C06"),
 'C07': dict(
  text="Lean 4 theorems, parametric in the cipher/integrity pair: protected messages round-trip for all payload lists/keys/IVs; the ICV is the MAC of header..ciphertext; padding law; integrity verified before decryption; for every byte string, anything accepted under a key context has a valid checksum or is IKE_SA_INIT (so ICV tampering is rejected unconditionally, body tampering under MAC separation). Model validated differentially under a toy key context; AES/HMAC suites checked by oracle (independent MAC/padding recomputation, every sampled byte x bit flip).",
  note="Trusted: Lean kernel, extract/, crypto laws CryptoCtx.Sound (dec∘enc = id, length preservation, MAC length) — validated for AES-CBC/HMAC by the oracle; MAC separation is a named hypothesis of c07_tamper_body. The clause that every message emitted after IKE_SA_INIT is fully protected is checked on simulated exchanges (see C08 harness), not proved here.",
  technique="Lean 4 proof (list algebra over the serialised chain, crypto as parameter record with laws) + differential correspondence", ref="DESIGN.md §5 C07"),
 'C17': dict(
  text="Lean 4 theorems over the controller model, for every handler instance: the loop-iteration function is total (every table, clock reading and event — datagram of any bytes from any address, represented by its two parse outcomes; ACQUIRE/EXPIRE of any field values; control connection; failing transmission — yields a table); process_message never lets an exception out (whatever a handler raises is contained by _process_request/_process_response), so a datagram routed to an existing IKE_SA never interrupts a round; the only datagrams that do are those without a parsable header or IKE_SA_INIT requests without configuration, and they change nothing; the retransmission timer is safe whenever a request-outstanding state has a stored request; frame: a datagram leaves every IKE_SA before its slot exactly as it was. Since the repair of main_loop every exception of a round is contained by the loop. Oracle: the REAL main_loop on a fake OS is fed ~60 kinds of hostile datagrams and kernel events at 7 stages of a legitimate session at either endpoint, a transmission failure at every send and a kernel refusal at NEWSA requests: the loop survives, each iteration returns within a bounded number of executed lines, and a legitimate session (the running one or the next attempt) completes.",
  note="Trusted: Lean kernel; controller model validated by replay. Real sockets, select(), signals and scheduling are outside the model (partial): 'comes back within bounded time' is measured as executed lines per iteration on the explored events, and follows for the model from totality plus the parser's no-hang theorem (C06). Three genuine defects were repaired in /repo (loop not containing exceptions; unparsable IKE_SA_INIT requests leaving INITIAL entries; ACQUIRE re-using half-open responder IKE_SAs).",
  technique="Lean 4 proof (case analysis over the controller model; totality) + per-iteration replay correspondence + hostile-event oracle through the real main_loop with fault injection", ref="DESIGN.md §5 C17"),

}

def main():
    checks = []
    for pid in ALL:
        if pid not in CHECKS:
            continue
        c = CHECKS[pid]
        checks.append({
            'property_id': pid,
            'quick_cmd': './check %s quick' % pid,
            'thorough_cmd': './check %s thorough' % pid,
            'evidence_file': 'evidence/%s.json' % pid,
            'replay_cmd_template': './check %s --replay {path}' % pid,
            'engine': 'lean-proofs',
            'level_claimed': {'category': 'proof', 'text': c['text'], 'design_ref': c['ref']},
            'level_note': c['note'],
            'technique': c['technique'],
        })
    na = [{'property_id': p, 'reason': 'check under construction in this build session (Lean model and harness not committed yet); not a claim that the technique cannot apply'}
          for p in ALL if p not in CHECKS]
    man = {
        'version': 1,
        'setup_cmd': 'cd /verif && python3 extract/extract.py && cd lean && lake build PyIkev2 driver',
        'hooks': {
            'guard': 'ALEJANDRO_PEREZ_PYIKEV2_VERIF',
            'enable': 'no source hooks: the harness replaces library objects (entropy, clock, netlink socket) in-process; the guard variable is exported by the harness for completeness',
            'baseline_off_cmd': 'cd /repo && /venv/bin/python -m pytest -ra -q -p no:cacheprovider --timeout=900 --continue-on-collection-errors',
            'source_commits': [],
            'add_only': True,
        },
        'engines': [
            {'name': 'lean-proofs', 'path': 'lean/', 'serves_properties': sorted(CHECKS),
             'kind_free_text': 'Lean 4 model (Impl), spec and property theorems (Props/Cxx.lean); facts regenerated from /repo by extract/ on every run'},
            {'name': 'correspondence-harness', 'path': 'harness/', 'serves_properties': sorted(CHECKS),
             'kind_free_text': 'differential check of the compiled Lean model against the real code + direct oracle / failing-input search'},
        ],
        'checks': checks,
        'not_applicable': na,
        'notes': 'Every check: ./check <id> <tier>; exit 0 / 1 (VIOLATION line) / 2 (infrastructure, time-out).',
    }
    with open(os.path.join(HERE, 'MANIFEST.json'), 'w') as fh:
        json.dump(man, fh, indent=1)
        fh.write('\n')

if __name__ == '__main__':
    main()
