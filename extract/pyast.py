"""Small helpers over the stdlib `ast` used by every extractor (no third-party imports)."""
import ast
import os

REPO = os.environ.get('VERIF_REPO', '/repo')


def load(module):
    path = os.path.join(REPO, module + '.py')
    with open(path, 'r') as fh:
        src = fh.read()
    return ast.parse(src, filename=path), src


def set_parents(tree):
    for node in ast.walk(tree):
        for child in ast.iter_child_nodes(node):
            child._parent = node
    return tree


def functions(tree):
    """yield (qualname, FunctionDef) for every function, nested classes included"""
    def rec(node, prefix):
        for child in ast.iter_child_nodes(node):
            if isinstance(child, ast.ClassDef):
                yield from rec(child, prefix + [child.name])
            elif isinstance(child, (ast.FunctionDef, ast.AsyncFunctionDef)):
                yield '.'.join(prefix + [child.name]), child
                yield from rec(child, prefix + [child.name])
    yield from rec(tree, [])


def classes(tree):
    def rec(node, prefix):
        for child in ast.iter_child_nodes(node):
            if isinstance(child, ast.ClassDef):
                yield '.'.join(prefix + [child.name]), child
                yield from rec(child, prefix + [child.name])
    yield from rec(tree, [])


def call_name(call):
    f = call.func
    if isinstance(f, ast.Name):
        return f.id
    if isinstance(f, ast.Attribute):
        return f.attr
    return None


def dotted(node):
    """`a.b.c` -> 'a.b.c' (None when not a pure attribute chain)"""
    parts = []
    while isinstance(node, ast.Attribute):
        parts.append(node.attr)
        node = node.value
    if isinstance(node, ast.Name):
        parts.append(node.id)
        return '.'.join(reversed(parts))
    return None


def const_str(node):
    """textual form of a format-string argument"""
    if isinstance(node, ast.Constant) and isinstance(node.value, str):
        return node.value
    try:
        return ast.unparse(node)
    except Exception:
        return '?'


def handler_names(handler):
    t = handler.type
    if t is None:
        return ['*']
    if isinstance(t, ast.Tuple):
        return [dotted(e) or '?' for e in t.elts]
    return [dotted(t) or '?']


def raises(nodes, exc_name):
    for n in nodes:
        for sub in ast.walk(n):
            if isinstance(sub, ast.Raise) and sub.exc is not None:
                e = sub.exc
                name = dotted(e.func) if isinstance(e, ast.Call) else dotted(e)
                if name == exc_name:
                    return True
    return False


def enclosing_try_maps(node, caught, raised, stop):
    """is `node` inside the *body* of a `try` (below `stop`) with a handler that catches
    `caught` and raises `raised`?"""
    cur = node
    while cur is not stop and hasattr(cur, '_parent'):
        par = cur._parent
        if isinstance(par, ast.Try) and any(cur is b or _contains(b, cur) for b in par.body):
            for h in par.handlers:
                names = handler_names(h)
                if (caught in names) and raises(h.body, raised):
                    return True
        cur = par
    return False


def _contains(root, node):
    for sub in ast.walk(root):
        if sub is node:
            return True
    return False


# ---------------------------------------------------------------- Lean output helpers

def lean_str(s):
    return '"' + s.replace('\\', '\\\\').replace('"', '\\"').replace('\n', '\\n') + '"'


def lean_bool(b):
    return 'true' if b else 'false'


def lean_list(items):
    return '[' + ', '.join(items) + ']'


def write_if_changed(path, text):
    try:
        with open(path, 'r') as fh:
            if fh.read() == text:
                return False
    except FileNotFoundError:
        pass
    os.makedirs(os.path.dirname(path), exist_ok=True)
    tmp = path + '.tmp.%d' % os.getpid()
    with open(tmp, 'w') as fh:
        fh.write(text)
    os.replace(tmp, path)
    return True
