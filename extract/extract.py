#!/usr/bin/env python3
"""Translator (tie 1): /repo/*.py  ->  /verif/lean/PyIkev2/Gen/*.lean  (+ facts.json).

Run on every check.  Uses only the stdlib `ast`; never imports the repository's code.
Writes a file only when its text changed, so `lake` rebuilds only what depends on a
changed fact.  Exit status 0 even when a construct was not recognised: the problem is
recorded in Gen/facts.json (key `problems`) and the checks treat it as a broken tie.
"""
import fcntl
import importlib
import json
import os
import sys

HERE = os.path.dirname(os.path.abspath(__file__))
sys.path.insert(0, HERE)
from pyast import write_if_changed  # noqa: E402

OUT = os.path.join(os.path.dirname(HERE), 'lean', 'PyIkev2', 'Gen')
MODULES = ['gen_codec', 'gen_crypto', 'gen_machine', 'gen_layouts', 'gen_config', 'gen_log', 'gen_calls', 'gen_auth']


def main():
    os.makedirs(OUT, exist_ok=True)
    lock = open(os.path.join(OUT, '.lock'), 'w')
    fcntl.flock(lock, fcntl.LOCK_EX)
    allfacts, problems, changed = {}, [], []
    for modname in MODULES:
        try:
            mod = importlib.import_module(modname)
        except ModuleNotFoundError:
            continue
        try:
            name, text, facts, probs = mod.generate()
        except Exception as ex:  # a source the extractor cannot read is a broken tie, not a crash
            name, text, facts, probs = modname[4:].capitalize(), None, {}, ['%s failed: %r' % (modname, ex)]
        if text is not None:
            if write_if_changed(os.path.join(OUT, name + '.lean'), text):
                changed.append(name)
        allfacts[name] = facts
        problems += probs
    allfacts['problems'] = problems
    write_if_changed(os.path.join(OUT, 'facts.json'), json.dumps(allfacts, indent=1, sort_keys=True, default=str))
    if '-v' in sys.argv:
        print('changed:', changed, 'problems:', problems)
    return 0


if __name__ == '__main__':
    sys.exit(main())
