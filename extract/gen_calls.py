"""Positional data flow of the IPsec SA installation (xfrm.py / ikesa.py) -> Gen/Calls.lean

  * Xfrm.create_child_sa: the local definitions (src_selector = child_sa.tsi.get_network(), ...), the role-dependent key
    assignment, and the argument vectors of the two create_sa calls (outbound first), mapped to create_sa's parameter names
  * Xfrm.delete_child_sa: the two delete_sa argument vectors
  * the ChildSa(...) construction of the responder and the _replace(...) of the initiator (field -> expression)
"""
import ast

from pyast import load, functions, lean_str, lean_list


def norm(n):
    return ' '.join(ast.unparse(n).split())


def generate():
    problems = []
    xt, _ = load('xfrm')
    it, _ = load('ikesa')
    xf = dict(functions(xt))
    inf = dict(functions(it))
    f = xf.get('Xfrm.create_child_sa')
    params = [a.arg for a in xf['Xfrm.create_sa'].args.args[1:]] if 'Xfrm.create_sa' in xf else []
    locals_, calls, swap = [], [], {}
    if f is None:
        problems.append('Xfrm.create_child_sa not found')
    else:
        for st in f.body:
            if isinstance(st, ast.Assign) and len(st.targets) == 1 and isinstance(st.targets[0], ast.Name):
                if isinstance(st.value, ast.Dict):
                    continue
                locals_.append((st.targets[0].id, norm(st.value)))
            if isinstance(st, ast.If) and norm(st.test) == 'is_initiator':
                for branch, body in (('initiator', st.body), ('responder', st.orelse)):
                    for a in body:
                        if isinstance(a, ast.Assign) and isinstance(a.targets[0], ast.Tuple):
                            swap[branch] = list(zip([norm(e) for e in a.targets[0].elts], [norm(e) for e in a.value.elts]))
        for sub in ast.walk(f):
            if isinstance(sub, ast.Call) and norm(sub.func) == 'cls.create_sa':
                calls.append((sub.lineno, [norm(a) for a in sub.args]))
        calls.sort()
    if len(calls) != 2 or any(len(c[1]) != len(params) for c in calls):
        problems.append('create_child_sa: expected two positional create_sa calls with %d arguments' % len(params))
    dels = []
    g = xf.get('Xfrm.delete_child_sa')
    if g is not None:
        for sub in ast.walk(g):
            if isinstance(sub, ast.Call) and norm(sub.func) == 'cls.delete_sa':
                dels.append((sub.lineno, [norm(a) for a in sub.args]))
        dels.sort()
    # ChildSa constructions
    resp, init = [], []
    g = inf.get('IkeSa._process_create_child_sa_negotiation_req')
    if g is not None:
        for sub in ast.walk(g):
            if isinstance(sub, ast.Call) and norm(sub.func) == 'ChildSa':
                resp = sorted((k.arg, norm(k.value)) for k in sub.keywords)
    g = inf.get('IkeSa._process_create_child_sa_negotiation_res')
    role_flags = {}
    if g is not None:
        for sub in ast.walk(g):
            if isinstance(sub, ast.Call) and norm(sub.func).endswith('._replace'):
                init = sorted((k.arg, norm(k.value)) for k in sub.keywords)
            if isinstance(sub, ast.Call) and norm(sub.func) == 'xfrm.Xfrm.create_child_sa':
                role_flags['initiator'] = [norm(k.value) for k in sub.keywords if k.arg == 'is_initiator']
    g = inf.get('IkeSa._process_create_child_sa_negotiation_req')
    if g is not None:
        for sub in ast.walk(g):
            if isinstance(sub, ast.Call) and norm(sub.func) == 'xfrm.Xfrm.create_child_sa':
                role_flags['responder'] = [norm(k.value) for k in sub.keywords if k.arg == 'is_initiator']
    # what the initiator proposes: ChildSa of process_acquire
    acq = []
    g = inf.get('IkeSa.process_acquire')
    if g is not None:
        for sub in ast.walk(g):
            if isinstance(sub, ast.Call) and norm(sub.func) == 'ChildSa':
                acq = sorted((k.arg, norm(k.value)) for k in sub.keywords)
    # policies: the three create_policy calls of create_policies, the index expression, start-up and shutdown sequences
    pol_params = [a.arg for a in xf['Xfrm.create_policy'].args.args[1:]] if 'Xfrm.create_policy' in xf else []
    pol_calls, pol_locals, index_expr = [], [], ''
    g = xf.get('Xfrm.create_policies')
    if g is not None:
        for sub in ast.walk(g):
            if isinstance(sub, ast.Assign) and isinstance(sub.targets[0], ast.Name):
                if sub.targets[0].id == 'index':
                    index_expr = norm(sub.value)
                else:
                    pol_locals.append((sub.targets[0].id, norm(sub.value)))
            if isinstance(sub, ast.Call) and norm(sub.func) == 'cls.create_policy':
                pol_calls.append((sub.lineno, [norm(a) for a in sub.args] + ['%s=%s' % (k.arg, norm(k.value)) for k in sub.keywords]))
        pol_calls.sort()
    else:
        problems.append('Xfrm.create_policies not found')
    ct, _ = load('ikesacontroller')
    cf = dict(functions(ct))

    def xfrm_calls(qual):
        h = cf.get(qual)
        out = []
        for sub in ast.walk(h) if h else []:
            if isinstance(sub, ast.Call) and norm(sub.func).startswith('xfrm.Xfrm.'):
                out.append((sub.lineno, norm(sub.func).split('.')[-1]))
        return [n for _, n in sorted(out)]
    startup, shutdown = xfrm_calls('IkeSaController.__init__'), xfrm_calls('IkeSaController.close')
    acq_index = ''
    h = cf.get('IkeSaController.process_acquire')
    for sub in ast.walk(h) if h else []:
        if isinstance(sub, ast.Call) and norm(sub.func) == 'ike_sa.process_acquire':
            acq_index = norm(sub.args[2]) if len(sub.args) > 2 else ''
    facts = {'policy_params': pol_params, 'policy_calls': [c[1] for c in pol_calls], 'policy_locals': pol_locals, 'policy_index': index_expr,
             'startup': startup, 'shutdown': shutdown, 'acquire_index': acq_index, 'create_sa_params': params, 'locals': locals_, 'swap': swap, 'calls': [c[1] for c in calls], 'deletes': [d[1] for d in dels],
             'responder_child': resp, 'initiator_replace': init, 'role_flags': role_flags, 'acquire_child': acq}

    def pairs(l):
        return lean_list(['(%s, %s)' % (lean_str(a), lean_str(b)) for a, b in l])

    def strs(l):
        return lean_list([lean_str(x) for x in l])
    text = '/- GENERATED by extract/gen_calls.py from xfrm.py / ikesa.py — do not edit -/\nnamespace PyIkev2.Gen.Calls\n\n'
    text += 'def createSaParams : List String := %s\n' % strs(params)
    text += 'def locals : List (String × String) := %s\n' % pairs(locals_)
    text += 'def swapInitiator : List (String × String) := %s\n' % pairs(swap.get('initiator', []))
    text += 'def swapResponder : List (String × String) := %s\n' % pairs(swap.get('responder', []))
    text += 'def callOut : List String := %s\n' % strs(calls[0][1] if len(calls) > 0 else [])
    text += 'def callIn : List String := %s\n' % strs(calls[1][1] if len(calls) > 1 else [])
    text += 'def deleteFirst : List String := %s\n' % strs(dels[0][1] if len(dels) > 0 else [])
    text += 'def deleteSecond : List String := %s\n' % strs(dels[1][1] if len(dels) > 1 else [])
    text += 'def responderChild : List (String × String) := %s\n' % pairs(resp)
    text += 'def initiatorReplace : List (String × String) := %s\n' % pairs(init)
    text += 'def acquireChild : List (String × String) := %s\n' % pairs(acq)
    text += 'def roleFlagInitiator : List String := %s\n' % strs(role_flags.get('initiator', []))
    text += 'def roleFlagResponder : List String := %s\n' % strs(role_flags.get('responder', []))
    text += 'def policyParams : List String := %s\n' % strs(pol_params)
    text += 'def policyCalls : List (List String) := %s\n' % lean_list([strs(c[1]) for c in pol_calls])
    text += 'def policyLocals : List (String × String) := %s\n' % pairs(pol_locals)
    text += 'def policyIndex : String := %s\n' % lean_str(index_expr)
    text += 'def startup : List String := %s\ndef shutdown : List String := %s\n' % (strs(startup), strs(shutdown))
    text += 'def acquireIndex : String := %s\n' % lean_str(acq_index)
    text += '\nend PyIkev2.Gen.Calls\n'
    return 'Calls', text, facts, problems
