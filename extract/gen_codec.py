"""Gen.Codec: facts about message.py the codec model is parameterised by.

 * guard_<site>  : is the unpack_from call inside a try that maps struct.error to InvalidSyntax?
 * fmt_<site>    : its format string
 * packfmts      : (function, [format strings of pack/pack_into calls in order])
 * type2payload  : Message.type_2_payload as (payload type number, class name)
 * enums         : every SafeIntEnum / IntEnum table of message.py
 * chain_minlen_check / sk_len_check : presence of the two length validations
 * nonce_min / nonce_max : bounds tested in PayloadNONCE.__init__
"""
import ast
from pyast import (load, set_parents, functions, classes, call_name, dotted, const_str,
                   enclosing_try_maps, raises, lean_str, lean_bool, lean_list)

SITES = {
    ('PayloadKE.parse', 0): 'ke',
    ('Transform.parse', 0): 'transform_hdr',
    ('Transform.parse', 1): 'transform_attr',
    ('Proposal.parse', 0): 'proposal_hdr',
    ('Proposal.parse', 1): 'proposal_thdr',
    ('PayloadSA.parse', 0): 'sa_phdr',
    ('PayloadNOTIFY.parse', 0): 'notify',
    ('PayloadID.parse', 0): 'id',
    ('PayloadAUTH.parse', 0): 'auth',
    ('TrafficSelector.parse', 0): 'ts_sel',
    ('TrafficSelector.parse', 1): 'ts_sel2',
    ('PayloadTS.parse', 0): 'ts_hdr',
    ('PayloadTS.parse', 1): 'ts_lenhdr',
    ('PayloadDELETE.parse', 0): 'delete',
    ('Message._parse_payloads', 0): 'chain_hdr',
    ('Message.parse', 0): 'msg_hdr',
}


def enum_tables(tree):
    """{qualified class name: [(member, value)]} for classes deriving from *IntEnum / SafeIntEnum / Enum"""
    out = {}
    for qn, cls in classes(tree):
        bases = [dotted(b) or '' for b in cls.bases]
        if not any(b.endswith('IntEnum') or b.endswith('Enum') for b in bases):
            continue
        members = []
        for st in cls.body:
            if isinstance(st, ast.Assign) and len(st.targets) == 1 and isinstance(st.targets[0], ast.Name):
                v = st.value
                if isinstance(v, ast.Constant) and isinstance(v.value, int):
                    members.append((st.targets[0].id, v.value))
        if members:
            out[qn] = members
    return out


def resolve_enum(node, enums):
    """`Payload.Type.SA` -> 33 using the extracted tables"""
    name = dotted(node)
    if name is None:
        return None
    parts = name.split('.')
    for qn, members in enums.items():
        qparts = qn.split('.')
        if parts[:-1] == qparts[-len(parts[:-1]):] if len(parts) > 1 else False:
            for m, v in members:
                if m == parts[-1]:
                    return v
    return None


def generate():
    tree, _ = load('message')
    set_parents(tree)
    problems = []
    guards, fmts = {}, {}
    packfmts = []
    seen = set()
    chain_minlen = False
    sk_len = False
    require_sk = False
    nonce_bounds = []
    for qn, fn in functions(tree):
        ordinal = 0
        packs = []
        for node in ast.walk(fn):
            if isinstance(node, ast.Call):
                nm = call_name(node)
                if nm in ('unpack_from', 'unpack'):
                    key = (qn, ordinal)
                    ordinal += 1
                    site = SITES.get(key)
                    if site is None:
                        problems.append('unrecognised unpack site %s #%d' % key)
                        continue
                    seen.add(key)
                    guards[site] = enclosing_try_maps(node, 'struct_error', 'InvalidSyntax', fn)
                    fmts[site] = const_str(node.args[0]) if node.args else '?'
                elif nm in ('pack', 'pack_into'):
                    packs.append(const_str(node.args[0]) if node.args else '?')
        if packs:
            packfmts.append((qn, packs))
        if qn == 'Message._parse_payloads':
            for node in ast.walk(fn):
                if isinstance(node, ast.If) and raises(node.body, 'InvalidSyntax'):
                    t = ast.unparse(node.test).replace(' ', '')
                    if t in ('length<4', 'length<=3', '4>length', '3>=length'):
                        chain_minlen = True
        if qn == 'PayloadSK.decrypt':
            for node in ast.walk(fn):
                if isinstance(node, ast.If) and raises(node.body, 'InvalidSyntax'):
                    t = ast.unparse(node.test)
                    if '%' in t and t.count('len(') >= 2 and 'block_size' in t:
                        sk_len = True
        if qn == 'Message.parse':
            for node in ast.walk(fn):
                if isinstance(node, ast.If) and raises(node.body, 'InvalidSyntax'):
                    t = ast.unparse(node.test)
                    if 'crypto is not None' in t and 'IKE_SA_INIT' in t:
                        require_sk = True
        if qn == 'PayloadNONCE.__init__':
            for node in ast.walk(fn):
                if isinstance(node, ast.Compare):
                    for c in node.comparators:
                        if isinstance(c, ast.Constant) and isinstance(c.value, int):
                            nonce_bounds.append(c.value)
    for key, site in SITES.items():
        if key not in seen:
            problems.append('missing unpack site %s #%d' % key)
            guards.setdefault(site, False)
            fmts.setdefault(site, '?')
    # both reads of TrafficSelector.parse share one try
    guards['ts_sel'] = guards.get('ts_sel', False) and guards.get('ts_sel2', False)
    enums = enum_tables(tree)
    # type_2_payload
    t2p = []
    for qn, cls in classes(tree):
        if qn == 'Message':
            for st in cls.body:
                if (isinstance(st, ast.Assign) and isinstance(st.targets[0], ast.Name)
                        and st.targets[0].id == 'type_2_payload' and isinstance(st.value, ast.Dict)):
                    for k, v in zip(st.value.keys, st.value.values):
                        num = resolve_enum(k, enums)
                        if num is None:
                            problems.append('type_2_payload key not resolved: ' + ast.unparse(k))
                            continue
                        t2p.append((num, dotted(v) or '?'))
    lines = ['/- generated by extract/gen_codec.py from message.py; do not edit -/',
             'namespace PyIkev2.Gen.Codec', '']
    for site in sorted(guards):
        lines.append('def guard_%s : Bool := %s' % (site, lean_bool(guards[site])))
    lines.append('')
    for site in sorted(fmts):
        lines.append('def fmt_%s : String := %s' % (site, lean_str(fmts[site])))
    lines.append('')
    lines.append('def chain_minlen_check : Bool := %s' % lean_bool(chain_minlen))
    lines.append('def sk_len_check : Bool := %s' % lean_bool(sk_len))
    lines.append('def require_sk : Bool := %s' % lean_bool(require_sk))
    lines.append('def nonce_bounds : List Nat := %s' % lean_list(str(x) for x in nonce_bounds))
    lines.append('def type2payload : List (Nat × String) := %s'
                 % lean_list('(%d, %s)' % (n, lean_str(c)) for n, c in t2p))
    lines.append('def packfmts : List (String × List String) := %s'
                 % lean_list('(%s, %s)' % (lean_str(q), lean_list(lean_str(f) for f in fs)) for q, fs in packfmts))
    lines.append('def enums : List (String × List (String × Nat)) := %s'
                 % lean_list('(%s, %s)' % (lean_str(q), lean_list('(%s, %d)' % (lean_str(m), v) for m, v in ms))
                             for q, ms in sorted(enums.items())))
    lines += ['', 'end PyIkev2.Gen.Codec', '']
    facts = {'guards': guards, 'fmts': fmts, 'chain_minlen_check': chain_minlen, 'sk_len_check': sk_len, 'require_sk': require_sk,
             'type2payload': t2p, 'nonce_bounds': nonce_bounds}
    return 'Codec', '\n'.join(lines), facts, problems
