"""Facts about the IKE_SA state machine and the controller (ikesa.py, ikesacontroller.py) -> Gen/Machine.lean

  * IkeSa.State codes, MAX_RETRANSMISSIONS, RETRANSMISSION_DELAY
  * per handler: the states `_check_in_states` admits (range(...) expanded)
  * the states in which check_retransmission_timer runs
  * the window tests of _process_request / _process_response, and that my_msg_id is advanced before the handler
  * which exception classes process_message, _process_request, _process_response and main_loop catch
  * the cookie rule: HMAC input, digest, comparison, threshold test, and that the cookie check precedes every
    DiffieHellman.from_group call of _process_ike_sa_negotiation_request
  * the gate for unprotected IKE_SA_INIT after keys; the register-once test and the half-open clean-up of dispatch_message;
    the re-use predicate of _get_ike_sa_by_peer_addr
"""
import ast

from pyast import load, functions, classes, dotted, handler_names, lean_str, lean_list, lean_bool


def norm(node):
    return ' '.join(ast.unparse(node).split())


def state_codes(tree):
    for q, c in classes(tree):
        if q == 'IkeSa.State':
            out = {}
            for st in c.body:
                if isinstance(st, ast.Assign) and isinstance(st.value, ast.Constant):
                    out[st.targets[0].id] = st.value.value
            return out
    return {}


def expand_states(node, codes, problems):
    """[IkeSa.State.X, ...] or range(IkeSa.State.A, IkeSa.State.B [+ 1]) -> sorted list of codes"""
    def val(n):
        if isinstance(n, ast.BinOp) and isinstance(n.op, ast.Add):
            return val(n.left) + val(n.right)
        if isinstance(n, ast.Constant):
            return n.value
        d = dotted(n)
        if d and d.startswith('IkeSa.State.'):
            return codes[d.split('.')[-1]]
        raise ValueError(norm(n))
    try:
        if isinstance(node, (ast.List, ast.Tuple)):
            return sorted(val(e) for e in node.elts)
        if isinstance(node, ast.Call) and dotted(node.func) == 'range':
            lo, hi = val(node.args[0]), val(node.args[1])
            return [c for c in sorted(set(codes.values())) if lo <= c < hi]
    except (ValueError, KeyError) as ex:
        problems.append('state list not understood: %s' % ex)
    return []


def generate():
    problems = []
    tree, _ = load('ikesa')
    ctree, _ = load('ikesacontroller')
    codes = state_codes(tree)
    fn = dict(functions(tree))
    cfn = dict(functions(ctree))
    consts = {}
    for q, c in classes(tree):
        if q == 'IkeSa':
            for st in c.body:
                if isinstance(st, ast.Assign) and isinstance(st.value, ast.Constant) and isinstance(st.targets[0], ast.Name):
                    consts[st.targets[0].id] = st.value.value
    # admission lists
    admission = []
    for q, f in fn.items():
        for sub in ast.walk(f):
            if isinstance(sub, ast.Call) and isinstance(sub.func, ast.Attribute) and sub.func.attr == '_check_in_states' and len(sub.args) == 2:
                admission.append((q.split('.')[-1], expand_states(sub.args[1], codes, problems)))
    admission.sort()
    # retransmission states: every membership / equality test on self.state in check_retransmission_timer's first `if`
    waiting = set()
    f = fn.get('IkeSa.check_retransmission_timer')
    if f is not None:
        first_if = next((s for s in f.body if isinstance(s, ast.If)), None)
        if first_if is not None:
            for sub in ast.walk(first_if.test):
                if isinstance(sub, ast.Compare) and norm(sub.left) == 'self.state':
                    op, rhs = sub.ops[0], sub.comparators[0]
                    if isinstance(op, ast.In):
                        waiting |= set(expand_states(rhs, codes, problems))
                    elif isinstance(op, ast.Eq):
                        d = dotted(rhs)
                        if d and d.split('.')[-1] in codes:
                            waiting.add(codes[d.split('.')[-1]])
    else:
        problems.append('check_retransmission_timer not found')

    def tests_of(qual):
        """conditions of the top-level if / elif chain(s) of a function, in order"""
        out = []
        g = fn.get(qual)
        if g is None:
            problems.append(qual + ' not found')
            return out
        for st in g.body:
            cur = st
            while isinstance(cur, ast.If):
                out.append(norm(cur.test))
                cur = cur.orelse[0] if len(cur.orelse) == 1 and isinstance(cur.orelse[0], ast.If) else None
        return out

    def catches(tree_fn, qual):
        g = tree_fn.get(qual)
        out = []
        if g is None:
            problems.append(qual + ' not found')
            return out
        for sub in ast.walk(g):
            if isinstance(sub, ast.Try):
                out.append(['+'.join(handler_names(h)) for h in sub.handlers])
        return out

    req_tests = tests_of('IkeSa._process_request')[:2]
    resp_tests = tests_of('IkeSa._process_response')[:1]
    pm_tests = tests_of('IkeSa.process_message')
    # my_msg_id advanced before the handler is looked up
    g = fn.get('IkeSa._process_response')
    bump_before = False
    if g is not None:
        lines = {'bump': None, 'handler': None}
        for sub in ast.walk(g):
            if isinstance(sub, ast.Assign) and norm(sub.targets[0]) == 'self.my_msg_id' and lines['bump'] is None:
                lines['bump'] = sub.lineno
            if isinstance(sub, ast.Call) and norm(sub.func) == 'handler' and lines['handler'] is None:
                lines['handler'] = sub.lineno
        bump_before = lines['bump'] is not None and lines['handler'] is not None and lines['bump'] < lines['handler']
    # cookie rule
    g = fn.get('IkeSa._process_ike_sa_negotiation_request')
    cookie = {'input': '', 'digest': '', 'key': '', 'compare': '', 'before_dh': False}
    if g is not None:
        raise_line, dh_lines = None, []
        for sub in ast.walk(g):
            if isinstance(sub, ast.Call) and norm(sub.func) == 'HMAC':
                cookie['key'] = norm(sub.args[0])
                cookie['input'] = norm(sub.args[1])
                for kw in sub.keywords:
                    if kw.arg == 'digestmod':
                        cookie['digest'] = norm(kw.value)
            if isinstance(sub, ast.Raise) and sub.exc is not None and isinstance(sub.exc, ast.Call) and dotted(sub.exc.func) == 'CookieRequired':
                raise_line = sub.lineno
                par = next((p for p in ast.walk(g) if isinstance(p, ast.If) and sub in p.body), None)
                if par is not None:
                    cookie['compare'] = norm(par.test)
            if isinstance(sub, ast.Call) and (norm(sub.func).endswith('from_group') or norm(sub.func).endswith('compute_secret')):
                dh_lines.append(sub.lineno)
        cookie['before_dh'] = raise_line is not None and bool(dh_lines) and raise_line < min(dh_lines)
    else:
        problems.append('_process_ike_sa_negotiation_request not found')
    # controller
    g = cfn.get('IkeSaController.dispatch_message')
    threshold, register, cleanup = '', '', ''
    if g is not None:
        for sub in ast.walk(g):
            if isinstance(sub, ast.If):
                t = norm(sub.test)
                if 'cookie_threshold' in t:
                    threshold = t
                if 'REKEYED' in t and any(isinstance(x, ast.Expr) and 'append' in norm(x) for x in sub.body):
                    register = t
                if 'INITIAL' in t and any('remove' in norm(x) for x in sub.body):
                    cleanup = t
    g = cfn.get('IkeSaController._get_ike_sa_by_peer_addr')
    reuse = norm(g.body[-1]) if g is not None else ''
    facts = {
        'states': codes, 'max_retransmissions': consts.get('MAX_RETRANSMISSIONS'), 'retransmission_delay': consts.get('RETRANSMISSION_DELAY'),
        'admission': admission, 'waiting': sorted(waiting), 'request_window': req_tests, 'response_window': resp_tests,
        'process_message_tests': pm_tests, 'bump_before_handler': bump_before,
        'catches': {'process_message': catches(fn, 'IkeSa.process_message'), '_process_request': catches(fn, 'IkeSa._process_request'),
                    '_process_response': catches(fn, 'IkeSa._process_response'), 'main_loop': catches(cfn, 'IkeSaController.main_loop')},
        'cookie': cookie, 'threshold': threshold, 'register': register, 'cleanup': cleanup, 'reuse': reuse,
    }

    def strs(l):
        return lean_list([lean_str(x) for x in l])
    text = '/- GENERATED by extract/gen_machine.py from ikesa.py / ikesacontroller.py — do not edit -/\nnamespace PyIkev2.Gen.Machine\n\n'
    text += 'def stateCodes : List (String × Nat) := %s\n' % lean_list(['(%s, %d)' % (lean_str(k), v) for k, v in sorted(codes.items(), key=lambda kv: kv[1])])
    text += 'def maxRetransmissions : Nat := %s\n' % (consts.get('MAX_RETRANSMISSIONS') if isinstance(consts.get('MAX_RETRANSMISSIONS'), int) else 0)
    text += 'def retransmissionDelay : Nat := %s\n' % (consts.get('RETRANSMISSION_DELAY') if isinstance(consts.get('RETRANSMISSION_DELAY'), int) else 0)
    text += 'def admission : List (String × List Nat) := %s\n' % lean_list(
        ['(%s, %s)' % (lean_str(k), lean_list([str(x) for x in v])) for k, v in admission])
    text += 'def waitingStates : List Nat := %s\n' % lean_list([str(x) for x in sorted(waiting)])
    text += 'def requestWindow : List String := %s\n' % strs(req_tests)
    text += 'def responseWindow : List String := %s\n' % strs(resp_tests)
    text += 'def processMessageTests : List String := %s\n' % strs(pm_tests)
    text += 'def bumpBeforeHandler : Bool := %s\n' % lean_bool(bump_before)
    for k, v in facts['catches'].items():
        text += 'def catches_%s : List (List String) := %s\n' % (k.strip('_'), lean_list([strs(x) for x in v]))
    text += 'def cookieKey : String := %s\ndef cookieInput : String := %s\ndef cookieDigest : String := %s\ndef cookieCompare : String := %s\n' % (
        lean_str(cookie['key']), lean_str(cookie['input']), lean_str(cookie['digest']), lean_str(cookie['compare']))
    text += 'def cookieBeforeDh : Bool := %s\n' % lean_bool(cookie['before_dh'])
    text += 'def thresholdTest : String := %s\ndef registerTest : String := %s\ndef cleanupTest : String := %s\ndef reuseRule : String := %s\n' % (
        lean_str(threshold), lean_str(register), lean_str(cleanup), lean_str(reuse))
    text += '\nend PyIkev2.Gen.Machine\n'
    return 'Machine', text, facts, problems
