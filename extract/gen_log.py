"""Every logging call site and every `raise X(message)` site of the repository -> Gen/Log.lean, with the level and an
abstract class for each interpolated expression.

Classes: 0 plain (literals, enum names, counters, addresses, SPIs, payload kind lists, state names)
         1 messageDump   (to_dict() of a message: public values, nonces, AUTH data — no keys)
         2 exceptionText (str(ex) of a caught exception: as secret as the worst `raise` message)
         3 keyMaterial   (PSK, SKEYSEED, SK_*, KEYMAT, DH shared secret, private keys, whole credential / keyring /
                          configuration objects, raw netlink request octets)

`keyMaterial` is assigned by name-based taint with one step of intra-function data flow (a local assigned from a tainted
expression is tainted).  The soundness of this classification is what the C20 record search on the real code validates.
"""
import ast
import re

from pyast import load, functions, lean_str, lean_list

LEVELS = {'debug': 10, 'info': 20, 'warning': 30, 'error': 40, 'critical': 50, 'exception': 40, 'log_debug': 10, 'log_info': 20,
          'log_warning': 30, 'log_error': 40}
SECRET = re.compile(r'skeyseed|keymat|shared_secret|\bpsk\b|privkey|private|keyring|sk_[dape]|\bsk_|hexkey|\.key\b|secret|my_auth|peer_auth'
                    r'|my_crypto|peer_crypto|cookie_secret', re.I)
# objects whose repr / str shows credentials when interpolated as a whole (attributes of them are judged by their own name)
WHOLE = {'configuration', 'ike_conf', 'ikeconf', 'ikeconfdict', 'conf_dict', 'ipsecconf_dict', 'conf'}
RAWNAMES = {'data', 'payload', 'attr', 'attribute_value', 'header'}
MODULES = ['ikesa', 'ikesacontroller', 'message', 'crypto', 'xfrm', 'netlink', 'configuration', 'pyikev2']


def norm(n):
    return ' '.join(ast.unparse(n).split())


def interpolations(node):
    """expressions interpolated into a message expression (f-string, str.format, %)"""
    out = []
    if isinstance(node, ast.JoinedStr):
        for v in node.values:
            if isinstance(v, ast.FormattedValue):
                out.append(v.value)
    elif isinstance(node, ast.Call) and isinstance(node.func, ast.Attribute) and node.func.attr == 'format':
        out += interpolations(node.func.value)
        out += list(node.args) + [k.value for k in node.keywords]
    elif isinstance(node, ast.BinOp) and isinstance(node.op, ast.Mod):
        out += list(node.right.elts) if isinstance(node.right, ast.Tuple) else [node.right]
    elif isinstance(node, ast.BinOp) and isinstance(node.op, ast.Add):
        out += interpolations(node.left) + interpolations(node.right)
    elif isinstance(node, ast.Constant):
        pass
    elif isinstance(node, ast.Call) and norm(node.func) in ('str', 'repr'):
        out += node.args
    else:
        out.append(node)
    return out


def whole_uses(expr):
    """names (and `self.x` attributes) used as a whole value, i.e. not merely as the base of a further attribute access"""
    parents = {}
    for n in ast.walk(expr):
        for c in ast.iter_child_nodes(n):
            parents[id(c)] = n
    out = set()
    for n in ast.walk(expr):
        label = None
        if isinstance(n, ast.Name):
            label = n.id
        elif isinstance(n, ast.Attribute) and isinstance(n.value, ast.Name) and n.value.id == 'self':
            label = n.attr
        if label is None:
            continue
        par = parents.get(id(n))
        if isinstance(par, ast.Attribute) and par.value is n and not SECRET.search(par.attr):
            # `x.attr`: judged by `attr` … unless it is a call on the object itself such as x.hex() / x.decode()
            gp = parents.get(id(par))
            if not (isinstance(gp, ast.Call) and gp.func is par and par.attr in ('hex', 'decode', 'encode', 'format', '__repr__', '__str__')):
                continue
        out.add(label)
    return out


def classify(expr, tainted, excvars, module):
    t = norm(expr)
    used = whole_uses(expr)
    if SECRET.search(t) or used & tainted or used & WHOLE:
        return 3
    if module == 'netlink' and used & RAWNAMES:
        return 3
    if used & excvars:
        return 2
    if 'to_dict' in t:
        return 1
    return 0


def generate():
    problems = []
    sites, raises = [], []
    for module in MODULES:
        try:
            tree, _ = load(module)
        except FileNotFoundError:
            continue
        scopes = list(functions(tree)) + [('<module>', tree)]
        seen_nodes = set()
        for qual, fn in scopes:
            tainted, excvars = set(), set()
            body_nodes = list(ast.walk(fn))
            for _ in range(2):
                for sub in body_nodes:
                    if isinstance(sub, ast.Assign) and len(sub.targets) == 1:
                        tv = norm(sub.value)
                        vn = {n.id for n in ast.walk(sub.value) if isinstance(n, ast.Name)}
                        ctor = isinstance(sub.value, ast.Call) and (norm(sub.value.func).split('.')[-1][:1].isupper()
                                                                     and norm(sub.value.func).split('.')[-1] not in ('Keyring', 'Crypto'))
                        if (SECRET.search(tv) or vn & tainted) and not ctor:
                            tg = sub.targets[0]
                            for tgt in (tg.elts if isinstance(tg, ast.Tuple) else [tg]):
                                if isinstance(tgt, ast.Name):
                                    tainted.add(tgt.id)
                                elif isinstance(tgt, ast.Attribute) and isinstance(tgt.value, ast.Name) and tgt.value.id == 'self':
                                    tainted.add(tgt.attr)
                    if isinstance(sub, ast.ExceptHandler) and sub.name:
                        excvars.add(sub.name)
                    if isinstance(sub, ast.For) and isinstance(sub.target, ast.Name) and SECRET.search(norm(sub.iter)):
                        tainted.add(sub.target.id)
            for sub in body_nodes:
                if id(sub) in seen_nodes:
                    continue
                if isinstance(sub, ast.Call) and isinstance(sub.func, ast.Attribute):
                    name = sub.func.attr
                    base = norm(sub.func.value)
                    if (name in LEVELS and base in ('logging', 'self')) or (name == 'log' and base == 'logging') or (name == 'log_msg'):
                        seen_nodes.add(id(sub))
                        if name in ('log', 'log_msg'):
                            lvl_expr = norm(sub.args[0]) if sub.args else ''
                            level = {'logging.DEBUG': 10, 'logging.INFO': 20, 'logging.WARNING': 30, 'logging.ERROR': 40}.get(lvl_expr, -1)
                            msg = sub.args[1] if len(sub.args) > 1 else None
                            if level == -1:
                                continue        # the generic forwarder (level is a parameter): its callers are the sites
                        else:
                            level = LEVELS[name]
                            msg = sub.args[0] if sub.args else None
                        if msg is None:
                            continue
                        cls = [classify(e, tainted, excvars, module) for e in interpolations(msg)]
                        sites.append(('%s:%s:%d' % (module, qual.split('.')[-1], sub.lineno), level, cls))
                if isinstance(sub, ast.Raise) and sub.exc is not None and isinstance(sub.exc, ast.Call) and sub.exc.args:
                    seen_nodes.add(id(sub))
                    cls = []
                    for a in sub.exc.args:
                        cls += [classify(e, tainted, excvars, module) for e in interpolations(a)]
                    for kw in sub.exc.keywords:
                        pass
                    raises.append(('%s:%s:%d' % (module, qual.split('.')[-1], sub.lineno), norm(sub.exc.func), cls))
    sites = sorted(set((a, b, tuple(c)) for a, b, c in sites))
    raises = sorted(set((a, b, tuple(c)) for a, b, c in raises))
    # verbosity: basicConfig(level=logging.DEBUG if args.verbose else logging.INFO)
    verbosity = ''
    try:
        tree, _ = load('pyikev2')
        for sub in ast.walk(tree):
            if isinstance(sub, ast.Call) and norm(sub.func) == 'logging.basicConfig':
                for kw in sub.keywords:
                    if kw.arg == 'level':
                        verbosity = norm(kw.value)
    except FileNotFoundError:
        problems.append('pyikev2.py not found')
    facts = {'sites': [(a, b, list(c)) for a, b, c in sites], 'raises': [(a, b, list(c)) for a, b, c in raises], 'verbosity': verbosity}
    text = '/- GENERATED by extract/gen_log.py — do not edit -/\nnamespace PyIkev2.Gen.Log\n\n'
    text += '/-- (site, level, classes of the interpolated expressions): 0 plain, 1 message dump, 2 exception text, 3 key material -/\n'
    text += 'def sites : List (String × Nat × List Nat) := [\n  %s]\n' % ',\n  '.join(
        '(%s, %d, %s)' % (lean_str(a), b, lean_list([str(x) for x in c])) for a, b, c in sites)
    text += 'def raises : List (String × String × List Nat) := [\n  %s]\n' % ',\n  '.join(
        '(%s, %s, %s)' % (lean_str(a), lean_str(b), lean_list([str(x) for x in c])) for a, b, c in raises)
    text += 'def verbosity : String := %s\n' % lean_str(verbosity)
    text += '\nend PyIkev2.Gen.Log\n'
    return 'Log', text, facts, problems
