"""Gen.Crypto: algorithm tables of crypto.py and the data flow of the two key-split sites of ikesa.py.

Facts are normalised to *data flow*: which keymat slot (by position in the unpack format) feeds which Keyring field and
which Crypto object, which operands are concatenated in which order — not variable spelling of temporaries."""
import ast
import re
from pyast import load, functions, classes, dotted, call_name, lean_str, lean_list, lean_bool


def flatten_add(node):
    """a + b + c -> ['a','b','c'] (operands rendered with ast.unparse)"""
    if isinstance(node, ast.BinOp) and isinstance(node.op, ast.Add):
        return flatten_add(node.left) + flatten_add(node.right)
    return [ast.unparse(node)]


def find_fn(tree, qn):
    for q, fn in functions(tree):
        if q == qn:
            return fn
    return None


def fmt_template(node):
    """'>{0}s{1}s'.format(a, b) -> (template, [args])"""
    if isinstance(node, ast.Call) and isinstance(node.func, ast.Attribute) and node.func.attr == 'format' \
            and isinstance(node.func.value, ast.Constant):
        return node.func.value.value, [ast.unparse(a) for a in node.args]
    return None, []


def split_site(fn, problems, label):
    """the `a, b, c = unpack(fmt.format(...), keymat)` statement: [(target, size expression)]"""
    for st in ast.walk(fn):
        if isinstance(st, ast.Assign) and isinstance(st.value, ast.Call) and call_name(st.value) == 'unpack' \
                and isinstance(st.targets[0], ast.Tuple):
            tmpl, args = fmt_template(st.value.args[0])
            if tmpl is None:
                problems.append(label + ': unpack format is not a literal template')
                return []
            slots = re.findall(r'\{(\d+)\}s', tmpl)
            names = [ast.unparse(t) for t in st.targets[0].elts]
            if len(slots) != len(names) or not tmpl.startswith('>'):
                problems.append(label + ': template/targets mismatch')
                return []
            return [(n, args[int(s)]) for n, s in zip(names, slots)]
    problems.append(label + ': no unpack split found')
    return []


def size_class(expr):
    e = expr.replace(' ', '')
    if e.startswith('prf.') or 'prf' in e.split('.')[0]:
        return 'prf'
    if 'integ' in e:
        return 'integ'
    if 'cipher' in e or 'encr' in e:
        return 'encr'
    return e


def ctor_args(fn, name, target=None):
    """positional argument renderings of the first call `name(...)` (assigned to `target` if given)"""
    for st in ast.walk(fn):
        if isinstance(st, ast.Assign) and isinstance(st.value, ast.Call) and call_name(st.value) == name:
            if target is None or ast.unparse(st.targets[0]) == target:
                return [ast.unparse(a) for a in st.value.args]
    return []


def generate():
    problems = []
    ctree, _ = load('crypto')
    itree, _ = load('ikesa')
    mtree, _ = load('message')
    import gen_codec
    enums = gen_codec.enum_tables(mtree)

    def enum_val(node):
        v = gen_codec.resolve_enum(node, enums)
        if v is None:
            problems.append('enum not resolved: ' + ast.unparse(node))
            return 0
        return v

    prf_tab, integ_tab, cipher_tab, modp, ecg = [], [], [], [], []
    generator = None
    for qn, cls in classes(ctree):
        for st in cls.body:
            if isinstance(st, ast.Assign) and isinstance(st.targets[0], ast.Name) and isinstance(st.value, ast.Dict):
                nm = st.targets[0].id
                for k, v in zip(st.value.keys, st.value.values):
                    if qn == 'Prf' and nm == '_digestmod_dict':
                        prf_tab.append((enum_val(k), dotted(v).split('.')[-1]))
                    elif qn == 'Integrity' and nm == '_digestmod_dict':
                        integ_tab.append((enum_val(k), dotted(v.elts[0]).split('.')[-1], v.elts[1].value))
                    elif qn == 'Cipher' and nm == '_algorithm_dict':
                        cipher_tab.append((enum_val(k), dotted(v).split('.')[-1]))
                    elif qn == 'MODPDH' and nm == '_group_dict':
                        modp.append((enum_val(k), v.value))
                    elif qn == 'ECDH' and nm == '_ec_groups':
                        ecg.append((enum_val(k), dotted(v.func).split('.')[-1]))
    for qn, fn in functions(ctree):
        if qn == 'MODPDH.__init__':
            for node in ast.walk(fn):
                if isinstance(node, ast.Call) and call_name(node) == 'DHParameterNumbers' and len(node.args) == 2 \
                        and isinstance(node.args[1], ast.Constant):
                    generator = node.args[1].value
    if generator is None:
        problems.append('MODP generator not found')
        generator = 0
    # prfplus loop shape: counter start, width, operand order
    pp = find_fn(ctree, 'Prf.prfplus')
    pp_operands, pp_start = [], None
    if pp is not None:
        for node in ast.walk(pp):
            if isinstance(node, ast.Assign) and ast.unparse(node.targets[0]) == 'i' and isinstance(node.value, ast.Constant):
                pp_start = node.value.value
            if isinstance(node, ast.Call) and call_name(node) == 'prf' and len(node.args) == 2 and not pp_operands:
                pp_operands = flatten_add(node.args[1])
    # ikesa: key material
    gk = find_fn(itree, 'IkeSa.generate_ike_sa_key_material')
    ck = find_fn(itree, 'IkeSa.generate_child_sa_key_material')
    ike_split = [(n, size_class(e)) for n, e in split_site(gk, problems, 'ike split')] if gk else []
    child_split = [(n, size_class(e)) for n, e in split_site(ck, problems, 'child split')] if ck else []
    skeyseed_initial, skeyseed_rekey, ike_seed, ike_size, child_size = ([], []), ([], []), [], '', ''
    if gk:
        for node in ast.walk(gk):
            if isinstance(node, ast.If) and 'old_sk_d' in ast.unparse(node.test):
                neg = isinstance(node.test, ast.UnaryOp)
                a, b = (node.body, node.orelse) if neg else (node.orelse, node.body)
                for blk, which in ((a, 'initial'), (b, 'rekey')):
                    for st in blk:
                        if isinstance(st, ast.Assign) and isinstance(st.value, ast.Call) and call_name(st.value) == 'prf':
                            val = (flatten_add(st.value.args[0]), flatten_add(st.value.args[1]))
                            if which == 'initial':
                                skeyseed_initial = val
                            else:
                                skeyseed_rekey = val
            if isinstance(node, ast.Call) and call_name(node) == 'prfplus':
                ike_seed = flatten_add(node.args[1])
                ike_size = ast.unparse(node.args[2]).replace(' ', '')
    if ck:
        for node in ast.walk(ck):
            if isinstance(node, ast.Call) and call_name(node) == 'prfplus':
                child_size = ast.unparse(node.args[2]).replace(' ', '')
    keyring_fields = []
    for node in ast.walk(itree):
        if isinstance(node, ast.Assign) and ast.unparse(node.targets[0]) == 'Keyring' and isinstance(node.value, ast.Call):
            keyring_fields = [e.value for e in node.value.args[1].elts]
    ike_keyring = ctor_args(gk, 'Keyring') if gk else []
    child_keyring = ctor_args(ck, 'Keyring') if ck else []
    crypto_i = [a.replace('ike_sa_keyring.', '') for a in (ctor_args(gk, 'Crypto', 'crypto_i') if gk else [])]
    crypto_r = [a.replace('ike_sa_keyring.', '') for a in (ctor_args(gk, 'Crypto', 'crypto_r') if gk else [])]
    my_crypto, peer_crypto = ('', ''), ('', '')
    if gk:
        for st in ast.walk(gk):
            if isinstance(st, ast.Assign) and isinstance(st.value, ast.IfExp) and ast.unparse(st.value.test) == 'self.is_initiator':
                val = (ast.unparse(st.value.body), ast.unparse(st.value.orelse))
                if ast.unparse(st.targets[0]) == 'self.my_crypto':
                    my_crypto = val
                elif ast.unparse(st.targets[0]) == 'self.peer_crypto':
                    peer_crypto = val
    # keyseed construction at the two CHILD_SA negotiation sites
    keyseeds = []
    for qn in ('IkeSa._process_create_child_sa_negotiation_req', 'IkeSa._process_create_child_sa_negotiation_res'):
        fn = find_fn(itree, qn)
        seq = []
        if fn:
            for st in ast.walk(fn):
                if isinstance(st, ast.Assign) and ast.unparse(st.targets[0]) == 'keyseed':
                    seq.append(flatten_add(st.value))
        keyseeds.append((qn.split('.')[-1], seq))

    def sl(xs):
        return lean_list(lean_str(x) for x in xs)

    lines = ['/- generated by extract/gen_crypto.py from crypto.py and ikesa.py; do not edit -/',
             'namespace PyIkev2.Gen.Crypto', '']
    lines.append('def prfTable : List (Nat × String) := %s' % lean_list('(%d, %s)' % (i, lean_str(h)) for i, h in prf_tab))
    lines.append('def integTable : List (Nat × String × Nat) := %s'
                 % lean_list('(%d, %s, %d)' % (i, lean_str(h), b) for i, h, b in integ_tab))
    lines.append('def cipherTable : List (Nat × String) := %s' % lean_list('(%d, %s)' % (i, lean_str(h)) for i, h in cipher_tab))
    lines.append('def ecGroups : List (Nat × String) := %s' % lean_list('(%d, %s)' % (i, lean_str(h)) for i, h in ecg))
    lines.append('def modpGenerator : Nat := %d' % generator)
    lines.append('def modpHexLen : List (Nat × Nat) := %s' % lean_list('(%d, %d)' % (i, len(h)) for i, h in modp))
    lines.append('def modpPrimes : List (Nat × Nat) := %s' % lean_list('(%d, 0x%s)' % (i, h) for i, h in modp))
    lines.append('def prfplusCounterStart : Nat := %d' % (pp_start if pp_start is not None else 0))
    lines.append('def prfplusOperands : List String := %s' % sl(pp_operands))
    lines.append('def ikeSplit : List (String × String) := %s' % lean_list('(%s, %s)' % (lean_str(a), lean_str(b)) for a, b in ike_split))
    lines.append('def childSplit : List (String × String) := %s' % lean_list('(%s, %s)' % (lean_str(a), lean_str(b)) for a, b in child_split))
    lines.append('def keyringFields : List String := %s' % sl(keyring_fields))
    lines.append('def ikeKeyringCtor : List String := %s' % sl(ike_keyring))
    lines.append('def childKeyringCtor : List String := %s' % sl(child_keyring))
    lines.append('def cryptoI : List String := %s' % sl(crypto_i))
    lines.append('def cryptoR : List String := %s' % sl(crypto_r))
    lines.append('def myCrypto : String × String := (%s, %s)' % (lean_str(my_crypto[0]), lean_str(my_crypto[1])))
    lines.append('def peerCrypto : String × String := (%s, %s)' % (lean_str(peer_crypto[0]), lean_str(peer_crypto[1])))
    lines.append('def skeyseedInitial : List String × List String := (%s, %s)' % (sl(skeyseed_initial[0]), sl(skeyseed_initial[1])))
    lines.append('def skeyseedRekey : List String × List String := (%s, %s)' % (sl(skeyseed_rekey[0]), sl(skeyseed_rekey[1])))
    lines.append('def ikePrfplusSeed : List String := %s' % sl(ike_seed))
    lines.append('def ikeKeymatSize : String := %s' % lean_str(ike_size))
    lines.append('def childKeymatSize : String := %s' % lean_str(child_size))
    lines.append('def keyseedSites : List (String × List (List String)) := %s'
                 % lean_list('(%s, %s)' % (lean_str(q), lean_list(sl(x) for x in seq)) for q, seq in keyseeds))
    lines += ['', 'end PyIkev2.Gen.Crypto', '']
    facts = {'prf': prf_tab, 'integ': integ_tab, 'cipher': cipher_tab, 'ec': ecg, 'modp_groups': [i for i, _ in modp],
             'ike_split': ike_split, 'child_split': child_split}
    return 'Crypto', '\n'.join(lines), facts, problems
