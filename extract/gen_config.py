"""Facts of configuration.py -> Gen/Config.lean: the name -> transform tables, the mode / protocol tables, every
`conf_dict.get(key, default)` default, the fixed parts of the proposals (NO_ESN, AH without ENCR), the order in which the
transform lists are concatenated, and which exception classes Configuration.__init__ maps to ConfigurationError."""
import ast

from pyast import load, functions, classes, lean_str, lean_list


def norm(n):
    return ' '.join(ast.unparse(n).split())


ENUMS = {}


def enum_tables():
    """Transform.Type / EncrId / IntegId / PrfId / DhId / EsnId, Proposal.Protocol, TrafficSelector.IpProtocol, xfrm.Mode, PayloadID.Type"""
    out = {}
    mt, _ = load('message')
    for qual, node in classes(mt):
        vals = {}
        for st in node.body:
            if isinstance(st, ast.Assign) and isinstance(st.value, ast.Constant) and isinstance(st.value.value, int) and isinstance(st.targets[0], ast.Name):
                vals[st.targets[0].id] = st.value.value
        if vals:
            out[qual] = vals
    xt, _ = load('xfrm')
    consts = {}
    for st in xt.body:
        if isinstance(st, ast.Assign) and isinstance(st.value, ast.Constant) and isinstance(st.targets[0], ast.Name):
            consts[st.targets[0].id] = st.value.value
    out['Mode'] = {'TRANSPORT': consts.get('XFRM_MODE_TRANSPORT'), 'TUNNEL': consts.get('XFRM_MODE_TUNNEL')}
    return out


def value_of(node, enums, problems):
    """Transform(Transform.Type.X, Transform.EncrId.Y[, keylen]) -> (type, id, keylen); enum members -> int"""
    if isinstance(node, ast.Call) and norm(node.func) == 'Transform':
        a = node.args
        try:
            ty = enums['Transform.Type'][norm(a[0]).split('.')[-1]]
            cls, member = norm(a[1]).split('.')[-2:]
            tid = enums['Transform.' + cls][member]
            kl = a[2].value if len(a) > 2 else -1
            return (ty, tid, kl)
        except (KeyError, IndexError, AttributeError) as ex:
            problems.append('transform not understood: %s (%r)' % (norm(node), ex))
            return (0, 0, -1)
    d = norm(node)
    cls, member = d.split('.')[-2:]
    table = {'IpProtocol': 'TrafficSelector.IpProtocol', 'Mode': 'Mode', 'Protocol': 'Proposal.Protocol'}.get(cls, cls)
    try:
        return enums[table][member]
    except KeyError:
        problems.append('enum member not understood: %s' % d)
        return 0


def generate():
    problems = []
    tree, _ = load('configuration')
    enums = enum_tables()
    tables = {}
    for st in tree.body:
        if isinstance(st, ast.Assign) and isinstance(st.value, ast.Dict) and isinstance(st.targets[0], ast.Name):
            name = st.targets[0].id
            tables[name] = [(k.value, value_of(v, enums, problems)) for k, v in zip(st.value.keys, st.value.values)]
    fn = dict(functions(tree))
    defaults = []
    for q in ('Configuration._load_ike_conf', 'Configuration._load_auth_conf', 'Configuration._load_ipsec_conf'):
        g = fn.get(q)
        if g is None:
            problems.append(q + ' not found')
            continue
        for sub in ast.walk(g):
            if isinstance(sub, ast.Call) and isinstance(sub.func, ast.Attribute) and sub.func.attr == 'get' and len(sub.args) == 2 \
                    and isinstance(sub.args[0], ast.Constant):
                defaults.append((q.split('.')[-1] + ':' + sub.args[0].value, norm(sub.args[1])))
    defaults = sorted(set(defaults))
    # concatenation order of the proposals, fixed transforms
    props = []
    for q in ('Configuration._load_ike_conf', 'Configuration._load_ipsec_conf'):
        g = fn.get(q)
        for sub in ast.walk(g) if g else []:
            if isinstance(sub, ast.Call) and norm(sub.func) == 'Proposal':
                props.append((q.split('.')[-1], [norm(a) for a in sub.args]))
    ah = []
    g = fn.get('Configuration._load_ipsec_conf')
    for sub in ast.walk(g) if g else []:
        if isinstance(sub, ast.If) and 'AH' in norm(sub.test):
            ah = [norm(sub.test)] + [norm(x) for x in sub.body]
    noesn = [norm(s.value) for s in ast.walk(g) if isinstance(s, ast.Assign) and norm(s.targets[0]) == 'no_esn'] if g else []
    ts = []
    for sub in ast.walk(g) if g else []:
        if isinstance(sub, ast.keyword) and sub.arg in ('my_ts', 'peer_ts', 'index', 'lifetime', 'mode'):
            ts.append((sub.arg, norm(sub.value)))
    ts.sort()
    # exception mapping of __init__
    g = fn.get('Configuration.__init__')
    caught = []
    for sub in ast.walk(g) if g else []:
        if isinstance(sub, ast.Try):
            for hnd in sub.handlers:
                caught.append(norm(hnd.type) if hnd.type is not None else '*')
    idrule = []
    g = fn.get('Configuration._get_payload_id')
    if g is not None:
        for sub in ast.walk(g):
            if isinstance(sub, ast.If) and isinstance(sub.test, ast.Compare):
                idrule.append(norm(sub.test))
            if isinstance(sub, ast.IfExp):
                idrule.append(norm(sub))
    listen = []
    g = fn.get('Configuration._load_ike_conf')
    for sub in ast.walk(g) if g else []:
        if isinstance(sub, ast.If) and 'my_addresses' in norm(sub.test):
            listen.append(norm(sub.test))
    facts = {'tables': tables, 'defaults': defaults, 'proposals': props, 'ah': ah, 'no_esn': noesn, 'ipsec_fields': ts, 'caught': caught,
             'id_rule': idrule, 'listen': listen, 'enums': {k: enums.get(k) for k in ('Transform.Type', 'Proposal.Protocol', 'TrafficSelector.IpProtocol', 'Mode')}}

    def tr(l):
        return lean_list(['(%s, (%d, %d, %d))' % (lean_str(str(k)), v[0], v[1], v[2]) for k, v in l])

    def en(l):
        return lean_list(['(%s, %d)' % (lean_str(str(k)), v) for k, v in l])
    text = '/- GENERATED by extract/gen_config.py from configuration.py — do not edit -/\nnamespace PyIkev2.Gen.Config\n\n'
    for name, lean in (('_encr_name_to_transform', 'encrTable'), ('_integ_name_to_transform', 'integTable'),
                       ('_prf_name_to_transform', 'prfTable'), ('_dh_name_to_transform', 'dhTable')):
        text += 'def %s : List (String × (Nat × Nat × Int)) := %s\n' % (lean, tr(tables.get(name, [])))
    for name, lean in (('_ip_proto_name_to_enum', 'ipProtoTable'), ('_mode_name_to_enum', 'modeTable'), ('_ipsec_proto_name_to_enum', 'ipsecProtoTable')):
        text += 'def %s : List (String × Nat) := %s\n' % (lean, en(tables.get(name, [])))
    text += 'def defaults : List (String × String) := %s\n' % lean_list(['(%s, %s)' % (lean_str(a), lean_str(b)) for a, b in defaults])
    text += 'def proposals : List (String × List String) := %s\n' % lean_list(
        ['(%s, %s)' % (lean_str(a), lean_list([lean_str(x) for x in b])) for a, b in props])
    text += 'def ahRule : List String := %s\n' % lean_list([lean_str(x) for x in ah])
    text += 'def noEsn : List String := %s\n' % lean_list([lean_str(x) for x in noesn])
    text += 'def ipsecFields : List (String × String) := %s\n' % lean_list(['(%s, %s)' % (lean_str(a), lean_str(b)) for a, b in ts])
    text += 'def caught : List String := %s\n' % lean_list([lean_str(x) for x in caught])
    text += 'def idRule : List String := %s\n' % lean_list([lean_str(x) for x in idrule])
    text += 'def listenRule : List String := %s\n' % lean_list([lean_str(x) for x in listen])
    text += '\nend PyIkev2.Gen.Config\n'
    return 'Config', text, facts, problems
